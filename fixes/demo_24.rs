// demonstration for "fix: remove_paragraph(0)/insert_paragraph(0) act on a leading comment instead of the first paragraph"
use deb822_lossless::Deb822;
use std::str::FromStr;

#[test]
fn remove_first_paragraph_after_leading_comment() {
    let mut d = Deb822::from_str("# top\n\nA: a\n\nB: b\n").unwrap();
    d.remove_paragraph(0);
    assert_eq!(d.paragraphs().count(), 1);
    assert_eq!(d.to_string(), "# top\n\nB: b\n");
}
