// Defect 7: appending to a document whose text lacks a final newline fuses lines/paragraphs.
use deb822_lossless::Deb822;

#[test]
fn insert_after_unterminated_last_line() {
    let d: Deb822 = "A: b".parse().unwrap();
    let mut p = d.paragraphs().next().unwrap();
    p.insert("C", "d");
    assert_eq!(d.to_string(), "A: b\nC: d\n");
    let re: Deb822 = d.to_string().parse().unwrap();
    let rp = re.paragraphs().next().unwrap();
    assert_eq!(rp.get("A").as_deref(), Some("b"));
    assert_eq!(rp.get("C").as_deref(), Some("d"));
}

#[test]
fn set_new_key_after_unterminated_last_line() {
    let d: Deb822 = "A: b".parse().unwrap();
    let mut p = d.paragraphs().next().unwrap();
    p.set("C", "d");
    assert_eq!(d.to_string(), "A: b\nC: d\n");
}

#[test]
fn set_new_key_after_unterminated_continuation_line() {
    let d: Deb822 = "A: b\n c".parse().unwrap();
    let mut p = d.paragraphs().next().unwrap();
    p.set("C", "d");
    assert_eq!(d.to_string(), "A: b\n c\nC: d\n");
    let re: Deb822 = d.to_string().parse().unwrap();
    assert_eq!(re.paragraphs().next().unwrap().get("A").as_deref(), Some("b\nc"));
}

#[test]
fn add_paragraph_after_unterminated_last_line() {
    let mut d: Deb822 = "A: b".parse().unwrap();
    let mut p = d.add_paragraph();
    p.set("C", "d");
    assert_eq!(d.to_string(), "A: b\n\nC: d\n");
    let re: Deb822 = d.to_string().parse().unwrap();
    let ps = re.paragraphs().collect::<Vec<_>>();
    assert_eq!(ps.len(), 2);
    assert_eq!(ps[0].items().collect::<Vec<_>>(), vec![("A".to_string(), "b".to_string())]);
    assert_eq!(ps[1].items().collect::<Vec<_>>(), vec![("C".to_string(), "d".to_string())]);
}

#[test]
fn insert_paragraph_at_end_after_unterminated_last_line() {
    let mut d: Deb822 = "A: b\n\nB: c".parse().unwrap();
    let mut p = d.insert_paragraph(2);
    p.set("C", "d");
    assert_eq!(d.to_string(), "A: b\n\nB: c\n\nC: d\n");
}

#[test]
fn terminated_documents_are_unchanged() {
    let mut d: Deb822 = "A: b\n".parse().unwrap();
    d.paragraphs().next().unwrap().insert("C", "d");
    assert_eq!(d.to_string(), "A: b\nC: d\n");
    let mut p = d.add_paragraph();
    p.set("E", "f");
    assert_eq!(d.to_string(), "A: b\nC: d\n\nE: f\n");
    let mut e = Deb822::new();
    let mut p = e.add_paragraph();
    p.set("X", "y");
    assert_eq!(e.to_string(), "X: y\n");
}
