// Optional 22 (second half): Relations::wrap_and_sort drops substvars.
use debian_control::lossless::relations::Relations;

fn relaxed(s: &str) -> Relations {
    let (r, errors) = Relations::parse_relaxed(s, true);
    assert_eq!(errors, Vec::<String>::new());
    r
}

#[test]
fn wrap_and_sort_keeps_substvars() {
    let sorted = relaxed("${misc:Depends}, b (>= 1),  a | c , ${shlibs:Depends}").wrap_and_sort();
    assert_eq!(sorted.to_string(), "a | c, b (>= 1), ${misc:Depends}, ${shlibs:Depends}");
    assert_eq!(
        sorted.substvars().collect::<Vec<_>>(),
        vec!["${misc:Depends}".to_string(), "${shlibs:Depends}".to_string()]
    );
    // idempotent and re-readable
    let again = relaxed(&sorted.to_string()).wrap_and_sort();
    assert_eq!(again.to_string(), sorted.to_string());
}

#[test]
fn only_substvars() {
    let sorted = relaxed("${misc:Depends}").wrap_and_sort();
    assert_eq!(sorted.to_string(), "${misc:Depends}");
}

#[test]
fn without_substvars_unchanged() {
    let rs: Relations = "b (>= 1),  a | c".parse().unwrap();
    assert_eq!(rs.wrap_and_sort().to_string(), "a | c, b (>= 1)");
    let rs: Relations = "".parse().unwrap();
    assert_eq!(rs.wrap_and_sort().to_string(), "");
}
