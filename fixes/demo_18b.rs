// Optional 18 (second half): the lossy reader rejects negated architectures ("[!amd64]").
use debian_control::lossy::{Relation, Relations};

#[test]
fn negated_architectures_are_read() {
    let r: Relation = "libfoo-dev [!hurd-i386 !kfreebsd-amd64]".parse().unwrap();
    assert_eq!(
        r.architectures,
        Some(vec!["!hurd-i386".to_string(), "!kfreebsd-amd64".to_string()])
    );
    assert_eq!(r.to_string(), "libfoo-dev [!hurd-i386 !kfreebsd-amd64]");
    let again: Relation = r.to_string().parse().unwrap();
    assert_eq!(again, r);
}

#[test]
fn whole_field_with_negation() {
    let rs: Relations = "a (>= 1) [!amd64] <!nocheck>, b [linux-any]".parse().unwrap();
    assert_eq!(rs.to_string(), "a (>= 1) [!amd64] <!nocheck>, b [linux-any]");
}

#[test]
fn dangling_negation_is_an_error() {
    assert!("a [!]".parse::<Relation>().is_err());
    assert!("a [!".parse::<Relation>().is_err());
}
