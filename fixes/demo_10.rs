// Defect 10: dep3 lossless setters append a duplicate field, so the getter keeps the old value.
use dep3::lossless::PatchHeader;
use dep3::{AppliedUpstream, Forwarded, Origin, OriginCategory};
use std::str::FromStr;

const TEXT: &str = "Description: Old short\n old long 1\n old long 2\nOrigin: vendor, http://old\nForwarded: no\nAuthor: Old <old@example.com>\nLast-Update: 2006-12-21\nApplied-Upstream: 1.0\nBug: http://old/1\nBug-Debian: http://old/2\n";

fn count(h: &PatchHeader, key: &str) -> usize {
    h.as_deb822().get_all(key).count()
}

#[test]
fn set_origin_replaces() {
    let mut h = PatchHeader::from_str(TEXT).unwrap();
    h.set_origin(Some(OriginCategory::Upstream), Origin::Commit("abc".into()));
    assert_eq!(h.origin(), Some((Some(OriginCategory::Upstream), Origin::Commit("abc".into()))));
    assert_eq!(count(&h, "Origin"), 1);
}

#[test]
fn set_forwarded_replaces() {
    let mut h = PatchHeader::from_str(TEXT).unwrap();
    h.set_forwarded(Forwarded::NotNeeded);
    assert_eq!(h.forwarded(), Some(Forwarded::NotNeeded));
    assert_eq!(count(&h, "Forwarded"), 1);
}

#[test]
fn set_author_replaces() {
    let mut h = PatchHeader::from_str(TEXT).unwrap();
    h.set_author("New <new@example.com>");
    assert_eq!(h.author().as_deref(), Some("New <new@example.com>"));
    assert_eq!(count(&h, "Author"), 1);

    let mut h = PatchHeader::from_str("From: Old <old@example.com>\nSubject: x\n").unwrap();
    h.set_author("New <new@example.com>");
    assert_eq!(h.author().as_deref(), Some("New <new@example.com>"));
    assert_eq!(count(&h, "From"), 1);
}

#[test]
fn set_last_update_replaces() {
    let mut h = PatchHeader::from_str(TEXT).unwrap();
    let date = chrono::NaiveDate::from_ymd_opt(2020, 1, 2).unwrap();
    h.set_last_update(date);
    assert_eq!(h.last_update(), Some(date));
    assert_eq!(count(&h, "Last-Update"), 1);
}

#[test]
fn set_applied_upstream_replaces() {
    let mut h = PatchHeader::from_str(TEXT).unwrap();
    h.set_applied_upstream(AppliedUpstream::Commit("abc".into()));
    assert_eq!(h.applied_upstream(), Some(AppliedUpstream::Commit("abc".into())));
    assert_eq!(count(&h, "Applied-Upstream"), 1);
}

#[test]
fn set_bugs_replace() {
    let mut h = PatchHeader::from_str(TEXT).unwrap();
    h.set_upstream_bug("http://new/1");
    h.set_vendor_bug("Debian", "http://new/2");
    h.set_vendor_bug("Ubuntu", "http://new/3");
    assert_eq!(
        h.bugs().collect::<Vec<_>>(),
        vec![
            (None, "http://new/1".to_string()),
            (Some("Debian".to_string()), "http://new/2".to_string()),
            (Some("Ubuntu".to_string()), "http://new/3".to_string()),
        ]
    );
    assert_eq!(h.vendor_bugs("Debian").collect::<Vec<_>>(), vec!["http://new/2".to_string()]);
}

#[test]
fn set_description_replaces_first_line_and_keeps_long_description() {
    let mut h = PatchHeader::from_str(TEXT).unwrap();
    h.set_description("New short");
    assert_eq!(h.description().as_deref(), Some("New short"));
    assert_eq!(h.long_description().as_deref(), Some("old long 1\nold long 2"));
    assert_eq!(count(&h, "Description"), 1);

    // without a long description
    let mut h = PatchHeader::from_str("Description: Old short\nAuthor: A\n").unwrap();
    h.set_description("New short");
    assert_eq!(h.description().as_deref(), Some("New short"));
    assert_eq!(h.to_string(), "Description: New short\nAuthor: A\n");
}

#[test]
fn set_description_on_subject() {
    let mut h = PatchHeader::from_str("From: A\nSubject: Old short\n old long\n").unwrap();
    h.set_description("New short");
    assert_eq!(h.description().as_deref(), Some("New short"));
    assert_eq!(h.long_description().as_deref(), Some("old long"));
    assert_eq!(count(&h, "Subject"), 1);
    assert_eq!(count(&h, "Description"), 0);
}

#[test]
fn set_long_description_replaces() {
    let mut h = PatchHeader::from_str(TEXT).unwrap();
    h.set_long_description("new long");
    assert_eq!(h.description().as_deref(), Some("Old short"));
    assert_eq!(h.long_description().as_deref(), Some("new long"));
    assert_eq!(count(&h, "Description"), 1);

    let mut h = PatchHeader::from_str("From: A\nSubject: Old short\n old long\n").unwrap();
    h.set_long_description("new long");
    assert_eq!(h.description().as_deref(), Some("Old short"));
    assert_eq!(h.long_description().as_deref(), Some("new long"));
    assert_eq!(count(&h, "Subject"), 1);
}

#[test]
fn setters_on_empty_header_still_add() {
    let mut h = PatchHeader::new();
    h.set_description("Short");
    h.set_author("A <a@example.com>");
    h.set_forwarded(Forwarded::No);
    assert_eq!(h.to_string(), "Description: Short\nAuthor: A <a@example.com>\nForwarded: no\n");
}
