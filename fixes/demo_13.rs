// Defect 13: Repository.pdiffs is read as yes/no but written as true/false.
use apt_sources::Repositories;

const TEXT: &str = "Types: deb\nURIs: http://deb.debian.org/debian\nSuites: stable\nComponents: main\nArchitectures: amd64\nPDiffs: yes\n";

#[test]
fn pdiffs_is_written_the_way_it_is_read() {
    let repos: Repositories = TEXT.parse().unwrap();
    let out = repos.to_string();
    assert!(out.contains("PDiffs: yes\n"), "unexpected output: {:?}", out);
    assert!(!out.contains("true"));
}

#[test]
fn output_can_be_read_back() {
    for value in ["yes", "no"] {
        let text = TEXT.replace("PDiffs: yes", &format!("PDiffs: {}", value));
        let repos: Repositories = text.parse().unwrap();
        let out = repos.to_string();
        let again: Repositories = out.parse().expect("own output must be readable");
        assert_eq!(again.len(), 1);
        assert_eq!(again[0], repos[0]);
        assert_eq!(again.to_string(), out);
    }
}
