// Optional 18: lossy Relation prints the terms of one profile restriction list joined by ", "
// ("a <x, y>"), which nothing parses; and its reader splits "<x y>" into two lists.
use debian_control::lossy::{Relation, Relations};
use debian_control::relations::BuildProfile;

fn en(s: &str) -> BuildProfile {
    BuildProfile::Enabled(s.to_string())
}
fn dis(s: &str) -> BuildProfile {
    BuildProfile::Disabled(s.to_string())
}

#[test]
fn display_uses_policy_syntax() {
    let r = Relation::build("a").profile(vec![en("x"), dis("y")]).build();
    assert_eq!(r.to_string(), "a <x !y>");
}

#[test]
fn own_output_parses_back() {
    let r = Relation::build("a")
        .profile(vec![en("x"), dis("y")])
        .profile(vec![en("z")])
        .build();
    let text = r.to_string();
    assert_eq!(text, "a <x !y> <z>");
    let back: Relation = text.parse().unwrap();
    assert_eq!(back, r);
}

#[test]
fn reader_keeps_one_list_together() {
    let r: Relation = "a <x !y> <z>".parse().unwrap();
    assert_eq!(r.profiles, vec![vec![en("x"), dis("y")], vec![en("z")]]);
    let r: Relation = "foo (>= 1.0) [i386 arm] <!nocheck> <!cross>".parse().unwrap();
    assert_eq!(r.profiles, vec![vec![dis("nocheck")], vec![dis("cross")]]);
    let rs: Relations = "a <x y>, b < !z >".parse().unwrap();
    assert_eq!(rs[0][0].profiles, vec![vec![en("x"), en("y")]]);
    assert_eq!(rs[1][0].profiles, vec![vec![dis("z")]]);
}

#[test]
fn lossy_and_lossless_agree() {
    let text = "a <x !y> <z>";
    let lossy: Relation = text.parse().unwrap();
    let lossless: debian_control::lossless::relations::Relation = text.parse().unwrap();
    assert_eq!(lossless.profiles().collect::<Vec<_>>(), lossy.profiles);
    let reparsed: debian_control::lossless::relations::Relation = lossy.to_string().parse().unwrap();
    assert_eq!(reparsed.profiles().collect::<Vec<_>>(), lossy.profiles);
}

#[test]
fn malformed_input_is_an_error_not_a_hang() {
    assert!("a <x".parse::<Relation>().is_err());
    assert!("a <x, y>".parse::<Relation>().is_err());
    assert!("a <".parse::<Relation>().is_err());
}
