// Defect 2: lossy Deb822 FromStr asserts on a continuation line without final newline.
use deb822_lossless::lossy::Deb822;

#[test]
fn continuation_without_final_newline() {
    let doc: Deb822 = "A: b\n c".parse().unwrap();
    let p = doc.iter().next().unwrap();
    assert_eq!(p.get("A"), Some("b\nc"));
}

#[test]
fn continuation_ending_in_cr() {
    let doc: Deb822 = "A: b\n c\r".parse().unwrap();
    let p = doc.iter().next().unwrap();
    assert_eq!(p.get("A"), Some("b\nc"));
}

#[test]
fn with_final_newline_unchanged() {
    let doc: Deb822 = "A: b\n c\n".parse().unwrap();
    assert_eq!(doc.iter().next().unwrap().get("A"), Some("b\nc"));
    let doc: Deb822 = "A: b".parse().unwrap();
    assert_eq!(doc.iter().next().unwrap().get("A"), Some("b"));
}
