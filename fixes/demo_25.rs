// demonstration for "fix: add_paragraph appends in the middle of a document that has comments directly under the root"
use deb822_lossless::Deb822;
use std::str::FromStr;

#[test]
fn add_paragraph_after_wrap_and_sort_appends_at_the_end() {
    let d = Deb822::from_str("# top\n\nA: a\n\n# mid\nB: b\n\nC: c\n").unwrap();
    let mut w = d.wrap_and_sort(None, None);
    let mut p = w.add_paragraph();
    p.set("X", "x");
    let keys: Vec<Vec<String>> = w.paragraphs().map(|p| p.keys().collect()).collect();
    assert_eq!(keys, vec![vec!["A"], vec!["B"], vec!["C"], vec!["X"]]);
}
