// Defect 11: Source::vcs() hands "Vcs-Git" to Vcs::from_field, which expects "Git" -> always None.
use debian_control::lossless::Control;
use debian_control::vcs::Vcs;

fn source_vcs(text: &str) -> Option<Vcs> {
    let control: Control = text.parse().unwrap();
    control.source().unwrap().vcs()
}

#[test]
fn vcs_git_is_returned() {
    let vcs = source_vcs(
        "Source: foo\nVcs-Browser: https://salsa.debian.org/foo/foo\nVcs-Git: https://salsa.debian.org/foo/foo.git -b debian/main [sub]\n",
    );
    match vcs {
        Some(Vcs::Git { repo_url, branch, subpath }) => {
            assert_eq!(repo_url, "https://salsa.debian.org/foo/foo.git");
            assert_eq!(branch.as_deref(), Some("debian/main"));
            assert_eq!(subpath.as_deref(), Some("sub"));
        }
        other => panic!("expected Git, got {:?}", other),
    }
}

#[test]
fn other_vcs_kinds_are_returned() {
    assert!(matches!(source_vcs("Source: foo\nVcs-Bzr: lp:foo\n"), Some(Vcs::Bzr { .. })));
    assert!(matches!(source_vcs("Source: foo\nVcs-Hg: https://hg.example.com/foo\n"), Some(Vcs::Hg { .. })));
    assert!(matches!(source_vcs("Source: foo\nVcs-Svn: svn://svn.example.com/foo\n"), Some(Vcs::Svn { .. })));
    assert!(matches!(source_vcs("Source: foo\nVcs-Cvs: :pserver:x@y:/cvs foo\n"), Some(Vcs::Cvs { .. })));
}

#[test]
fn set_then_get() {
    let mut control = Control::new();
    let mut source = control.add_source("foo");
    source.set_vcs_git("https://example.com/foo.git");
    let vcs = source.vcs().expect("vcs() must see the Vcs-Git field just set");
    assert_eq!(vcs.to_field(), ("Git", "https://example.com/foo.git".to_string()));
}

#[test]
fn no_vcs_or_only_browser_is_none() {
    assert!(source_vcs("Source: foo\n").is_none());
    assert!(source_vcs("Source: foo\nVcs-Browser: https://example.com\n").is_none());
}

#[test]
fn from_field_and_to_field_stay_inverse() {
    for (name, value) in [
        ("Git", "https://example.com/foo.git -b main [sub]"),
        ("Bzr", "lp:foo [sub]"),
        ("Hg", "https://example.com/hg"),
        ("Svn", "svn://example.com/foo"),
        ("Cvs", ":pserver:x@y:/cvs module"),
    ] {
        let vcs = Vcs::from_field(name, value).unwrap();
        assert_eq!(vcs.to_field(), (name, value.to_string()));
    }
}
