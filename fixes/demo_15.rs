// Defect 15: sibling back-ends disagree on field-name spelling.
use std::str::FromStr;

const PKG: &str = "Package: foo\nVersion: 1.0\nArchitecture: amd64\nDescription: short\nDescription-md5: 0123456789abcdef0123456789abcdef\n";

#[test]
fn lossy_package_reads_description_md5_as_apt_spells_it() {
    let p = debian_control::lossy::apt::Package::from_str(PKG).unwrap();
    assert_eq!(p.description_md5.as_deref(), Some("0123456789abcdef0123456789abcdef"));
}

#[test]
fn lossy_and_lossless_package_agree_on_description_md5() {
    let lossy = debian_control::lossy::apt::Package::from_str(PKG).unwrap();
    let lossless = debian_control::lossless::apt::Package::from_str(PKG).unwrap();
    assert_eq!(lossy.description_md5, lossless.description_md5());
    // what the lossy side writes is what the lossless side reads
    let written = lossy.to_string();
    assert!(written.contains("Description-md5: 0123456789abcdef0123456789abcdef\n"), "{:?}", written);
    let reread = debian_control::lossless::apt::Package::from_str(&written).unwrap();
    assert_eq!(reread.description_md5().as_deref(), Some("0123456789abcdef0123456789abcdef"));
}

const PATCH: &str = "Description: fix it\nAuthor: A <a@example.com>\nReviewed-by: R <r@example.com>\n";

#[test]
fn lossless_patch_header_reads_reviewed_by_as_dep3_spells_it() {
    let h = dep3::lossless::PatchHeader::from_str(PATCH).unwrap();
    assert_eq!(h.reviewed_by(), vec!["R <r@example.com>".to_string()]);
}

#[test]
fn lossy_and_lossless_patch_header_agree_on_reviewed_by() {
    let lossy = dep3::lossy::PatchHeader::from_str(PATCH).unwrap();
    let lossless = dep3::lossless::PatchHeader::from_str(PATCH).unwrap();
    assert_eq!(lossy.reviewed_by.clone().into_iter().collect::<Vec<_>>(), lossless.reviewed_by());
    let reread = dep3::lossless::PatchHeader::from_str(&lossy.to_string()).unwrap();
    assert_eq!(reread.reviewed_by(), vec!["R <r@example.com>".to_string()]);
}
