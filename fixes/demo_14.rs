// Defect 14: lossy deserialize_file_list splits the Files field on '\n' only, so the very common
// single-line form "Files: a/* b/*" never matches anything.
use debian_copyright::lossy::Copyright;
use std::path::Path;

const TEXT: &str = "Format: https://www.debian.org/doc/packaging-manuals/copyright-format/1.0/\n\nFiles: *\nCopyright: 2024 A\nLicense: MIT\n\nFiles: src/* debian/*\nCopyright: 2024 B\nLicense: GPL-3+\n\nFiles: doc/*\n man/*\nCopyright: 2024 C\nLicense: CC0\n";

#[test]
fn space_separated_patterns_match() {
    let c: Copyright = TEXT.parse().unwrap();
    let f = c.find_files(Path::new("debian/rules")).unwrap();
    assert!(f.matches(Path::new("src/main.rs")));
    assert!(f.matches(Path::new("debian/rules")));
    assert!(!f.matches(Path::new("README")));
    assert!(f.to_string().contains("GPL-3+"));
}

#[test]
fn newline_separated_patterns_still_match() {
    let c: Copyright = TEXT.parse().unwrap();
    let f = c.find_files(Path::new("man/foo.1")).unwrap();
    assert!(f.matches(Path::new("doc/index.html")));
    assert!(f.to_string().contains("CC0"));
    let f = c.find_files(Path::new("README")).unwrap();
    assert!(f.to_string().contains("MIT"));
}

#[test]
fn lossy_and_lossless_agree() {
    let lossy: Copyright = TEXT.parse().unwrap();
    let lossless: debian_copyright::lossless::Copyright = TEXT.parse().unwrap();
    for path in ["debian/rules", "src/x.rs", "doc/a", "man/b", "README"] {
        let path = Path::new(path);
        let a = lossy.find_files(path).map(|f| f.to_string().contains("GPL-3+"));
        let b = lossless.find_files(path).map(|f| f.license().unwrap().name() == Some("GPL-3+"));
        assert_eq!(a, b, "{:?}", path);
    }
}

#[test]
fn output_reads_back_equal() {
    let c: Copyright = TEXT.parse().unwrap();
    let again: Copyright = c.to_string().parse().unwrap();
    assert_eq!(again, c);
    assert!(again.find_files(Path::new("debian/rules")).unwrap().to_string().contains("GPL-3+"));
}
