// Optional 19: Signature::KeyBlock Display/FromStr do not round-trip (a "\n" is added each time).
use apt_sources::signature::Signature;
use apt_sources::Repositories;
use std::str::FromStr;

const BLOCK: &str = "-----BEGIN PGP PUBLIC KEY BLOCK-----\n.\nmDMEY865UxYJKwYBBAHaRw8BAQdAd7Z0srwuhlB6JKFkcf4HU4SSS/xcRfwEQWzr\n=5NZE\n-----END PGP PUBLIC KEY BLOCK-----";

#[test]
fn key_block_display_then_from_str_is_identity() {
    let sig = Signature::KeyBlock(BLOCK.to_string());
    let text = sig.to_string();
    let back = Signature::from_str(&text).unwrap();
    assert_eq!(back, sig);
    assert_eq!(back.to_string(), text);
}

#[test]
fn key_path_unchanged() {
    let sig = Signature::from_str("/usr/share/keyrings/debian-archive-keyring.gpg").unwrap();
    assert!(matches!(sig, Signature::KeyPath(_)));
    assert_eq!(sig.to_string(), "/usr/share/keyrings/debian-archive-keyring.gpg");
}

#[test]
fn repository_file_round_trips() {
    let text = format!(
        "Types: deb\nURIs: http://deb.debian.org/debian\nSuites: stable\nComponents: main\nArchitectures: amd64\nSigned-By:\n {}\n",
        BLOCK.replace('\n', "\n ")
    );
    let repos: Repositories = text.parse().unwrap();
    let once = repos.to_string();
    let again: Repositories = once.parse().unwrap();
    assert_eq!(again[0], repos[0]);
    assert_eq!(again.to_string(), once);
}
