// Optional 17: RelationBuilder::build / From<lossy::Relation> print "a []" for a relation
// without an architecture restriction.
use debian_control::lossless::relations::Relation;
use debian_control::relations::{BuildProfile, VersionConstraint};

#[test]
fn builder_without_architectures_prints_no_brackets() {
    let r = Relation::build("a").build();
    assert_eq!(r.to_string(), "a");
    let r = Relation::build("a")
        .version_constraint(VersionConstraint::GreaterThanEqual, "1.0".parse().unwrap())
        .build();
    assert_eq!(r.to_string(), "a (>= 1.0)");
    let r = Relation::build("a")
        .add_profile(vec![BuildProfile::Disabled("nocheck".to_string())])
        .build();
    assert_eq!(r.to_string(), "a <!nocheck>");
}

#[test]
fn builder_with_architectures_unchanged() {
    let r = Relation::build("samba")
        .version_constraint(VersionConstraint::GreaterThanEqual, "2.0".parse().unwrap())
        .archqual("any")
        .architectures(vec!["amd64".to_string(), "i386".to_string()])
        .build();
    assert_eq!(r.to_string(), "samba:any (>= 2.0) [amd64 i386]");
}

#[test]
fn lossy_to_lossless_conversion_round_trips() {
    for text in ["a", "a (>= 1.0)", "a:any", "a [amd64 i386]", "a (>= 1.0) [amd64]"] {
        let lossy: debian_control::lossy::Relation = text.parse().unwrap();
        let lossless: Relation = lossy.clone().into();
        assert_eq!(lossless.to_string(), text);
        let back: debian_control::lossy::Relation = lossless.into();
        assert_eq!(back, lossy);
    }
}
