// Defect 1: src/lex.rs fallback arm split_at(1) panics on a multi-byte char at line start.
use deb822_lossless::Deb822;

#[test]
fn multibyte_char_at_line_start_does_not_panic_relaxed() {
    let (_doc, errors) = Deb822::from_str_relaxed("é: x\n");
    assert!(!errors.is_empty());
}

#[test]
fn multibyte_char_at_line_start_is_a_parse_error_not_a_panic() {
    assert!("é: x\n".parse::<Deb822>().is_err());
    assert!("A: b\n\u{1F600}\n".parse::<Deb822>().is_err());
}

#[test]
fn multibyte_char_at_line_start_lossy() {
    assert!("é: x\n".parse::<deb822_lossless::lossy::Deb822>().is_err());
}

#[test]
fn relaxed_parse_is_lossless_for_multibyte_garbage() {
    let text = "é: x\nA: b\n";
    let (doc, _errors) = Deb822::from_str_relaxed(text);
    assert_eq!(doc.to_string(), text);
}
