// Defect 5: set_architectures / add_profile leave an immutable tree behind.
use debian_control::lossless::relations::{Entry, Relation};
use debian_control::relations::BuildProfile;

#[test]
fn set_architectures_then_add_profile() {
    let mut r = Relation::simple("samba");
    r.set_architectures(vec!["amd64"].into_iter());
    r.add_profile(&[BuildProfile::Disabled("nocheck".to_string())]);
    assert_eq!(r.to_string(), "samba [amd64] <!nocheck>");
}

#[test]
fn set_architectures_twice() {
    let mut r = Relation::simple("samba");
    r.set_architectures(vec!["amd64"].into_iter());
    r.set_architectures(vec!["i386"].into_iter());
    assert_eq!(r.to_string(), "samba [i386]");
}

#[test]
fn add_profile_twice_does_not_panic() {
    let mut r = Relation::simple("samba");
    r.add_profile(&[BuildProfile::Disabled("nocheck".to_string())]);
    r.add_profile(&[BuildProfile::Enabled("cross".to_string())]);
    let reparsed: Relation = r.to_string().parse().unwrap();
    assert_eq!(reparsed, r);
}

#[test]
fn add_profile_then_other_setters() {
    let mut r = Relation::simple("samba");
    r.add_profile(&[BuildProfile::Disabled("nocheck".to_string())]);
    r.set_archqual("any");
    assert_eq!(r.to_string(), "samba:any <!nocheck>");
    // (exact spacing of an architecture list inserted in front of a profile is a separate matter)
    r.set_architectures(vec!["amd64"].into_iter());
    assert_eq!(r, "samba:any [amd64] <!nocheck>".parse().unwrap());
    r.set_architectures(vec!["i386"].into_iter());
    assert_eq!(r, "samba:any [i386] <!nocheck>".parse().unwrap());
}

#[test]
fn set_architectures_then_drop_constraint() {
    let mut r: Relation = "samba (>= 2.0)".parse().unwrap();
    r.set_architectures(vec!["amd64"].into_iter());
    assert!(r.drop_constraint());
    assert_eq!(r.to_string(), "samba [amd64]");
}

#[test]
fn inside_a_parsed_entry() {
    let entry: Entry = "samba | other".parse().unwrap();
    let mut r = entry.get_relation(0).unwrap();
    r.set_architectures(vec!["amd64"].into_iter());
    r.add_profile(&[BuildProfile::Disabled("nocheck".to_string())]);
    r.set_architectures(vec!["i386"].into_iter());
    assert_eq!(entry.to_string(), "samba [i386] <!nocheck> | other");
}

#[test]
fn builder_with_architectures_and_profile() {
    let r = Relation::build("samba")
        .architectures(vec!["amd64".to_string()])
        .add_profile(vec![BuildProfile::Disabled("nocheck".to_string())])
        .build();
    assert_eq!(r.to_string(), "samba [amd64] <!nocheck>");
}
