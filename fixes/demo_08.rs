// Defect 8: a comment as the last line of a paragraph makes the strict parse fail ("expected key").
use deb822_lossless::Deb822;

fn items(p: &deb822_lossless::Paragraph) -> Vec<(String, String)> {
    p.items().collect()
}

#[test]
fn comment_last_line_before_blank_line() {
    let text = "A: b\n# c\n\nB: c\n";
    let d: Deb822 = text.parse().unwrap();
    assert_eq!(d.to_string(), text);
    let ps = d.paragraphs().collect::<Vec<_>>();
    assert_eq!(ps.len(), 2);
    assert_eq!(items(&ps[0]), vec![("A".to_string(), "b".to_string())]);
    assert_eq!(items(&ps[1]), vec![("B".to_string(), "c".to_string())]);
}

#[test]
fn comment_last_line_at_eof() {
    for text in ["A: b\n# c\n", "A: b\n# c", "A: b\n# c\n# d\n"] {
        let d: Deb822 = text.parse().unwrap();
        assert_eq!(d.to_string(), text);
        let ps = d.paragraphs().collect::<Vec<_>>();
        assert_eq!(ps.len(), 1);
        assert_eq!(items(&ps[0]), vec![("A".to_string(), "b".to_string())]);
    }
}

#[test]
fn relaxed_parse_reports_no_error() {
    let (d, errors) = Deb822::from_str_relaxed("A: b\n# c\n\nB: c\n");
    assert_eq!(errors, Vec::<String>::new());
    assert_eq!(d.paragraphs().count(), 2);
}

#[test]
fn lossy_and_lossless_agree() {
    let text = "A: b\n# c\n\nB: c\n";
    let lossy: deb822_lossless::lossy::Deb822 = text.parse().unwrap();
    let lossless: Deb822 = text.parse().unwrap();
    assert_eq!(lossy.len(), lossless.paragraphs().count());
}

#[test]
fn editing_still_works_afterwards() {
    let d: Deb822 = "A: b\n# c\n\nB: c\n".parse().unwrap();
    let mut p = d.paragraphs().next().unwrap();
    p.set("D", "e");
    let out = d.to_string();
    let re: Deb822 = out.parse().unwrap();
    let ps = re.paragraphs().collect::<Vec<_>>();
    assert_eq!(ps.len(), 2);
    assert_eq!(ps[0].get("A").as_deref(), Some("b"));
    assert_eq!(ps[0].get("D").as_deref(), Some("e"));
    assert!(out.contains("\n# c\n"));
}

#[test]
fn other_comment_positions_unchanged() {
    for text in [
        "# top\nA: b\n",
        "A: b\n# mid\nB: c\n",
        "A: b\n\n# between\n\nB: c\n",
        "A: b\n\n# trailing\n",
    ] {
        let d: Deb822 = text.parse().unwrap();
        assert_eq!(d.to_string(), text);
    }
}
