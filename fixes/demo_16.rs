// Optional 16: Relations::insert(0, entry) into a single-entry field yields "ba".
use debian_control::lossless::relations::{Entry, Relation, Relations};

#[test]
fn insert_in_front_of_single_entry() {
    let mut rels: Relations = "a".parse().unwrap();
    rels.insert(0, Entry::from(vec![Relation::simple("b")]));
    assert_eq!(rels.to_string(), "b, a");
    assert_eq!(rels.len(), 2);
    let re: Relations = rels.to_string().parse().unwrap();
    assert_eq!(re.entries().map(|e| e.to_string()).collect::<Vec<_>>(), vec!["b", "a"]);
}

#[test]
fn other_insert_positions_unchanged() {
    let mut rels: Relations = "".parse().unwrap();
    rels.insert(0, Entry::from(vec![Relation::simple("a")]));
    assert_eq!(rels.to_string(), "a");
    rels.insert(1, Entry::from(vec![Relation::simple("c")]));
    assert_eq!(rels.to_string(), "a, c");
    rels.insert(1, Entry::from(vec![Relation::simple("b")]));
    assert_eq!(rels.to_string(), "a, b, c");
    rels.insert(0, Entry::from(vec![Relation::simple("z")]));
    assert_eq!(rels.to_string(), "z, a, b, c");
}
