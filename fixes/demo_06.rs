// Defect 6: Paragraph::remove detaches while iterating and leaves later duplicates behind.
use deb822_lossless::Deb822;

#[test]
fn remove_removes_every_field_of_that_name() {
    let d: Deb822 = "A: 1\nB: 2\nA: 3\n".parse().unwrap();
    let mut p = d.paragraphs().next().unwrap();
    p.remove("A");
    assert_eq!(p.get("A"), None);
    assert_eq!(p.get_all("A").count(), 0);
    assert_eq!(p.keys().collect::<Vec<_>>(), vec!["B"]);
    assert_eq!(d.to_string(), "B: 2\n");
}

#[test]
fn remove_adjacent_duplicates() {
    let d: Deb822 = "A: 1\nA: 2\nA: 3\nB: 4\n".parse().unwrap();
    let mut p = d.paragraphs().next().unwrap();
    p.remove("A");
    assert_eq!(d.to_string(), "B: 4\n");
}

#[test]
fn remove_single_and_missing() {
    let d: Deb822 = "A: 1\nB: 2\n".parse().unwrap();
    let mut p = d.paragraphs().next().unwrap();
    p.remove("C");
    assert_eq!(d.to_string(), "A: 1\nB: 2\n");
    p.remove("A");
    assert_eq!(d.to_string(), "B: 2\n");
}
