// Optional 20: a continuation line whose first character is ':' is lexed as COLON and rejected.
use deb822_lossless::Deb822;

#[test]
fn continuation_line_starting_with_colon_lossless() {
    let text = "A: b\n :c\nD: e\n";
    let d: Deb822 = text.parse().unwrap();
    assert_eq!(d.to_string(), text);
    let p = d.paragraphs().next().unwrap();
    assert_eq!(p.get("A").as_deref(), Some("b\n:c"));
    assert_eq!(p.get("D").as_deref(), Some("e"));
}

#[test]
fn continuation_line_starting_with_colon_lossy() {
    let d: deb822_lossless::lossy::Deb822 = "A: b\n :c\n\t::\nD: e\n".parse().unwrap();
    let p = d.iter().next().unwrap();
    assert_eq!(p.get("A"), Some("b\n:c\n::"));
    assert_eq!(p.get("D"), Some("e"));
}

#[test]
fn colon_handling_elsewhere_unchanged() {
    let d: Deb822 = "A : b:c\nB:\n d: e\n".parse().unwrap();
    let p = d.paragraphs().next().unwrap();
    assert_eq!(p.get("A").as_deref(), Some("b:c"));
    assert_eq!(p.get("B").as_deref(), Some("d: e"));
    // a line starting with ':' in column 0 is still not a field
    assert!("A: b\n:c\n".parse::<Deb822>().is_err());
}
