// Optional 22 (first half): lossless Relation::architectures() drops the '!' of "[!amd64]",
// and therefore so do wrap_and_sort and the conversion to the lossy type.
use debian_control::lossless::relations::{Entry, Relation, Relations};

#[test]
fn architectures_keeps_negation() {
    let r: Relation = "a [!amd64 !i386]".parse().unwrap();
    assert_eq!(
        r.architectures().unwrap().collect::<Vec<_>>(),
        vec!["!amd64".to_string(), "!i386".to_string()]
    );
    let r: Relation = "a [amd64 i386]".parse().unwrap();
    assert_eq!(
        r.architectures().unwrap().collect::<Vec<_>>(),
        vec!["amd64".to_string(), "i386".to_string()]
    );
}

#[test]
fn negated_and_plain_architectures_are_not_equal() {
    let a: Relation = "a [!amd64]".parse().unwrap();
    let b: Relation = "a [amd64]".parse().unwrap();
    assert!(a != b);
}

#[test]
fn wrap_and_sort_keeps_negation() {
    let r: Relation = "a  [ !amd64   !i386 ]".parse().unwrap();
    assert_eq!(r.wrap_and_sort().to_string(), "a [!amd64 !i386]");
    let e: Entry = "b [!amd64] | a [!hurd-i386]".parse().unwrap();
    assert_eq!(e.wrap_and_sort().to_string(), "a [!hurd-i386] | b [!amd64]");
    let rs: Relations = "b [!amd64], a".parse().unwrap();
    let sorted = rs.wrap_and_sort();
    assert_eq!(sorted.to_string(), "a, b [!amd64]");
    // and the result is the same relation as before
    let again: Relations = sorted.to_string().parse().unwrap();
    assert_eq!(again, sorted);
}

#[test]
fn set_architectures_with_negation_reads_back() {
    let mut r = Relation::simple("a");
    r.set_architectures(vec!["!amd64", "!i386"].into_iter());
    assert_eq!(r.to_string(), "a [!amd64 !i386]");
    assert_eq!(
        r.architectures().unwrap().collect::<Vec<_>>(),
        vec!["!amd64".to_string(), "!i386".to_string()]
    );
    let reparsed: Relation = r.to_string().parse().unwrap();
    assert_eq!(reparsed, r);
}

#[test]
fn conversion_to_and_from_lossy_keeps_negation() {
    let lossless: Relation = "a [!amd64]".parse().unwrap();
    let lossy: debian_control::lossy::Relation = lossless.into();
    assert_eq!(lossy.architectures, Some(vec!["!amd64".to_string()]));
    assert_eq!(lossy.to_string(), "a [!amd64]");
    let back: Relation = lossy.into();
    assert_eq!(back.to_string(), "a [!amd64]");
}
