// Defect 3: lossless relations parser loops forever (allocating) at EOF inside "[" and "${".
// Run with `timeout 20` (and preferably `ulimit -v`) against the unfixed code.
use debian_control::lossless::relations::Relations;
use std::sync::mpsc;
use std::time::Duration;

fn within<T: Send + 'static>(f: impl FnOnce() -> T + Send + 'static) -> T {
    let (tx, rx) = mpsc::channel();
    std::thread::spawn(move || {
        let _ = tx.send(f());
    });
    rx.recv_timeout(Duration::from_secs(5))
        .expect("parser did not terminate within 5s")
}

#[test]
fn unterminated_architectures_terminates() {
    let (text, errors) = within(|| {
        let (r, e) = Relations::parse_relaxed("a [", false);
        (r.to_string(), e)
    });
    assert_eq!(text, "a [");
    assert!(!errors.is_empty());
}

#[test]
fn unterminated_architectures_strict_is_error() {
    let res = within(|| "a [amd64".parse::<Relations>().map(|r| r.to_string()));
    assert!(res.is_err());
}

#[test]
fn unterminated_substvar_terminates() {
    let (text, errors) = within(|| {
        let (r, e) = Relations::parse_relaxed("${a", true);
        (r.to_string(), e)
    });
    assert_eq!(text, "${a");
    assert!(!errors.is_empty());
}

#[test]
fn dollar_at_eof_terminates() {
    let (text, errors) = within(|| {
        let (r, e) = Relations::parse_relaxed("a, $", true);
        (r.to_string(), e)
    });
    assert_eq!(text, "a, $");
    assert!(!errors.is_empty());
}

// Every short token sequence must terminate and be lossless.
#[test]
fn all_short_token_sequences_terminate() {
    within(|| {
        let alphabet = [
            "a", " ", "[", "]", "<", ">", "(", ")", "{", "}", "!", ",", "|", ":", "=", "$", "1", "\n",
            "#",
        ];
        let mut inputs = vec![String::new()];
        let mut frontier = vec![String::new()];
        for _ in 0..3 {
            let mut next = Vec::new();
            for s in &frontier {
                for t in &alphabet {
                    next.push(format!("{}{}", s, t));
                }
            }
            inputs.extend(next.iter().cloned());
            frontier = next;
        }
        for input in inputs {
            for prefix in ["", "a ", "a (", "${"] {
                let input = format!("{}{}", prefix, input);
                for allow in [false, true] {
                    let (r, _e) = Relations::parse_relaxed(&input, allow);
                    assert_eq!(r.to_string(), input);
                }
            }
        }
    });
}
