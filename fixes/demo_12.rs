// Defect 12: FilesParagraph::set_license(License::Text) omits the empty first line that
// license() keys on, so a text-only licence reads back as Name/Named.
use debian_copyright::lossless::Copyright;
use debian_copyright::License;

const TEXT: &str = "Format: https://www.debian.org/doc/packaging-manuals/copyright-format/1.0/\n\nFiles: *\nCopyright: 2024 Someone\nLicense: GPL-3+\n";

#[test]
fn every_license_variant_reads_back_equal() {
    let c: Copyright = TEXT.parse().unwrap();
    let mut f = c.iter_files().next().unwrap();
    for license in [
        License::Name("MIT".to_string()),
        License::Text("Do whatever you like.".to_string()),
        License::Text("line one\nline two".to_string()),
        License::Named("MIT".to_string(), "line one\nline two".to_string()),
    ] {
        f.set_license(&license);
        assert_eq!(f.license(), Some(license.clone()));
        // and through the document as well
        assert_eq!(c.iter_files().next().unwrap().license(), Some(license));
    }
}

#[test]
fn text_only_license_is_written_with_an_empty_synopsis_line() {
    let c: Copyright = TEXT.parse().unwrap();
    let mut f = c.iter_files().next().unwrap();
    f.set_license(&License::Text("line one\nline two".to_string()));
    let out = c.to_string();
    let mut lines = out.lines().skip_while(|l| !l.starts_with("License:"));
    let first = lines.next().unwrap();
    assert_eq!(first.strip_prefix("License:").unwrap().trim(), "");
    assert_eq!(lines.next(), Some(" line one"));
    assert_eq!(lines.next(), Some(" line two"));
    // what is written agrees with License's own Display
    assert_eq!(License::Text("x".to_string()).to_string(), "\nx");
}
