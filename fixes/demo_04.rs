// Defect 4: From<Vec<Relation>> for Entry builds the "|" separator with kind COMMA.
use debian_control::lossless::relations::{Entry, Relation, Relations};

#[test]
fn remove_first_relation_of_built_entry() {
    let entry = Entry::from(vec![Relation::simple("a"), Relation::simple("b")]);
    assert_eq!(entry.to_string(), "a | b");
    entry.remove_relation(0);
    assert_eq!(entry.to_string(), "b");
}

#[test]
fn remove_second_relation_of_built_entry() {
    let entry = Entry::from(vec![Relation::simple("a"), Relation::simple("b")]);
    entry.remove_relation(1);
    assert_eq!(entry.to_string(), "a");
}

#[test]
fn built_entry_inside_relations_is_one_entry() {
    // A COMMA-kind token inside an entry makes Relations::insert believe the list is non-empty.
    let entry = Entry::from(vec![Relation::simple("a"), Relation::simple("b")]);
    let mut rels = Relations::from(vec![entry]);
    assert_eq!(rels.to_string(), "a | b");
    let e = rels.get_entry(0).unwrap();
    e.remove_relation(0);
    assert_eq!(rels.to_string(), "b");
    rels.push(Entry::from(vec![Relation::simple("c"), Relation::simple("d")]));
    assert_eq!(rels.to_string(), "b, c | d");
    let reparsed: Relations = rels.to_string().parse().unwrap();
    assert_eq!(reparsed, rels);
}

#[test]
fn wrap_and_sort_result_is_editable() {
    let entry: Entry = "b | a".parse().unwrap();
    let sorted = entry.wrap_and_sort();
    assert_eq!(sorted.to_string(), "a | b");
    sorted.remove_relation(0);
    assert_eq!(sorted.to_string(), "b");
}
