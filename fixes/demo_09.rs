// Defect 9: wrap_and_sort drops the NEWLINE that terminates a comment line.
use deb822_lossless::lossless::Entry;
use deb822_lossless::{Deb822, Indentation, Paragraph};

fn ws_par(p: &Paragraph) -> Paragraph {
    p.wrap_and_sort(Indentation::Spaces(1), false, None, None, None)
}

#[test]
fn paragraph_wrap_and_sort_keeps_comment_on_its_own_line() {
    let d: Deb822 = "A: b\n# c\nB: d\n".parse().unwrap();
    let p = d.paragraphs().next().unwrap();
    let once = ws_par(&p);
    assert_eq!(once.to_string(), "A: b\n# c\nB: d\n");
    // output parses strictly and a second application is a no-op
    let re: Deb822 = once.to_string().parse().unwrap();
    assert_eq!(
        re.paragraphs().next().unwrap().items().collect::<Vec<_>>(),
        vec![("A".to_string(), "b".to_string()), ("B".to_string(), "d".to_string())]
    );
    let twice = ws_par(&once);
    assert_eq!(twice.to_string(), once.to_string());
}

#[test]
fn paragraph_wrap_and_sort_moves_comment_with_its_field() {
    let d: Deb822 = "B: d\n# about A\nA: b\n".parse().unwrap();
    let p = d.paragraphs().next().unwrap();
    let by_key = |a: &Entry, b: &Entry| a.key().cmp(&b.key());
    let sorted = p.wrap_and_sort(Indentation::Spaces(1), false, None, Some(&by_key), None);
    assert_eq!(sorted.to_string(), "# about A\nA: b\nB: d\n");
    let again = sorted.wrap_and_sort(Indentation::Spaces(1), false, None, Some(&by_key), None);
    assert_eq!(again.to_string(), sorted.to_string());
    let _: Deb822 = sorted.to_string().parse().unwrap();
}

#[test]
fn paragraph_wrap_and_sort_keeps_trailing_comment() {
    let d: Deb822 = "A: b\n# c\n\nB: d\n".parse().unwrap();
    let p = d.paragraphs().next().unwrap();
    let once = ws_par(&p);
    assert_eq!(once.to_string(), "A: b\n# c\n");
    assert_eq!(ws_par(&once).to_string(), "A: b\n# c\n");
}

#[test]
fn document_wrap_and_sort_twice_keeps_leading_comment_line() {
    let d: Deb822 = "# top\nA: b\n".parse().unwrap();
    let once = d.wrap_and_sort(None, None);
    assert_eq!(once.to_string(), "# top\nA: b\n");
    let twice = once.wrap_and_sort(None, None);
    assert_eq!(twice.to_string(), "# top\nA: b\n");
    let thrice = twice.wrap_and_sort(None, None);
    assert_eq!(thrice.to_string(), "# top\nA: b\n");
    let re: Deb822 = twice.to_string().parse().unwrap();
    assert_eq!(re.paragraphs().count(), 1);
}

#[test]
fn document_wrap_and_sort_comment_travels_with_paragraph() {
    let d: Deb822 = "B: 1\n\n# about A\nA: 2\n".parse().unwrap();
    let by_first_key = |a: &Paragraph, b: &Paragraph| a.keys().next().cmp(&b.keys().next());
    let once = d.wrap_and_sort(Some(&by_first_key), Some(&ws_par));
    assert_eq!(once.to_string(), "# about A\nA: 2\n\nB: 1\n");
    let twice = once.wrap_and_sort(Some(&by_first_key), Some(&ws_par));
    assert_eq!(twice.to_string(), once.to_string());
    let re: Deb822 = twice.to_string().parse().unwrap();
    assert_eq!(re.paragraphs().count(), 2);
}

#[test]
fn document_wrap_and_sort_with_in_paragraph_comment() {
    let d: Deb822 = "A: b\n# c\nB: d\n".parse().unwrap();
    let once = d.wrap_and_sort(None, Some(&ws_par));
    assert_eq!(once.to_string(), "A: b\n# c\nB: d\n");
    let twice = once.wrap_and_sort(None, Some(&ws_par));
    assert_eq!(twice.to_string(), "A: b\n# c\nB: d\n");
}
