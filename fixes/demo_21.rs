// Optional 21: the lossless relations parser rejects versions with an epoch.
use debian_control::lossless::relations::{Relation, Relations};
use debian_control::relations::VersionConstraint;

#[test]
fn epoch_version_parses_and_round_trips() {
    let text = "a (>= 1:2.0), b (<< 2:1.0-1~bpo1) | c";
    let rels: Relations = text.parse().unwrap();
    assert_eq!(rels.to_string(), text);
    let a = rels.get_entry(0).unwrap().get_relation(0).unwrap();
    assert_eq!(
        a.version(),
        Some((VersionConstraint::GreaterThanEqual, "1:2.0".parse().unwrap()))
    );
    let b = rels.get_entry(1).unwrap().get_relation(0).unwrap();
    assert_eq!(
        b.version(),
        Some((VersionConstraint::LessThan, "2:1.0-1~bpo1".parse().unwrap()))
    );
}

#[test]
fn epoch_version_agrees_with_lossy_and_setters() {
    let lossless: Relation = "debhelper (>= 1:13)".parse().unwrap();
    let lossy: debian_control::lossy::Relation = "debhelper (>= 1:13)".parse().unwrap();
    assert_eq!(lossless.version(), lossy.version);
    let built = Relation::new("debhelper", lossy.version.clone());
    assert_eq!(built.to_string(), "debhelper (>= 1:13)");
    assert_eq!(built, lossless);
    assert_eq!(lossless.wrap_and_sort().to_string(), "debhelper (>= 1:13)");
    let mut r = lossless;
    r.set_version(Some((VersionConstraint::Equal, "3:1".parse().unwrap())));
    assert_eq!(r.to_string(), "debhelper (= 3:1)");
    assert_eq!(r.version(), Some((VersionConstraint::Equal, "3:1".parse().unwrap())));
}

#[test]
fn satisfied_by_uses_the_epoch() {
    let rels: Relations = "a (>= 1:2.0)".parse().unwrap();
    assert!(!rels.satisfied_by(|_: &str| -> Option<debversion::Version> { Some("3.0".parse().unwrap()) }));
    assert!(rels.satisfied_by(|_: &str| -> Option<debversion::Version> { Some("1:2.1".parse().unwrap()) }));
}

#[test]
fn malformed_epochs_are_errors() {
    assert!("a (>= 1:)".parse::<Relations>().is_err());
    assert!("a (>= 1:2:3)".parse::<Relations>().is_err());
    assert!("a (>= :2)".parse::<Relations>().is_err());
    // plain versions unchanged
    let r: Relation = "a (>= 2.0)".parse().unwrap();
    assert_eq!(r.version(), Some((VersionConstraint::GreaterThanEqual, "2.0".parse().unwrap())));
}
