// Extra (found while fixing 5): Relation::add_profile replaces an existing profile restriction
// list instead of adding one, so RelationBuilder / the lossy->lossless conversion lose all but
// the last list.
use debian_control::lossless::relations::{Entry, Relation};
use debian_control::relations::BuildProfile;

fn dis(s: &str) -> BuildProfile {
    BuildProfile::Disabled(s.to_string())
}

#[test]
fn add_profile_twice_keeps_both() {
    let mut r = Relation::simple("samba");
    r.add_profile(&[dis("nocheck")]);
    r.add_profile(&[dis("cross")]);
    assert_eq!(r.to_string(), "samba <!nocheck> <!cross>");
    assert_eq!(r.profiles().collect::<Vec<_>>(), vec![vec![dis("nocheck")], vec![dis("cross")]]);
}

#[test]
fn add_profile_to_parsed_relation() {
    let entry: Entry = "samba [amd64] <!nocheck> | other".parse().unwrap();
    let mut r = entry.get_relation(0).unwrap();
    r.add_profile(&[dis("cross")]);
    assert_eq!(entry.to_string(), "samba [amd64] <!nocheck> <!cross> | other");
}

#[test]
fn builder_and_lossy_conversion_keep_all_lists() {
    let r = Relation::build("a")
        .profiles(vec![vec![dis("x")], vec![dis("y")]])
        .build();
    assert_eq!(r.to_string(), "a <!x> <!y>");
    let lossy: debian_control::lossy::Relation = "foo (>= 1.0) [i386 arm] <!nocheck> <!cross>".parse().unwrap();
    let lossless: Relation = lossy.clone().into();
    assert_eq!(lossless.to_string(), "foo (>= 1.0) [i386 arm] <!nocheck> <!cross>");
    let back: debian_control::lossy::Relation = lossless.into();
    assert_eq!(back, lossy);
}
