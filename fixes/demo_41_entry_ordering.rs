// demonstration for fix 96a742e (C13): on the unrepaired tree cmp(a, a|b) = Equal, cmp(a, a|b|c) = Less and
// wrap_and_sort("a | b | c, a | b, a") returns its input; run as a bin depending on debian-control
use debian_control::lossless::relations::{Relations, Entry};
fn main() {
    let a: Entry = "a".parse().unwrap();
    let ab: Entry = "a | b".parse().unwrap();
    println!("cmp(a, a|b) = {:?}; cmp(a|b, a) = {:?}; eq = {}", a.cmp(&ab), ab.cmp(&a), a == ab);
    for t in ["a | b, a", "a, a | b", "a | b | c, a | b, a", "a, a | b | c"] {
        let r: Relations = t.parse().unwrap();
        println!("{:?} -> {:?}", t, r.wrap_and_sort().to_string());
    }
    let abc: Entry = "a | b | c".parse().unwrap();
    println!("cmp(a, a|b|c) = {:?}; cmp(a|b|c, a) = {:?}", a.cmp(&abc), abc.cmp(&a));
}
