"""C18 - typed field values round-trip through their text form.

For every value codec (type with FromStr + Display/ToString in the anchored files, plus the
function pairs Vcs::{to_field,from_field} and {format,parse}_origin) the printer and the parser
are abstractly interpreted back to back over symbolic values (enumerations exhaustively; records
with one opaque atom per field, Option fields both ways): parse(print(v)) must be exactly {Ok(v)},
and pure enumerations must map an unknown keyword to Err only."""
import facts, hirai, symstr, roundtrip
from roundtrip import show_value, normalize
from hirai import OK, RET, PANIC, OKV, ERRV, SOME, NONE, some, none, unk
from report import Check

ANCHOR_PREFIXES = (
    "debian_control::fields::", "debian_control::relations::", "debian_control::vcs::", "debian_control::lossless::changes::File",
    "dep3::fields::", "debian_copyright::License", "apt_sources::RepositoryType", "apt_sources::YesNoForce", "apt_sources::signature::Signature",
)
# free-text codecs whose agreement is not decidable in the symbolic string domain (regex / slicing)
# handled by its own clause (check_parsedvcs_roundtrip: regex matching and byte slicing over symbolic strings)
UNDECIDED = {"debian_control::vcs::ParsedVcs": "decided separately by C18/parsedvcs-* (rules/vcsmodel.py, rules/symregex.py)"}
FLOOR_TYPES = 19
FLOOR_ROUNDTRIPS = 61

OVERRIDES = {
    # licence text / key blocks are multi-line free text, names are single words
    ("alloc::string::String", "text1"): [symstr.atom("text", "text")],
    ("alloc::string::String", "named1"): [symstr.atom("text", "text")],
    ("alloc::string::String", "keyblock0"): [symstr.atom("keyblock", "text")],
}


def has_unk(v):
    if not isinstance(v, tuple):
        return False
    if v and v[0] == "unk":
        return True
    if v and v[0] == "enum" and v[1] == ERRV:
        return False   # error payloads are not compared
    return any(has_unk(x) for x in v if isinstance(x, tuple))


def run(tier):
    F = facts.Facts()
    C = Check("C18", "other", tier, "symbolic print/parse round trip by abstract interpretation of each Display/FromStr pair (static; exhaustive over enumerations)",
              ["rustc HIR/typeck", "hirai + symbolic string domain (atoms = valid component strings distinct from keywords)"])
    mod = roundtrip.RTMod(F)
    types = [t for t in sorted(mod.fromstr_impls) if t.startswith(ANCHOR_PREFIXES) and roundtrip.printer_of(mod, t) and t in F.adts]
    C.floor("C18/types", len(types), FLOOR_TYPES, "value types with a parser and a printer")
    decided = 0
    for t in types:
        C.note("types", t)
        if t in UNDECIDED:
            C.note("undecided", "%s: %s" % (t, UNDECIDED[t]))
            continue
        vals = roundtrip.gen_values(F, t, overrides=OVERRIDES)
        adt = F.adts[t]
        # free-text payloads may be empty: add each multi-field variant once more with its LAST string payload empty
        extra = []
        for v in vals:
            if v[0] == "enum" and len(v[2]) >= 2 and v[2][-1][0] in ("sstr", "str"):
                extra.append(("enum", v[1], tuple(v[2][:-1]) + (symstr.lit(""),)))
        vals = list(vals) + [e for e in extra if e not in vals]
        # a free-text payload may contain, after other text, the literal marker another variant is recognised by
        # (e.g. "1.2, commit:abc" is not a commit reference): add such payloads
        marks = set()
        for v in vals:
            rs, _ = roundtrip.render_value(F, mod, v)
            for ctl, r in rs:
                r = normalize(r) if ctl == OK else None
                if r and r[0] == "sstr":
                    for pc in r[1]:
                        if pc[0] == "lit" and len(pc[1].strip()) >= 3 and not pc[1].strip().isspace():
                            marks.add(pc[1].strip())
        # records with a size / count field: one value beyond 32 bits
        if adt["kind"] == "Struct":
            for v in list(vals):
                if v[0] == "struct":
                    flds = list(v[2])
                    for i, (fn_, fv) in enumerate(flds):
                        ps_ = symstr.pieces_of(fv) if isinstance(fv, tuple) and fv and fv[0] in ("sstr", "str") else None
                        if ps_ and len(ps_) == 1 and ps_[0][0] == "atom" and ps_[0][2] == "int":
                            big = list(flds)
                            big[i] = (fn_, ("int", 6012954214))
                            vals.append(("struct", v[1], tuple(big)))
                    break
        extra2 = []
        for v in vals:
            if v[0] == "enum" and len(v[2]) == 1 and v[2][0][0] in ("sstr", "str") and len(symstr.pieces_of(v[2][0]) or ()) == 1 and symstr.pieces_of(v[2][0])[0][0] == "atom":
                for mk_ in sorted(marks)[:3]:
                    extra2.append(("enum", v[1], (symstr.mk([("atom", "pre", "word"), ("lit", ", " + mk_), ("atom", "post", "word")]),)))
        vals = vals + [e for e in extra2 if e not in vals]
        pure_enum = adt["kind"] == "Enum" and all(not v["fields"] for v in adt["variants"])
        for v in vals:
            name = "%s :: %s" % (t, show_value(v))
            renders, I1 = roundtrip.render_value(F, mod, v)
            okr = [normalize(r) for ctl, r in renders if ctl == OK]
            if len(renders) != 1 or len(okr) != 1 or has_unk(okr[0]) or okr[0][0] != "sstr":
                C.note("undecided", name + " (printer not decidable: %s)" % [str(r)[:80] for _, r in renders])
                C.ob("C18/decidable", name, False, "the printer of this value is no longer decidable (unmodelled operation in Display: %s); every codec outside the listed free-text ones was decidable when the check was built" % [str(r)[:80] for _, r in renders],
                     F.fns[mod.fromstr_impls[t]]["sp"])
                continue
            text = okr[0]
            parses, I2 = roundtrip.parse_value(F, mod, t, text)
            outs = set()
            und = False
            for ctl, r in parses:
                if ctl != OK:
                    outs.add(("ctl", ctl, str(r)[:80]))
                    continue
                if has_unk(r):
                    und = True
                if r[0] == "enum" and r[1] == ERRV:
                    r = ("enum", ERRV, ())
                outs.add(normalize(r))
            want = {normalize(("enum", OKV, (v,)))}
            if und and outs != want:
                # undecidable outcome (unsupported operation) - do not guess
                C.note("undecided", name + " (parser not decidable)")
                C.ob("C18/decidable", name, False, "parsing the printed text %s is no longer decidable (unmodelled operation in FromStr; outcomes %s)" % (show_value(text), sorted(show_value(o)[:60] for o in outs)),
                     F.fns[mod.fromstr_impls[t]]["sp"])
                continue
            decided += 1
            C.ob("C18/parse-print", name, outs == want,
                 "prints as %s; parsing that yields %s, expected exactly Ok(original value)" % (show_value(text), sorted(show_value(o) for o in outs)),
                 F.fns[mod.fromstr_impls[t]]["sp"])
            C.sample({"type": t, "value": show_value(v), "text": symstr.show(text), "parsed": sorted(show_value(o) for o in outs)})
        if adt["kind"] == "Struct":
            # a record holding an enumeration field must reject a text whose keyword position holds something else
            kw_of = {}
            for fld in adt["variants"][0]["fields"]:
                t2 = fld["ty"]
                a2 = F.adts.get(t2)
                if a2 and a2["kind"] == "Enum" and all(not x["fields"] for x in a2["variants"]) and t2 in mod.fromstr_impls:
                    for v2 in roundtrip.gen_values(F, t2, overrides=OVERRIDES):
                        rs, _ = roundtrip.render_value(F, mod, v2)
                        for ctl, r in rs:
                            if ctl == OK and normalize(r)[0] == "sstr" and symstr.is_concrete(normalize(r)[1]):
                                kw_of[symstr.concrete(normalize(r)[1])] = fld["name"]
            if kw_of and vals:
                renders, _ = roundtrip.render_value(F, mod, vals[0])
                okr = [normalize(r) for ctl, r in renders if ctl == OK]
                toks = symstr.tokens_ws(okr[0][1]) if len(okr) == 1 and okr[0][0] == "sstr" else None
                for i, tk in enumerate(toks or []):
                    if symstr.is_concrete(tk) and symstr.concrete(tk) in kw_of:
                        for repl in (symstr.lit("-"), symstr.atom("unknown-keyword")):
                            ps = []
                            for j, x in enumerate(toks):
                                if j:
                                    ps.append(("lit", " "))
                                ps.extend(symstr.pieces_of(repl) if j == i else x)
                            parses, _ = roundtrip.parse_value(F, mod, t, symstr.mk(ps))
                            bad = [r for ctl, r in parses if not (ctl == OK and r[0] == "enum" and r[1] == ERRV)]
                            C.ob("C18/record-rejects-unknown-keyword", "%s.%s <- %s" % (t, kw_of[symstr.concrete(tk)], symstr.show(repl)), not bad and parses,
                                 "%r, whose %s is not a keyword of its type, parses to %s" % (symstr.show(symstr.mk(ps)), kw_of[symstr.concrete(tk)], [show_value(b)[:120] for b in bad]), F.fns[mod.fromstr_impls[t]]["sp"])
        if pure_enum:
            parses, _ = roundtrip.parse_value(F, mod, t, symstr.atom("unknown-keyword"))
            bad = [r for ctl, r in parses if not (ctl == OK and r[0] == "enum" and r[1] == ERRV)]
            C.ob("C18/reject-unknown", t, not bad and parses,
                 "an unknown keyword is mapped to %s instead of an error" % [show_value(b) for b in bad], F.fns[mod.fromstr_impls[t]]["sp"])
            # near misses: proper prefixes / suffixes of keywords and keywords with junk attached are outside the set
            kws = set()
            for v in vals:
                rs, _ = roundtrip.render_value(F, mod, v)
                for ctl, r in rs:
                    if ctl == OK and normalize(r)[0] == "sstr" and symstr.is_concrete(normalize(r)[1]):
                        kws.add(symstr.concrete(normalize(r)[1]))
            cands = set()
            for kw in kws:
                for i in range(1, len(kw)):
                    cands.add(kw[:i])
                    cands.add(kw[i:])
                cands.add(kw + "x")
                cands.add("x" + kw)
                cands.add(kw + " ")
            cands -= kws
            cands -= {c for c in cands if c.lower() in {k.lower() for k in kws}}
            for cand in sorted(cands):
                parses, _ = roundtrip.parse_value(F, mod, t, symstr.lit(cand))
                bad = [r for ctl, r in parses if not (ctl == OK and r[0] == "enum" and r[1] == ERRV)]
                C.ob("C18/reject-near-miss", "%s :: %r" % (t, cand), not bad and parses, "%r is not a keyword of the type but parses to %s" % (cand, [show_value(b) for b in bad]), F.fns[mod.fromstr_impls[t]]["sp"])
            # distinct variants print distinct keywords (bijection)
            texts = {}
            for v in vals:
                rs, _ = roundtrip.render_value(F, mod, v)
                for ctl, r in rs:
                    texts.setdefault(symstr.show(r), []).append(show_value(v))
            dup = {k: x for k, x in texts.items() if len(x) > 1}
            C.ob("C18/injective", t, not dup, "two variants print the same text: %s" % dup)
    C.floor("C18/roundtrips", decided, FLOOR_ROUNDTRIPS, "decided print/parse round trips")

    check_vcs_field(F, C, mod)
    check_parsedvcs_printer(F, C, mod)
    check_parsedvcs_roundtrip(F, C)
    check_origin(F, C, mod)
    C.extra["undecided_listed"] = C.analysed.get("undecided", [])
    C.assumptions += ["component atoms are valid values: non-empty, free of whitespace/syntax characters, different from every keyword and prefix",
                      "ParsedVcs: the regex crate implements leftmost-first matching of the pattern literal (rules/symregex.py re-implements that semantics for the pattern syntax used); parse_identity: free-text codec, not decided"]
    return C.finish("Each value codec's Display/ToString and FromStr bodies are interpreted over symbolic values "
                    "(literal pieces + opaque atoms); every enumeration variant and every Option-field combination of every record is "
                    "printed and parsed back; the parse result set must be exactly {Ok(v)}. Unknown keywords must yield Err for pure enumerations.")


def check_parsedvcs_printer(F, C, mod):
    """ParsedVcs: the reader (regex + slicing) is not decided, but the printer is: it must write the location
    verbatim, then ' -b <branch>', then ' [<subpath>]' for the parts that are present"""
    t = "debian_control::vcs::ParsedVcs"
    if not C.ob("C18/anchor", t + " Display", roundtrip.printer_of(mod, t) is not None, "printer not found"):
        return
    url = symstr.atom("location", "raw")
    for has_b in (False, True):
        for has_s in (False, True):
            v = ("struct", t, (("repo_url", url), ("branch", some(symstr.atom("branch", "word")) if has_b else none()), ("subpath", some(symstr.atom("subpath", "word")) if has_s else none())))
            renders, _ = roundtrip.render_value(F, mod, v)
            got = [symstr.show(r) for ctl, r in renders if ctl == OK]
            want = "<location>" + (" -b <branch>" if has_b else "") + (" [<subpath>]" if has_s else "")
            C.ob("C18/parsedvcs-print", "branch %s, subpath %s" % ("present" if has_b else "absent", "present" if has_s else "absent"), len(renders) == 1 and got == [want],
                 "prints %s, expected %r (the location text unchanged)" % (got, want), F.fn(roundtrip.printer_of(mod, t))["sp"] if F.fn(roundtrip.printer_of(mod, t)) else "")


def check_parsedvcs_roundtrip(F, C):
    """ParsedVcs reader and printer back to back.  The reader's regex search, match offsets, byte slicing, find and
    split_at are interpreted over symbolic strings (rules/vcsmodel.py): locations are whitespace-free texts, also ones
    that contain the codec's own marker characters without the blanks that make them markers ('<a>[<x>]', '<a>-b<c>');
    every combination of branch and subpath."""
    import vcsmodel
    t = "debian_control::vcs::ParsedVcs"
    old = hirai.INT_BOUND
    hirai.INT_BOUND = 16
    try:
        mod = vcsmodel.VcsMod(F)
        key = mod.fromstr_impls.get(t)
        if not C.ob("C18/anchor", t + " FromStr", key is not None and roundtrip.printer_of(mod, t) is not None, "parser / printer not found"):
            return
        sp = F.fns[key]["sp"]
        A = lambda n, c="word": ("atom", n, c)
        locs = [("<location>", [A("location", "url")]),
                ("<a>[<x>]", [A("a", "url"), ("lit", "["), A("x"), ("lit", "]")]),
                ("<a>-b<c>", [A("a", "url"), ("lit", "-b"), A("c", "url")]),
                ("[<x>]<a>", [("lit", "["), A("x"), ("lit", "]"), A("a", "url")])]
        n = 0
        for lname, lp in locs:
            for has_b in (False, True):
                for has_s in (False, True):
                    v = ("struct", t, (("repo_url", symstr.mk(lp)), ("branch", some(symstr.atom("branch", "word")) if has_b else none()), ("subpath", some(symstr.atom("subpath", "word")) if has_s else none())))
                    name = "location %s, branch %s, subpath %s" % (lname, "present" if has_b else "absent", "present" if has_s else "absent")
                    renders, _ = roundtrip.render_value(F, mod, v)
                    okr = [normalize(r) for ctl, r in renders if ctl == OK]
                    if not C.ob("C18/parsedvcs-decidable", name + " (print)", len(renders) == 1 and len(okr) == 1 and okr[0][0] == "sstr" and not has_unk(okr[0]), "printer outcomes %s" % [str(r)[:80] for _, r in renders], sp):
                        continue
                    text = okr[0]
                    for pad, padded in (("", text), (" padded with blanks", symstr.mk((("lit", "  "),) + tuple(text[1]) + (("lit", " \t"),)))):
                        parses, I2 = roundtrip.parse_value(F, mod, t, padded)
                        outs = set()
                        und = []
                        for ctl, r in parses:
                            if ctl != OK:
                                outs.add(("ctl", ctl, str(r)[:80]))
                                continue
                            if has_unk(r):
                                und.append(r)
                            outs.add(normalize(r))
                        if not C.ob("C18/parsedvcs-decidable", name + pad, not und and not I2.unknown_calls,
                                    "reading %s is not decidable: %s; unmodelled calls %s" % (symstr.show(padded), [show_value(u)[:160] for u in und], dict(I2.unknown_calls)), sp):
                            continue
                        n += 1
                        want = {normalize(("enum", OKV, (v,)))}
                        C.ob("C18/parsedvcs-parse-print", name + pad, outs == want,
                             "prints as %r; reading %r yields %s, expected exactly Ok(the value)" % (symstr.show(text), symstr.show(padded), sorted(show_value(o) for o in outs)), sp)
                        # printing what was read gives the canonical text back
                        for o in outs:
                            if o[0] == "enum" and o[1] == OKV:
                                rs, _ = roundtrip.render_value(F, mod, o[2][0])
                                got = [symstr.show(normalize(r)) for ctl, r in rs if ctl == OK]
                                C.ob("C18/parsedvcs-print-parse", name + pad, got == [symstr.show(text)], "reading %r and printing the result gives %s" % (symstr.show(padded), got), sp)
        C.floor("C18/parsedvcs", n, 32, "ParsedVcs texts read")
    finally:
        hirai.INT_BOUND = old


def check_vcs_field(F, C, mod):
    to_k, from_k = "debian_control::vcs::Vcs::to_field", "debian_control::vcs::Vcs::from_field"
    if not C.ob("C18/anchor", "Vcs::to_field/from_field", F.fn(to_k) and F.fn(from_k), "functions not found"):
        return
    vals = roundtrip.gen_values(F, "debian_control::vcs::Vcs")
    n = 0
    for v in vals:
        name = "Vcs :: " + show_value(v)
        I = hirai.Interp(F, mod)
        st = hirai.State(depth=1)
        st, p = I.newtemp(st, v)
        res = I.inline(F.fn(to_k), [("ref", p)], st)
        if len(res) != 1 or res[0][0] != OK or res[0][1][0] != "tuple" or has_unk(res[0][1]):
            C.note("undecided", name + " (to_field not decidable)")
            continue
        fname, fval = res[0][1][1]
        fval = I.deref_val(res[0][2], fval)
        # Git values go through ParsedVcs (regex): only the field-name table is decided for them
        I2 = hirai.Interp(F, mod)
        outs = I2.inline(F.fn(from_k), [fname, fval], hirai.State(depth=1))
        kinds = set()
        for ctl, r, s in outs:
            if ctl == OK and r[0] == "enum" and r[1] == OKV:
                inner = r[2][0]
                kinds.add(("ok", inner[1] if inner[0] in ("struct", "enum") else "?"))
            elif ctl == OK and r[0] == "enum" and r[1] == ERRV:
                kinds.add(("err",))
            else:
                kinds.add(("?", ctl))
        variant = v[1]
        exact = {normalize(r) for ctl, r, s in outs if ctl == OK}
        if variant.endswith(("::Git", "::Bzr")):
            # value part is parsed by ParsedVcs (undecided); require that the name selects the same variant (or a parse error)
            ok = all(k == ("ok", variant) or k == ("err",) for k in kinds) and ("ok", variant) in kinds
            C.ob("C18/vcs-name-table", name, ok, "to_field names the field %s, from_field maps that name to %s" % (show_value(fname), sorted(kinds)), F.fn(from_k)["sp"])
        else:
            C.ob("C18/vcs-roundtrip", name, exact == {normalize(("enum", OKV, (v,)))},
                 "to_field gives (%s, %s); from_field of that yields %s" % (show_value(fname), show_value(fval), sorted(show_value(x) for x in exact)), F.fn(from_k)["sp"])
        n += 1
    C.floor("C18/vcs", n, 10, "Vcs values through to_field/from_field")
    # unknown field name is an error
    I = hirai.Interp(F, mod)
    outs = I.inline(F.fn(from_k), [symstr.atom("UnknownVcs"), symstr.atom("value")], hirai.State(depth=1))
    bad = [r for ctl, r, s in outs if not (ctl == OK and r[0] == "enum" and r[1] == ERRV)]
    C.ob("C18/vcs-reject-unknown", "from_field(unknown name)", not bad and outs, "unknown VCS name yields %s" % [show_value(b) for b in bad], F.fn(from_k)["sp"])


def check_origin(F, C, mod):
    fk, pk = "dep3::fields::format_origin", "dep3::fields::parse_origin"
    if not C.ob("C18/anchor", "format_origin/parse_origin", F.fn(fk) and F.fn(pk), "functions not found"):
        return
    cats = [none()] + [some(x) for x in roundtrip.gen_values(F, "dep3::fields::OriginCategory")]
    origins = roundtrip.gen_values(F, "dep3::fields::Origin")
    # free text may itself contain ", " (the category separator)
    origins.append(("enum", "dep3::fields::Origin::Other", (symstr.mk([("atom", "text1", "word"), ("lit", ", "), ("atom", "text2", "word")]),)))
    origins.append(("enum", "dep3::fields::Origin::Commit", (symstr.mk([("atom", "id1", "word"), ("lit", ", "), ("atom", "id2", "word")]),)))
    n = 0
    for c in cats:
        for o in origins:
            name = "origin :: (%s, %s)" % (show_value(c), show_value(o))
            I = hirai.Interp(F, mod)
            st = hirai.State(depth=1)
            st, pc = I.newtemp(st, c)
            st, po = I.newtemp(st, ("tuple", (o,)))
            res = I.inline(F.fn(fk), [("ref", pc), ("ref", po + ("0",))], st)
            texts = [normalize(r) for ctl, r, s in res if ctl == OK]
            if len(res) != 1 or len(texts) != 1 or texts[0][0] != "sstr":
                C.note("undecided", name + " (format_origin not decidable: %s)" % [str(r)[:60] for _, r, _ in res])
                continue
            I2 = hirai.Interp(F, mod)
            outs = I2.inline(F.fn(pk), [texts[0]], hirai.State(depth=1))
            got = {normalize(r) for ctl, r, s in outs if ctl == OK}
            want = {normalize(("tuple", (c, o)))}
            C.ob("C18/origin-roundtrip", name, got == want and len(outs) == len(got),
                 "format_origin gives %s; parse_origin of that yields %s" % (show_value(texts[0]), sorted(show_value(x) for x in got)), F.fn(pk)["sp"])
            n += 1
    C.floor("C18/origin", n, 20, "origin (category, value) combinations")
