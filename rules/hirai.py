"""hirai: a finite-domain abstract interpreter over the HIR dump (no code of /repo is executed).

Big-step, set-valued: eval(node, state) returns every possible (control, value, state') under the
abstract semantics.  Values are nested tuples (hashable).  Loops are solved by a worklist fixpoint
over frozen states, so the exploration is exhaustive over (program point, finite store).

Value forms
  ('unit',) ('bool',b) ('int',n|'big') ('char',c) ('str',s) ('unk',tag)
  ('enum', variant_path, payload_tuple)      e.g. Option::Some(x), SyntaxKind::KEY
  ('tuple', items) ('struct', path, ((name,val),...)) ('ref', place) ('closure', node_id, depth)
  ('abs', kind, payload)                      abstract objects owned by property modules
Places: (root, field, field, ...), root = ('L', depth, local_id) | ('T', n)
"""
import itertools

OK, BRK, CONT, RET, PANIC = "ok", "break", "continue", "return", "panic"
UNIT = ("unit",)
TRUE = ("bool", True)
FALSE = ("bool", False)
INT_BOUND = 2

SOME = "core::option::Option::Some"
NONE = "core::option::Option::None"
OKV = "core::result::Result::Ok"
ERRV = "core::result::Result::Err"


def unk(tag="?"):
    return ("unk", tag)


def some(v):
    return ("enum", SOME, (v,))


def none():
    return ("enum", NONE, ())


def mkint(n):
    if isinstance(n, int) and n > INT_BOUND:
        return ("int", "big")
    return ("int", n)


def is_unk(v):
    return v[0] == "unk"


def _pieces(v):
    if v[0] in ("str", "char"):
        return (("lit", v[1]),) if v[1] != "" else ()
    return v[1]


def str_equal(a, b):
    """equality on literal / symbolic strings: True, False or None (unknown).
    An atom (opaque valid component) never equals a literal keyword."""
    pa, pb = _pieces(a), _pieces(b)
    ca = all(x[0] == "lit" for x in pa)
    cb = all(x[0] == "lit" for x in pb)
    if ca and cb:
        return "".join(x[1] for x in pa) == "".join(x[1] for x in pb)
    if pa == pb:
        return True
    if ca or cb:
        return False
    return None


class State:
    __slots__ = ("store", "mon", "depth", "_frozen")

    def __init__(self, store=None, mon=None, depth=0):
        self.store = store if store is not None else {}
        self.mon = mon if mon is not None else {}
        self.depth = depth
        self._frozen = None

    def copy(self):
        return State(dict(self.store), dict(self.mon), self.depth)

    def freeze(self):
        if self._frozen is None:
            self._frozen = (tuple(sorted(self.store.items(), key=lambda kv: repr(kv[0]))),
                            tuple(sorted(self.mon.items(), key=lambda kv: repr(kv[0]))), self.depth)
        return self._frozen

    def setroot(self, root, v):
        s = self.copy()
        s.store[root] = v
        return s

    def setmon(self, k, v):
        s = self.copy()
        s.mon[k] = v
        return s


class Violation(Exception):
    pass


class Interp:
    def __init__(self, facts, module=None, max_depth=12):
        self.facts = facts
        self.module = module
        self.max_depth = max_depth
        self.closures = {}
        self._fn_bodies = set()
        self.tmp = 0
        self.unknown_calls = {}
        self.events = []          # (rule, instance, ok, detail, loc) reported by intrinsics/monitors
        self.steps = 0
        self.states_seen = 0
        self.callstack = []
        self.loop_states = {}
        self.memo = {}
        self.max_recursion = 0
        self._block_memo = {}
        self._bound_cache = {}

    # ------------------------------------------------------------------ places
    def read(self, st, place):
        root = place[0]
        v = st.store.get(root, unk("uninit"))
        for f in place[1:]:
            v = self.project(st, v, f)
        return v

    def project(self, st, v, f):
        while v[0] == "ref":
            v = self.read(st, v[1])
        if v[0] == "struct":
            for n, x in v[2]:
                if n == f:
                    return x
            return unk("nofield:" + str(f))
        if v[0] == "tuple":
            try:
                return v[1][int(f)]
            except Exception:
                return unk("tupidx")
        if v[0] == "enum" and v[2]:
            try:
                return v[2][int(f)]
            except Exception:
                return unk("enumidx")
        if v[0] == "abs" and self.module is not None and hasattr(self.module, "abs_field"):
            return self.module.abs_field(self, st, v, f)
        return unk("proj")

    def write(self, st, place, val):
        # resolve through references at the root
        root = place[0]
        if len(place) == 1:
            cur = st.store.get(root)
            if cur is not None and cur[0] == "ref" and val[0] != "ref" and False:
                return self.write(st, cur[1], val)
            return st.setroot(root, val)
        base = st.store.get(root, unk("uninit"))
        # follow refs
        if base[0] == "ref":
            return self.write(st, base[1] + tuple(place[1:]), val)
        newbase = self._upd(st, base, place[1:], val)
        if isinstance(newbase, tuple) and newbase and newbase[0] == "__redirect__":
            return self.write(st, newbase[1], val)
        return st.setroot(root, newbase)

    def _upd(self, st, v, path, val):
        if not path:
            return val
        f = path[0]
        if v[0] == "ref":
            return ("__redirect__", v[1] + tuple(path))
        if v[0] == "struct":
            out = []
            found = False
            for n, x in v[2]:
                if n == f:
                    nx = self._upd(st, x, path[1:], val)
                    if isinstance(nx, tuple) and nx and nx[0] == "__redirect__":
                        return nx
                    out.append((n, nx))
                    found = True
                else:
                    out.append((n, x))
            if not found:
                out.append((f, self._upd(st, unk("newfield"), path[1:], val)))
            return ("struct", v[1], tuple(out))
        if v[0] == "tuple":
            items = list(v[1])
            i = int(f)
            nx = self._upd(st, items[i], path[1:], val)
            if isinstance(nx, tuple) and nx and nx[0] == "__redirect__":
                return nx
            items[i] = nx
            return ("tuple", tuple(items))
        if v[0] == "enum" and str(f).isdigit() and int(f) < len(v[2]):     # tuple struct / tuple variant field
            items = list(v[2])
            nx = self._upd(st, items[int(f)], path[1:], val)
            if isinstance(nx, tuple) and nx and nx[0] == "__redirect__":
                return nx
            items[int(f)] = nx
            return ("enum", v[1], tuple(items))
        return v  # write into unknown: stays unknown

    def deref_place(self, st, v):
        """value -> place it refers to (for refs) or a fresh temp holding it"""
        if v[0] == "ref":
            return st, v[1]
        self.tmp += 1
        root = ("T", self.tmp)
        return st.setroot(root, v), (root,)

    def newtemp(self, st, v):
        # temps are keyed structurally so that fixpoints converge
        root = ("T", hash(v) & 0xFFFFFF)
        return st.setroot(root, v), (root,)

    # ------------------------------------------------------------------ helpers
    def ev(self, rule, instance, ok, detail="", loc=""):
        self.events.append((rule, instance, ok, detail, loc))

    def local_root(self, st, lid):
        return ("L", st.depth, lid)

    # ------------------------------------------------------------------ scope cleanup
    def bound_ids(self, n):
        """ids of all bindings introduced anywhere inside node n (cached)"""
        c = self._bound_cache.get(id(n))
        if c is None:
            ids = set()
            stack = [n]
            while stack:
                x = stack.pop()
                if isinstance(x, dict):
                    if x.get("p") == "Bind":
                        ids.add(x["id"])
                    if x.get("k") == "Closure":
                        continue
                    stack.extend(v for v in x.values() if isinstance(v, (dict, list)))
                elif isinstance(x, list):
                    stack.extend(x)
            c = frozenset(ids)
            self._bound_cache[id(n)] = c
        return c

    def drop_locals(self, st, ids):
        if not ids:
            return st
        keys = [("L", st.depth, i) for i in ids if ("L", st.depth, i) in st.store]
        if not keys:
            return st
        s = st.copy()
        for k in keys:
            del s.store[k]
        return s

    def scoped(self, results, ids, also=()):
        """drop bindings `ids` from normally completing outcomes"""
        if not ids:
            return results
        return [(ctl, v, self.drop_locals(s, ids) if ctl == OK else s) for ctl, v, s in results]

    # ------------------------------------------------------------------ expression evaluation
    def eval(self, n, st):
        """returns list of (ctl, val, st)"""
        self.steps += 1
        if self.steps > 5_000_000:
            raise Violation("interpreter step budget exceeded")
        k = n["k"]
        m = getattr(self, "e_" + k, None)
        if m is None:
            return [(OK, unk("expr:" + k), st)]
        return m(n, st)

    def seq(self, nodes, st, f):
        """evaluate nodes left to right; f(vals, st) -> list of results"""
        def go(i, vals, st):
            if i == len(nodes):
                return f(vals, st)
            out = []
            rs = self.eval(nodes[i], st)
            if len(rs) > 1:
                rs = self.dedupe(rs)
            for ctl, v, s in rs:
                if ctl != OK:
                    out.append((ctl, v, s))
                else:
                    out.extend(go(i + 1, vals + [v], s))
            return out
        return go(0, [], st)

    def then(self, results, f):
        out = []
        if len(results) > 1:
            results = self.dedupe(results)
        for ctl, v, s in results:
            if ctl != OK:
                out.append((ctl, v, s))
            else:
                out.extend(f(v, s))
        return out

    def e_Lit(self, n, st):
        t = n["t"]
        if t == "str":
            return [(OK, ("str", n["v"]), st)]
        if t == "char":
            return [(OK, ("char", n["v"]), st)]
        if t == "int":
            return [(OK, mkint(n["v"]), st)]
        if t == "bool":
            return [(OK, ("bool", n["v"]), st)]
        return [(OK, unk("lit"), st)]

    def e_Path(self, n, st):
        r = n["res"]
        if r["k"] == "Local":
            return [(OK, self.read(st, (self.local_root(st, r["id"]),)), st)]
        if r["k"] == "Def":
            dk = r.get("dk", "").split(" ")[0]          # "Const { is_type_const: false }" -> "Const"
            if dk.startswith("Ctor") or dk == "Variant":
                return [(OK, ("enum", r["def"], ()), st)]
            if dk in ("Fn", "AssocFn"):
                # the item's fn type is kept: a generic function used as a value (`.map(str::parse::<T>)`) is called later
                # from a node whose own type says nothing about T
                return [(OK, ("fnref", n.get("inst") or r["def"], n.get("ty", "")), st)]
            if dk in ("Const", "AssocConst", "Static"):
                if self.module is not None and hasattr(self.module, "const_value"):
                    v = self.module.const_value(self, r["def"])
                    if v is not None:
                        return [(OK, v, st)]
                # a workspace constant: its initialiser is a body of its own (literals, constructor calls, other constants)
                cf = self.facts.fns.get(r["def"]) if hasattr(self.facts, "fns") else None
                if cf is not None and "body" in cf and str(cf.get("dk", "")).startswith(("Const", "AssocConst")) and len(self.callstack) < self.max_depth:
                    try:
                        res = self.eval(cf["body"], State(st.store, st.mon, st.depth + 1))
                    except Violation:
                        res = []
                    if len(res) == 1 and res[0][0] == OK and not is_unk(res[0][1]) and res[0][1][0] != "ref":
                        return [(OK, res[0][1], st)]
                return [(OK, unk("const:" + r["def"]), st)]
        return [(OK, unk("path"), st)]

    def place_of(self, n, st):
        """evaluate a place expression: returns list of (ctl, place|None, st). None => not a place"""
        k = n["k"]
        if k == "Path" and n["res"]["k"] == "Local":
            return [(OK, (self.local_root(st, n["res"]["id"]),), st)]
        if k == "Field":
            out = []
            for ctl, p, s in self.place_of(n["e"], st):
                if ctl != OK:
                    out.append((ctl, p, s))
                    continue
                if p is None:
                    # base is not a place expression: if it evaluates to a reference, project through it
                    if n["e"]["k"] in ("MCall", "Call"):
                        for c2, v2, s2 in self.eval(n["e"], s):
                            if c2 != OK:
                                out.append((c2, v2, s2))
                            elif v2[0] == "ref":
                                out.append((OK, v2[1] + (n["name"],), s2))
                            else:
                                out.append((OK, ("__val__", self.project(s2, v2, n["name"])), s2))
                        continue
                    out.append((OK, None, s))
                    continue
                if p and p[0] == "__val__":
                    out.append((OK, ("__val__", self.project(s, p[1], n["name"])), s))
                    continue
                # auto-deref through references
                v = self.read(s, p)
                while v[0] == "ref":
                    p = v[1]
                    v = self.read(s, p)
                out.append((OK, p + (n["name"],), s))
            return out
        if k == "Unary" and n.get("op") == "*" and "def" not in n:
            out = []
            for ctl, v, s in self.eval(n["e"], st):
                if ctl != OK:
                    out.append((ctl, v, s))
                elif v[0] == "ref":
                    out.append((OK, v[1], s))
                else:
                    out.append((OK, None, s))
            return out
        if k in ("AddrOf",) :
            return [(OK, None, st)]
        if k == "Use" or k == "Type":
            return self.place_of(n["e"], st)
        return [(OK, None, st)]

    def e_Field(self, n, st):
        out = []
        for ctl, p, s in self.place_of(n, st):
            if ctl != OK:
                out.append((ctl, p, s))
            elif p is not None and p[0] == "__val__":
                out.append((OK, p[1], s))
            elif p is not None:
                out.append((OK, self.read(s, p), s))
            else:
                for c2, v, s2 in self.eval(n["e"], s):
                    if c2 != OK:
                        out.append((c2, v, s2))
                    else:
                        out.append((OK, self.project(s2, v, n["name"]), s2))
        return out

    def e_AddrOf(self, n, st):
        out = []
        for ctl, p, s in self.place_of(n["e"], st):
            if ctl != OK:
                out.append((ctl, p, s))
            elif p is not None and p[0] == "__val__":
                v = p[1]
                if v[0] in ("str", "sstr", "abs", "unk", "ref", "fnref", "closure"):
                    out.append((OK, v, s))
                else:
                    s3, p3 = self.newtemp(s, v)
                    out.append((OK, ("ref", p3), s3))
            elif p is not None:
                out.append((OK, ("ref", p), s))
            else:
                for c2, v, s2 in self.eval(n["e"], s):
                    if c2 != OK:
                        out.append((c2, v, s2))
                    elif v[0] in ("str", "abs", "unk", "ref", "fnref", "closure"):
                        out.append((OK, v, s2))  # references to immutable data: transparent
                    else:
                        s3, p3 = self.newtemp(s2, v)
                        out.append((OK, ("ref", p3), s3))
        return out

    def e_Use(self, n, st):
        return self.eval(n["e"], st)

    def e_Type(self, n, st):
        return self.eval(n["e"], st)

    def e_Cast(self, n, st):
        return self.eval(n["e"], st)

    def e_Tup(self, n, st):
        if not n["es"]:
            return [(OK, UNIT, st)]
        return self.seq(n["es"], st, lambda vals, s: [(OK, ("tuple", tuple(vals)), s)])

    def e_Array(self, n, st):
        return self.seq(n["es"], st, lambda vals, s: [(OK, ("tuple", tuple(vals)), s)])

    def e_Struct(self, n, st):
        names = [f["name"] for f in n["fields"]]
        path = n["path"].get("def", "?")

        def fin(vals, s):
            if "base" in n:
                return self.then(self.eval(n["base"], s), lambda b, s2: [(OK, self._struct_with_base(path, names, vals, b), s2)])
            return [(OK, ("struct", path, tuple(zip(names, vals))), s)]
        return self.seq([f["e"] for f in n["fields"]], st, fin)

    def _struct_with_base(self, path, names, vals, b):
        d = dict(b[2]) if b[0] == "struct" else {}
        d.update(zip(names, vals))
        return ("struct", path, tuple(d.items()))

    def e_Block(self, n, st):
        bmemo = self._block_memo

        def run(i, st):
            try:
                mk = (id(n), i, st.freeze())
            except TypeError:
                return run_(i, st)
            hit = bmemo.get(mk)
            if hit is None:
                hit = run_(i, st)
                if len(hit) > 1:
                    hit = self.dedupe(hit)
                bmemo[mk] = hit
            return hit

        def run_(i, st):
            stmts = n.get("stmts", [])
            if i == len(stmts):
                if "expr" in n:
                    return self.eval(n["expr"], st)
                return [(OK, UNIT, st)]
            s = stmts[i]
            out = []
            if s["k"] == "LetStmt":
                if "init" in s:
                    res = self.eval(s["init"], st)
                else:
                    res = [(OK, unk("uninit"), st)]
                for ctl, v, s2 in res:
                    if ctl != OK:
                        out.append((ctl, v, s2))
                        continue
                    matched = self.match(s["pat"], v, s2)
                    for ok, s3 in matched:
                        if ok:
                            out.extend(run(i + 1, s3))
                        elif "els" in s:
                            out.extend(self.eval(s["els"], s3))
                        # irrefutable otherwise
            else:
                for ctl, v, s2 in self.eval(s["e"], st):
                    if ctl != OK:
                        out.append((ctl, v, s2))
                    else:
                        out.extend(run(i + 1, self.gc(s2)))
            return out
        res = run(0, st)
        lets = [x["pat"] for x in n.get("stmts", []) if x["k"] == "LetStmt"]
        if lets and id(n) not in self._fn_bodies:      # a function's outermost block is cleaned up by _inline (after on_return hooks ran)
            ids = set()
            for p in lets:
                ids |= self.bound_ids(p)
            res = self.scoped(res, ids)
        if "label" in n or True:
            # labelled block: break targeting this block yields its value
            out = []
            for ctl, v, s in res:
                if ctl == BRK and isinstance(v, tuple) and v and v[0] == "__brk__" and v[1] == n.get("id"):
                    out.append((OK, v[2], s))
                else:
                    out.append((ctl, v, s))
            return out
        return res

    def e_If(self, n, st):
        out = []
        ids = self.bound_ids(n["c"])
        for ctl, c, s in self.eval_cond(n["c"], st):
            if ctl != OK:
                out.append((ctl, c, s))
                continue
            if c:
                out.extend(self.scoped(self.eval(n["t"], s), ids))
            elif "f" in n:
                out.extend(self.eval(n["f"], self.drop_locals(s, ids)))
            else:
                out.append((OK, UNIT, self.drop_locals(s, ids)))
        return out

    def eval_cond(self, n, st):
        """evaluate a condition (possibly containing `let` and &&): list of (ctl, bool, st)"""
        k = n["k"]
        if k == "Let":
            out = []
            for ctl, v, s in self.eval(n["init"], st):
                if ctl != OK:
                    out.append((ctl, v, s))
                    continue
                for ok, s2 in self.match(n["pat"], v, s):
                    out.append((OK, ok, s2))
            return out
        if k == "Binary" and n["op"] == "&&" and "def" not in n:
            out = []
            for ctl, c, s in self.eval_cond(n["l"], st):
                if ctl != OK:
                    out.append((ctl, c, s))
                elif not c:
                    out.append((OK, False, s))
                else:
                    out.extend(self.eval_cond(n["r"], s))
            return out
        if k == "Binary" and n["op"] == "||" and "def" not in n:
            out = []
            for ctl, c, s in self.eval_cond(n["l"], st):
                if ctl != OK:
                    out.append((ctl, c, s))
                elif c:
                    out.append((OK, True, s))
                else:
                    out.extend(self.eval_cond(n["r"], s))
            return out
        if k == "Unary" and n["op"] == "!" and "def" not in n:
            return [(ctl, (not c) if ctl == OK else c, s) for ctl, c, s in self.eval_cond(n["e"], st)]
        out = []
        for ctl, v, s in self.eval(n, st):
            if ctl != OK:
                out.append((ctl, v, s))
            elif v[0] == "bool":
                out.append((OK, v[1], s))
            else:
                out.extend(self.fork_bool(n, v, s))
        return out

    def fork_bool(self, n, v, s):
        if self.module is not None and hasattr(self.module, "fork_bool"):
            r = self.module.fork_bool(self, n, v, s)
            if r is not None:
                return r
        return [(OK, True, s), (OK, False, s)]

    def e_Let(self, n, st):
        return [(ctl, ("bool", c) if ctl == OK else c, s) for ctl, c, s in self.eval_cond(n, st)]

    def e_Match(self, n, st):
        out = []
        for ctl, v, s in self.eval(n["e"], st):
            if ctl != OK:
                out.append((ctl, v, s))
                continue
            out.extend(self.match_arms(n, v, s, 0))
        return out

    def match_arms(self, n, v, st, i):
        arms = n["arms"]
        if i >= len(arms):
            return []  # exhaustive by construction
        arm = arms[i]
        out = []
        for ok, s2 in self.match(arm["pat"], v, st):
            if not ok:
                out.extend(self.match_arms(n, v, s2, i + 1))
                continue
            ids = self.bound_ids(arm["pat"])
            if "guard" in arm:
                for ctl, c, s3 in self.eval_cond(arm["guard"], s2):
                    if ctl != OK:
                        out.append((ctl, c, s3))
                    elif c:
                        out.extend(self.scoped(self.eval(arm["body"], s3), ids))
                    else:
                        out.extend(self.match_arms(n, v, self.drop_locals(s3, ids), i + 1))
            else:
                out.extend(self.scoped(self.eval(arm["body"], s2), ids))
        return out

    # ---- pattern matching: returns list of (matched: bool, state)
    def match(self, p, v, st):
        k = p["p"]
        if k in ("Wild", "Missing"):
            return [(True, st)]
        if k == "Bind":
            val = v
            st2 = st.setroot(self.local_root(st, p["id"]), val)
            if "sub" in p:
                return self.match(p["sub"], v, st2)
            return [(True, st2)]
        if k in ("Ref", "Deref"):
            vv = v
            if vv[0] == "ref":
                vv = self.read(st, vv[1])
            return self.match(p["pat"], vv, st)
        # see through references (match ergonomics)
        while v[0] == "ref":
            v = self.read(st, v[1])
        if k == "Or":
            out = []
            # first alternative that matches wins; for unknown values every alternative may match
            def go(i, st):
                if i == len(p["pats"]):
                    return [(False, st)]
                res = []
                for ok, s2 in self.match(p["pats"][i], v, st):
                    if ok:
                        res.append((True, s2))
                    else:
                        res.extend(go(i + 1, s2))
                return res
            return go(0, st)
        if k == "Slice":
            seq = v[1] if v[0] == "tuple" else (v[2] if v[0] == "abs" and v[1] == "svec" else None)
            before, after = p.get("before", []), p.get("after", [])
            if seq is None:
                sub = [(q, unk("sliceelem")) for q in before + after] + ([(p["mid"], unk("subslice"))] if "mid" in p else [])
                return self.match_all(sub, st) + [(False, st)]
            nb, na = len(before), len(after)
            if ("mid" in p and len(seq) >= nb + na) or ("mid" not in p and len(seq) == nb + na):
                pairs = list(zip(before, seq[:nb])) + list(zip(after, seq[len(seq) - na:] if na else ()))
                if "mid" in p:
                    rest = tuple(seq[nb:len(seq) - na])
                    pairs.append((p["mid"], ("tuple", rest) if v[0] == "tuple" else ("abs", "svec", rest)))
                return self.match_all(pairs, st)
            return [(False, st)]
        if k == "Tuple":
            if v[0] == "tuple" and len(v[1]) == len(p["pats"]) and "dd" not in p:
                return self.match_all(list(zip(p["pats"], v[1])), st)
            if is_unk(v) or v[0] != "tuple":
                return self.match_all([(q, unk("tupelem")) for q in p["pats"]], st)
            # with .. position
            dd = p["dd"]
            items = list(v[1])
            pats = p["pats"]
            pairs = list(zip(pats[:dd], items[:dd])) + list(zip(pats[dd:], items[len(items) - (len(pats) - dd):]))
            return self.match_all(pairs, st)
        if k in ("TupleStruct", "Path", "Struct"):
            want = p["path"].get("def")
            if p["path"].get("k") == "SelfTy":
                want = None
            if v[0] == "enum":
                if want is not None and v[1] != want:
                    return [(False, st)]
                if k == "TupleStruct":
                    if len(v[2]) == len(p["pats"]):
                        return self.match_all(list(zip(p["pats"], v[2])), st)
                    return self.match_all([(q, unk("payload")) for q in p["pats"]], st)
                if k == "Struct":
                    pairs = []
                    for f in p["fields"]:
                        if f["name"].isdigit() and int(f["name"]) < len(v[2]):
                            pairs.append((f["pat"], v[2][int(f["name"])]))
                        else:
                            pairs.append((f["pat"], unk("variantfield")))
                    return self.match_all(pairs, st)
                return [(True, st)]
            if v[0] == "struct" and want is not None and v[1] != want and not p["path"].get("selfty"):
                return [(False, st)]
            if v[0] == "struct" and k == "Struct":
                d = dict(v[2])
                return self.match_all([(f["pat"], d.get(f["name"], unk("field"))) for f in p["fields"]], st)
            if v[0] == "struct" and k == "TupleStruct":
                d = dict(v[2])
                return self.match_all([(q, d.get(str(i), unk("field"))) for i, q in enumerate(p["pats"])], st)
            if v[0] == "abs" and self.module is not None and hasattr(self.module, "match_abs"):
                r = self.module.match_abs(self, p, v, st)
                if r is not None:
                    return r
            # unknown scrutinee: may or may not match; sub-patterns bind unknowns
            subs = []
            if k == "TupleStruct":
                subs = [(q, unk("payload")) for q in p["pats"]]
            elif k == "Struct":
                subs = [(f["pat"], unk("field")) for f in p["fields"]]
            res = self.match_all(subs, st)
            return [r for r in res] + [(False, st)]
        if k == "Lit":
            lit = p["lit"]
            lv = self.e_Lit(lit, st)[0][1]
            if is_unk(v) or is_unk(lv):
                return [(True, st), (False, st)]
            if v[0] in ("str", "sstr", "char") and lv[0] in ("str", "char"):
                e = str_equal(v, lv)
                if e is None:
                    return [(True, st), (False, st)]
                return [(e, st)]
            if v[0] == "abs" and self.module is not None and hasattr(self.module, "match_abs"):
                r = self.module.match_abs(self, p, v, st)
                if r is not None:
                    return r
            if v[0] == "abs":
                return [(True, st), (False, st)]
            return [(v == lv, st)]
        if k == "Range":
            if v[0] == "abs" and self.module is not None and hasattr(self.module, "match_abs"):
                r = self.module.match_abs(self, p, v, st)
                if r is not None:
                    return r
            if v[0] == "char" and "lo" in p and "hi" in p:
                lo = p["lo"]["lit"]["v"]
                hi = p["hi"]["lit"]["v"]
                if p.get("incl"):
                    return [(lo <= v[1] <= hi, st)]
                return [(lo <= v[1] < hi, st)]
            return [(True, st), (False, st)]
        if k == "Guard":
            out = []
            for ok, s2 in self.match(p["pat"], v, st):
                if not ok:
                    out.append((False, s2))
                    continue
                for ctl, c, s3 in self.eval_cond(p["guard"], s2):
                    out.append((bool(c) if ctl == OK else False, s3))
            return out
        return [(True, st), (False, st)]

    def match_all(self, pairs, st):
        res = [(True, st)]
        for q, x in pairs:
            nxt = []
            for ok, s in res:
                if not ok:
                    nxt.append((False, s))
                else:
                    nxt.extend(self.match(q, x, s))
            res = nxt
        return res

    # ---- loops
    def e_Loop(self, n, st):
        lid = n["id"]
        seen = set()
        work = [st]
        out = []
        key = id(n)
        while work:
            s = work.pop()
            fz = s.freeze()
            if fz in seen:
                continue
            seen.add(fz)
            self.states_seen += 1
            if len(seen) > 200000:
                raise Violation("loop state explosion at " + n.get("sp", "?"))
            body_ids = self.bound_ids(n["body"])
            for ctl, v, s2 in self.eval(n["body"], s):
                if ctl == OK:
                    work.append(self.drop_locals(s2, body_ids))
                elif ctl == CONT and v == lid:
                    work.append(self.drop_locals(s2, body_ids))
                elif ctl == BRK and isinstance(v, tuple) and v[0] == "__brk__" and v[1] == lid:
                    out.append((OK, v[2], self.drop_locals(s2, body_ids)))
                else:
                    out.append((ctl, v, s2))
        self.loop_states[key] = max(self.loop_states.get(key, 0), len(seen))
        if self.module is not None and hasattr(self.module, "on_loop_done"):
            self.module.on_loop_done(self, n, seen, out)
        # dedupe outcomes
        return self.dedupe(out)

    def dedupe(self, res):
        seen = set()
        out = []
        for ctl, v, s in res:
            try:
                k = (ctl, v, s.freeze())
            except TypeError:
                out.append((ctl, v, s))
                continue
            if k in seen:
                continue
            seen.add(k)
            out.append((ctl, v, s))
        return out

    def e_Break(self, n, st):
        if "e" in n:
            return self.then(self.eval(n["e"], st), lambda v, s: [(BRK, ("__brk__", n.get("target"), v), s)])
        return [(BRK, ("__brk__", n.get("target"), UNIT), st)]

    def e_Continue(self, n, st):
        return [(CONT, n.get("target"), st)]

    def e_Ret(self, n, st):
        if "e" in n:
            return self.then(self.eval(n["e"], st), lambda v, s: [(RET, v, s)])
        return [(RET, UNIT, st)]

    def e_Assign(self, n, st):
        def f(v, s):
            out = []
            for ctl, p, s2 in self.place_of(n["l"], s):
                if ctl != OK:
                    out.append((ctl, p, s2))
                elif p is None or p[0] == "__val__":
                    out.append((OK, UNIT, s2))
                else:
                    old = self.read(s2, p) if self.module is not None and hasattr(self.module, "on_assign") else None
                    s3 = self.write(s2, p, v)
                    if self.module is not None and hasattr(self.module, "on_assign"):
                        s3 = self.module.on_assign(self, n, p, v, s3, old)
                    out.append((OK, UNIT, s3))
            return out
        return self.then(self.eval(n["r"], st), f)

    def e_AssignOp(self, n, st):
        def f(vals, s):
            l, r = vals
            nv = self.binop(n["op"].rstrip("="), l, r)
            out = []
            for ctl, p, s2 in self.place_of(n["l"], s):
                if ctl == OK and p is not None and p[0] != "__val__":
                    out.append((OK, UNIT, self.write(s2, p, nv)))
                else:
                    out.append((OK, UNIT, s2))
            return out
        return self.seq([n["l"], n["r"]], st, f)

    def binop(self, op, l, r):
        while False:
            pass
        if l[0] == "int" and r[0] == "int" and ("pos" in (l[1], r[1])):
            a, b = l[1], r[1]
            if a == "pos" and b == 0 and op in ("==", "!=", "<", "<=", ">", ">="):
                return ("bool", {"==": False, "!=": True, "<": False, "<=": False, ">": True, ">=": True}[op])
            if b == "pos" and a == 0 and op in ("==", "!=", "<", "<=", ">", ">="):
                return ("bool", {"==": False, "!=": True, "<": True, "<=": True, ">": False, ">=": False}[op])
            if op == "+":
                return ("int", "pos")
            return unk("posint")
        if l[0] == "int" and r[0] == "int":
            a, b = l[1], r[1]
            if op == "+":
                if a == "big" or b == "big":
                    return ("int", "big")
                return mkint(a + b)
            if op == "-":
                if b == "big":
                    return unk("int")
                if a == "big":
                    return unk("int") if b != 0 else ("int", "big")
                return mkint(a - b) if a - b >= 0 else unk("negint")
            if op in ("==", "!=", "<", "<=", ">", ">="):
                if a == "big" and b == "big":
                    return unk("cmp")
                if a == "big":
                    a = INT_BOUND + 1
                    if b > INT_BOUND:
                        return unk("cmp")
                if b == "big":
                    b = INT_BOUND + 1
                    if a > INT_BOUND:
                        return unk("cmp")
                return ("bool", {"==": a == b, "!=": a != b, "<": a < b, "<=": a <= b, ">": a > b, ">=": a >= b}[op])
        if op in ("==", "!="):
            eq = self.values_equal(l, r)
            if eq is None:
                return unk("eq")
            return ("bool", eq if op == "==" else not eq)
        if l[0] == "char" and r[0] == "char" and op in ("<", "<=", ">", ">="):
            a, b = l[1], r[1]
            return ("bool", {"<": a < b, "<=": a <= b, ">": a > b, ">=": a >= b}[op])
        if l[0] == "bool" and r[0] == "bool":
            if op == "&":
                return ("bool", l[1] and r[1])
            if op == "|":
                return ("bool", l[1] or r[1])
        return unk("binop" + op)

    def values_equal(self, a, b):
        """True/False when decidable, None when unknown"""
        if a[0] == "ref" or b[0] == "ref":
            st = getattr(self, "_eq_state", None)
            if st is None:
                return None
            while a[0] == "ref":
                a = self.read(st, a[1])
            while b[0] == "ref":
                b = self.read(st, b[1])
        if is_unk(a) or is_unk(b):
            return None
        if a[0] == "abs" or b[0] == "abs":
            if self.module is not None and hasattr(self.module, "abs_equal"):
                return self.module.abs_equal(self, a, b)
            return None
        if a[0] in ("str", "sstr", "char") and b[0] in ("str", "sstr", "char"):
            return str_equal(a, b)
        if a[0] != b[0]:
            return None
        if a[0] in ("bool", "char", "str", "unit"):
            return a == b
        if a[0] == "int":
            if a[1] == "big" and b[1] == "big":
                return None
            return a[1] == b[1]
        if a[0] == "enum":
            if a[1] != b[1]:
                return False
            if len(a[2]) != len(b[2]):
                return None
            res = True
            for x, y in zip(a[2], b[2]):
                e = self.values_equal(x, y)
                if e is False:
                    return False
                if e is None:
                    res = None
            return res
        if a[0] == "tuple":
            if len(a[1]) != len(b[1]):
                return None
            res = True
            for x, y in zip(a[1], b[1]):
                e = self.values_equal(x, y)
                if e is False:
                    return False
                if e is None:
                    res = None
            return res
        return None

    def deep_deref(self, st, v, depth):
        """replace references into the frame `depth` (about to be popped) by the values they point to"""
        if not isinstance(v, tuple) or not v:
            return v
        if v[0] == "ref":
            root = v[1][0]
            if root[0] == "L" and root[1] >= depth:
                return self.deep_deref(st, self.read(st, v[1]), depth)
            return v
        if v[0] == "enum":
            return ("enum", v[1], tuple(self.deep_deref(st, x, depth) for x in v[2]))
        if v[0] == "tuple":
            return ("tuple", tuple(self.deep_deref(st, x, depth) for x in v[1]))
        if v[0] == "struct":
            return ("struct", v[1], tuple((k, self.deep_deref(st, x, depth)) for k, x in v[2]))
        return v

    def deref_roots(self, st, v, roots):
        if not isinstance(v, tuple) or not v:
            return v
        if v[0] == "ref":
            if v[1][0] in roots:
                return self.deref_roots(st, self.read(st, v[1]), roots)
            return v
        if v[0] == "enum":
            return ("enum", v[1], tuple(self.deref_roots(st, x, roots) for x in v[2]))
        if v[0] == "tuple":
            return ("tuple", tuple(self.deref_roots(st, x, roots) for x in v[1]))
        if v[0] == "struct":
            return ("struct", v[1], tuple((k, self.deref_roots(st, x, roots)) for k, x in v[2]))
        return v

    def deref_val(self, st, v):
        n = 0
        while v[0] == "ref":
            v = self.read(st, v[1])
            n += 1
            if n > 64:
                raise Violation("cyclic reference %s" % (v,))
        return v

    def e_Binary(self, n, st):
        op = n["op"]
        if op in ("&&", "||") and "def" not in n:
            return [(ctl, ("bool", c) if ctl == OK else c, s) for ctl, c, s in self.eval_cond(n, st)]

        def f(vals, s):
            l, r = self.deref_val(s, vals[0]), self.deref_val(s, vals[1])
            self._eq_state = s
            if self.module is not None and hasattr(self.module, "binary"):
                res = self.module.binary(self, n, l, r, s)
                if res is not None:
                    return res
            if "def" in n and self.module is not None and op in ("+",):
                res = self.module.intrinsic(self, n["def"], [l, r], s, n)
                if res is not None:
                    return res
            return [(OK, self.binop(op, l, r), s)]
        return self.seq([n["l"], n["r"]], st, f)

    def e_Unary(self, n, st):
        op = n["op"]
        if op == "*":
            if "def" in n:
                # overloaded deref (Cow, String -> str, ...): transparent
                return self.then(self.eval(n["e"], st), lambda v, s: [(OK, self.deref_val(s, v), s)])
            return self.then(self.eval(n["e"], st), lambda v, s: [(OK, self.read(s, v[1]) if v[0] == "ref" else v, s)])
        if op == "!":
            def f(v, s):
                v = self.deref_val(s, v)
                if v[0] == "bool":
                    return [(OK, ("bool", not v[1]), s)]
                return [(OK, unk("not"), s)]
            return self.then(self.eval(n["e"], st), f)
        return self.then(self.eval(n["e"], st), lambda v, s: [(OK, unk("unary"), s)])

    def e_Index(self, n, st):
        def f(vals, s):
            if self.module is not None and hasattr(self.module, "index"):
                r = self.module.index(self, n, vals[0], vals[1], s)
                if r is not None:
                    return r
            return [(OK, unk("index"), s)]
        return self.seq([n["e"], n["i"]], st, f)

    def e_Closure(self, n, st):
        self.closures[id(n)] = n
        return [(OK, ("closure", id(n), st.depth), st)]

    def e_Fmt(self, n, st):
        # format_args: literal pieces and evaluated placeholder arguments
        argn = [p["a"] for p in n["p"] if isinstance(p, dict) and p.get("a")]

        def fin(vals, s):
            items = []
            it = iter(vals)
            for p in n["p"]:
                if isinstance(p, str):
                    items.append(("lit", p))
                elif p.get("a"):
                    items.append(("arg", p.get("t", "?") if not p.get("opts") else "opts", next(it)))
                else:
                    items.append(("arg", "?", unk("fmtarg")))
            return [(OK, ("fmtv", tuple(items)), s)]
        return self.seq(argn, st, fin)

    def e_Repeat(self, n, st):
        return [(OK, unk("repeat"), st)]

    def e_ConstBlock(self, n, st):
        return [(OK, unk("constblock"), st)]

    # ---- calls
    def e_Call(self, n, st):
        if "ctor" in n:
            return self.seq(n["args"], st, lambda vals, s: [(OK, ("enum", n["ctor"], tuple(vals)), s)])
        callee = n.get("inst") or n.get("def")
        if callee is None:
            # calling a local closure / fn pointer value
            def f(vals, s):
                fv = vals[0]
                return self.apply(fv, vals[1:], s, n)
            return self.seq([n["f"]] + n["args"], st, f)
        return self.seq(n["args"], st, lambda vals, s: self.call(callee, vals, s, n))

    def e_MCall(self, n, st):
        callee = n.get("inst") or n.get("def")
        # receiver: pass a reference to the place when it is a place expression
        out = []
        for ctl, p, s in self.place_of(n["recv"], st):
            if ctl != OK:
                out.append((ctl, p, s))
                continue
            if p is not None and p[0] == "__val__":
                recv_vals = [(OK, p[1], s)]
            elif p is not None:
                cur = self.read(s, p)
                recv_vals = [(OK, cur if cur[0] == "ref" else ("ref", p), s)]
            else:
                recv_vals = self.eval(n["recv"], s)
            for c2, rv, s2 in recv_vals:
                if c2 != OK:
                    out.append((c2, rv, s2))
                    continue
                out.extend(self.seq(n["args"], s2, lambda vals, s3, rv=rv: self.call(callee, [rv] + vals, s3, n)))
        return out

    def apply(self, fv, args, st, n):
        """call a function value"""
        if fv[0] == "closure":
            c = self.closures[fv[1]]
            # closure body runs in the defining frame's local namespace
            saved = st.depth
            s = State(st.store, st.mon, fv[2]).copy()
            res = [(True, s)]
            for p, a in zip(c["params"], args):
                nxt = []
                for ok, s2 in res:
                    nxt.extend(self.match(p, a, s2))
                res = nxt
            out = []
            pids = set()
            for p in c["params"]:
                stack = [p]
                while stack:
                    q = stack.pop()
                    if isinstance(q, dict):
                        if q.get("p") == "Bind":
                            pids.add(("L", fv[2], q["id"]))
                        stack.extend(x for x in q.values() if isinstance(x, (dict, list)))
                    elif isinstance(q, list):
                        stack.extend(q)
            for ok, s2 in res:
                for ctl, v, s3 in self.eval(c["body"], s2):
                    v = self.deref_roots(s3, v, pids)
                    s4 = State(s3.store, s3.mon, saved)
                    if ctl == RET:
                        out.append((OK, v, s4))
                    else:
                        out.append((ctl, v, s4))
            return out
        if fv[0] == "fnref":
            if len(fv) > 2 and fv[2] and fv[2].rstrip().endswith("}") and " {" in fv[2] and fv[1] not in self.facts.fns:
                # a trait method named through the trait (`.map(License::from)`): the fn item type names the resolved impl
                resolved = fv[2].rstrip()[:-1].rsplit(" {", 1)[1]
                if resolved in self.facts.fns:
                    fv = ("fnref", resolved, fv[2])
            if len(fv) > 2 and fv[2] and " -> " in fv[2] and fv[2].rstrip().endswith("}"):
                rty = fv[2].rsplit(" {", 1)[0].split(" -> ", 1)[1]
                n = dict(n if isinstance(n, dict) else {}, ty=rty)
            return self.call(fv[1], args, st, n)
        if fv[0] == "enum" and not fv[2]:
            return [(OK, ("enum", fv[1], tuple(args)), st)]  # tuple-variant constructor used as a function
        if fv[0] == "abs" and self.module is not None and hasattr(self.module, "apply_abs"):
            r = self.module.apply_abs(self, fv, args, st, n)
            if r is not None:
                return r
        return [(OK, unk("apply"), st)]

    def call(self, callee, args, st, n):
        self._eq_state = st
        if callee is None:
            return [(OK, unk("call"), st)]
        if callee == "core::iter::traits::iterator::Iterator::collect" and isinstance(n, dict) and args and n.get("ty") in self.facts.adts:
            # collecting into a workspace type runs that type's own FromIterator impl; with several impls (different item
            # types) the one that is not already executing is meant (an impl delegating to its sibling)
            idx = getattr(self, "_fromiter_index", None)
            if idx is None:
                idx = {}
                for k, f in self.facts.fns.items():
                    if f.get("name") == "from_iter" and f.get("trait") == "core::iter::traits::collect::FromIterator" and "body" in f:
                        idx.setdefault(f.get("self_ty") or f.get("output"), []).append(k)
                self._fromiter_index = idx
            cands = [k for k in idx.get(n.get("ty"), []) if k not in self.callstack]
            if len(cands) == 1:
                return self.call(cands[0], [self.deref_val(st, args[0])], st, n)
        # module intrinsics first
        if self.module is not None:
            r = self.module.intrinsic(self, callee, args, st, n)
            if r is not None:
                return r
        if callee in ("<T as core::convert::Into<U>>::into", "core::convert::Into::into") and isinstance(n, dict) and args:
            k = self._from_impl(n.get("ty"), self.deref_val(st, args[0]))
            if k is not None:
                return self.call(k, args, st, n)
        r = self.std_intrinsic(callee, args, st, n)
        if r is not None:
            return r
        f = self.facts.fns.get(callee)
        if f is not None and f.get("x", "").startswith("m:Derive:PartialEq") and f.get("name") in ("eq", "ne"):
            l, r2 = self.deref_val(st, args[0]), self.deref_val(st, args[1])
            return [(OK, self.binop("==" if f["name"] == "eq" else "!=", l, r2), st)]
        if f is not None and f.get("x", "").startswith("m:Derive:Clone"):
            return [(OK, self.deref_val(st, args[0]), st)]
        if f is not None and "body" in f and st.depth < self.max_depth and self.callstack.count(callee) <= self.max_recursion:
            ps, ins = f.get("params") or [], f.get("inputs") or []
            if args and ps and ins and ps[0].get("name") == "self" and not ins[0].startswith(("&", "*")) and args[0][0] == "ref":
                # by-value receiver: the method call passed the place; the callee owns a copy of the value
                args = [self.deref_val(st, args[0])] + list(args[1:])
            return self.inline(f, args, st)
        self.unknown_calls[callee] = self.unknown_calls.get(callee, 0) + 1
        # fail closed: an unmodelled library call that (by its name) mutates its receiver leaves that place unknown
        last = callee.rsplit("::", 1)[-1]
        if args and args[0][0] == "ref" and (last in self.MUTATORS or last.startswith(("sort", "dedup", "retain", "drain", "rotate_", "push", "extend", "insert", "remove", "swap"))):
            try:
                st = self.write(st, args[0][1], unk("mutated-by:" + last))
            except Exception:
                pass
        return [(OK, unk("call:" + callee), st)]

    def _from_impl(self, target_ty, v):
        """workspace `impl From<A> for B`: resolve x.into() by the static result type and the value's type"""
        idx = getattr(self, "_from_index", None)
        if idx is None:
            idx = {}
            for k, f in self.facts.fns.items():
                if f.get("name") == "from" and "core::convert::From<" in k and "body" in f and f.get("inputs") and not str(f.get("output")).startswith("rowan::"):
                    idx.setdefault(f.get("output"), []).append((f["inputs"][0], k))
            self._from_index = idx
        cands = idx.get(target_ty)
        if not cands or not isinstance(v, tuple):
            return None
        ty = None
        if v[0] == "enum":
            ty = v[1] if v[1] in self.facts.adts else v[1].rsplit("::", 1)[0]
        elif v[0] == "struct":
            ty = v[1]
        for inp, k in cands:
            if inp == ty:
                return k
        return None

    def _refs_in(self, v, acc):
        if not isinstance(v, tuple) or not v:
            return
        if v[0] == "ref":
            acc.add(v[1][0])
            return
        if v[0] in ("str", "sstr", "int", "bool", "char", "unit", "unk"):
            return
        for x in v[1:]:
            if isinstance(x, tuple):
                if x and isinstance(x[0], str):
                    self._refs_in(x, acc)
                else:
                    for y in x:
                        if isinstance(y, tuple):
                            self._refs_in(y, acc)
                            if len(y) == 2 and isinstance(y[1], tuple):
                                self._refs_in(y[1], acc)

    def reachable_roots(self, st, vals):
        acc = set()
        for v in vals:
            self._refs_in(v, acc)
        done = set()
        work = list(acc)
        while work:
            r = work.pop()
            if r in done:
                continue
            done.add(r)
            v = st.store.get(r)
            if v is not None:
                more = set()
                self._refs_in(v, more)
                work.extend(more - done)
        return done

    def gc(self, st, extra=()):
        """drop anonymous temporaries that are no longer referenced"""
        temps = [r for r in st.store if r[0] == "T" and isinstance(r[1], int)]
        if not temps:
            return st
        acc = set()
        for r, v in st.store.items():
            if not (r[0] == "T" and isinstance(r[1], int)):
                self._refs_in(v, acc)
        for v in extra:
            self._refs_in(v, acc)
        done = set()
        work = [r for r in acc if r[0] == "T" and isinstance(r[1], int)]
        while work:
            r = work.pop()
            if r in done:
                continue
            done.add(r)
            v = st.store.get(r)
            if v is not None:
                more = set()
                self._refs_in(v, more)
                work.extend(x for x in more if x not in done and x[0] == "T" and isinstance(x[1], int))
        dead = [r for r in temps if r not in done]
        if not dead:
            return st
        s = st.copy()
        for r in dead:
            del s.store[r]
        return s

    def inline(self, f, args, st):
        """frame rule: the callee sees only what is reachable from its arguments (+ monitors);
        results are memoised on that footprint and merged back into the caller's store"""
        try:
            reach = self.reachable_roots(st, args)
            sub = State({r: st.store[r] for r in reach if r in st.store}, st.mon, st.depth)
            mk = (f["key"], tuple(args), sub.freeze())
            hit = self.memo.get(mk)
        except TypeError:
            return self._inline(f, args, st)
        if hit is None:
            hit = self._inline(f, args, sub)
            self.memo[mk] = hit
        out = []
        for ctl, v, s3 in hit:
            store = dict(st.store)
            for r in reach:
                if r in s3.store:
                    store[r] = s3.store[r]
                else:
                    store.pop(r, None)
            for r, x in s3.store.items():
                if r not in reach and r[0] == "T":
                    store[r] = x
            out.append((ctl, v, self.gc(State(store, s3.mon, st.depth), (v,) if isinstance(v, tuple) else ())))
        return out

    def _inline(self, f, args, st):
        self.callstack.append(f["key"])
        self._fn_bodies.add(id(f["body"]))
        try:
            s = State(st.store, st.mon, st.depth + 1).copy()
            res = [(True, s)]
            for p, a in zip(f["params"], args):
                nxt = []
                for ok, s2 in res:
                    nxt.extend(self.match(p, a, s2))
                res = nxt
            out = []
            for ok, s2 in res:
                for ctl, v, s3 in self.eval(f["body"], s2):
                    # drop callee locals
                    if self.module is not None and hasattr(self.module, "on_return") and ctl in (RET, OK):
                        for v, s3 in self.module.on_return(self, f, v, s3):
                            v = self.deep_deref(s3, v, st.depth + 1)
                            store = {k: x for k, x in s3.store.items() if not (k[0] == "L" and k[1] == st.depth + 1)}
                            out.append((OK, v, State(store, s3.mon, st.depth)))
                        continue
                    v = self.deep_deref(s3, v, st.depth + 1)
                    store = {k: x for k, x in s3.store.items() if not (k[0] == "L" and k[1] == st.depth + 1)}
                    s4 = State(store, s3.mon, st.depth)
                    if ctl in (RET, OK):
                        out.append((OK, v, s4))
                    else:
                        out.append((ctl, v, s4))
            return self.dedupe(out)
        finally:
            self.callstack.pop()

    MUTATORS = {"clear", "truncate", "pop", "append", "split_off", "reverse", "fill", "take", "replace", "set_len", "resize", "make_ascii_lowercase", "make_ascii_uppercase", "get_or_insert", "get_or_insert_with", "entry"}

    # ---- a few std intrinsics that are value-transparent
    TRANSPARENT = (
        "core::convert::Into::into", "core::convert::From::from", "core::clone::Clone::clone",
        "alloc::string::ToString::to_string", "alloc::borrow::ToOwned::to_owned", "core::convert::AsRef::as_ref",
        "alloc::string::String::as_str", "core::ops::deref::Deref::deref", "alloc::str::<impl str>::to_string",
        "core::borrow::Borrow::borrow", "alloc::str::<impl alloc::borrow::ToOwned for str>::to_owned",
        "<alloc::string::String as core::ops::deref::Deref>::deref", "<alloc::string::String as core::clone::Clone>::clone",
        "<str as alloc::string::ToString>::to_string", "<T as core::convert::Into<U>>::into",
        "<T as core::convert::From<T>>::from", "<alloc::string::String as core::convert::From<&str>>::from",
        "core::option::Option::<T>::as_ref", "core::option::Option::<T>::as_deref", "core::option::Option::<&T>::copied",
        "core::option::Option::<&T>::cloned", "core::option::Option::<T>::as_mut",
        "<T as alloc::string::ToString>::to_string", "<T as alloc::borrow::ToOwned>::to_owned", "std::path::Path::to_string_lossy", "std::path::PathBuf::as_path",
        "<std::path::PathBuf as core::convert::From<&T>>::from", "<alloc::borrow::Cow<'_, T> as core::convert::AsRef<T>>::as_ref",
        "<std::path::PathBuf as core::ops::deref::Deref>::deref", "url::Url::as_str", "<alloc::string::String as core::convert::AsRef<str>>::as_ref",
        "<alloc::borrow::Cow<'_, B> as core::ops::deref::Deref>::deref", "<str as core::convert::AsRef<str>>::as_ref",
        "<alloc::string::String as core::borrow::Borrow<str>>::borrow", "<url::Url as core::convert::AsRef<str>>::as_ref",
    )

    def std_intrinsic(self, callee, args, st, n):
        if callee.endswith("as core::clone::Clone>::clone") and callee not in self.facts.fns:
            return [(OK, self.deep_deref(st, self.deref_val(st, args[0]), 0), st)]
        if callee in self.TRANSPARENT:
            v = args[0]
            if callee.endswith("ToOwned>::to_owned") or callee.startswith("std::path::") or "Cow<" in callee:
                v = self.deref_val(st, v) if v[0] == "ref" and self.read(st, v[1])[0] != "ref" else (self.read(st, v[1]) if v[0] == "ref" else v)
            if callee.endswith("::clone") or callee.endswith("to_string") or callee.endswith("to_owned") or "Option" in callee:
                v = self.deref_val(st, v)
                if v[0] == "enum" and v[1] == SOME and "Option" in callee:
                    inner = self.deref_val(st, v[2][0])
                    v = some(inner)
            return [(OK, v, st)]
        if "From<u8>" in callee and "char" in callee and args:
            b = self.deref_val(st, args[0])
            if b[0] == "int" and isinstance(b[1], int) and 0 <= b[1] < 256:
                return [(OK, ("char", chr(b[1])), st)]
        if callee == "core::ops::try_trait::Try::branch" or callee.endswith("as core::ops::try_trait::Try>::branch"):
            v = self.deref_val(st, args[0])
            CONT_ = "core::ops::control_flow::ControlFlow::Continue"
            BRK_ = "core::ops::control_flow::ControlFlow::Break"
            if v[0] == "enum" and v[1] in (SOME, OKV):
                return [(OK, ("enum", CONT_, v[2]), st)]
            if v[0] == "enum" and v[1] == NONE:
                return [(OK, ("enum", BRK_, (none(),)), st)]
            if v[0] == "enum" and v[1] == ERRV:
                return [(OK, ("enum", BRK_, (v,)), st)]
            return [(OK, ("enum", CONT_, (unk("try-ok"),)), st), (OK, ("enum", BRK_, (unk("try-err"),)), st)]
        if callee == "core::ops::try_trait::FromResidual::from_residual" or "FromResidual" in callee:
            v = args[0]
            return [(OK, v, st)]
        if callee in ("core::option::Option::<T>::zip", "core::option::Option::<T>::and", "core::option::Option::<T>::xor"):
            a, b = self.deref_val(st, args[0]), self.deref_val(st, args[1])
            if a[0] == "enum" and b[0] == "enum" and a[1] in (SOME, NONE) and b[1] in (SOME, NONE):
                m_ = callee.rsplit("::", 1)[1]
                if m_ == "zip":
                    return [(OK, some(("tuple", (a[2][0], b[2][0]))) if a[1] == SOME and b[1] == SOME else none(), st)]
                if m_ == "and":
                    return [(OK, b if a[1] == SOME else none(), st)]
                return [(OK, a if (a[1] == SOME) != (b[1] == SOME) and a[1] == SOME else (b if (a[1] == SOME) != (b[1] == SOME) else none()), st)]
        if callee == "core::option::Option::<T>::take" and args and args[0][0] == "ref":
            v = self.read(st, args[0][1])
            if v[0] == "enum" and v[1] in (SOME, NONE):
                return [(OK, v, self.write(st, args[0][1], none()))]
        if callee == "core::option::Option::<core::option::Option<T>>::flatten":
            v = self.deref_val(st, args[0])
            if v[0] == "enum" and v[1] == NONE:
                return [(OK, v, st)]
            if v[0] == "enum" and v[1] == SOME:
                return [(OK, self.deref_val(st, v[2][0]), st)]
        if callee in ("core::result::Result::<T, E>::and_then", "core::result::Result::<T, E>::or_else", "core::result::Result::<T, E>::unwrap_or_else",
                      "core::result::Result::<T, E>::unwrap_or", "core::result::Result::<T, E>::map_or", "core::result::Result::<T, E>::map_or_else", "core::result::Result::<T, E>::err"):
            v = self.deref_val(st, args[0])
            m_ = callee.rsplit("::", 1)[1]
            if v[0] == "enum" and v[1] in (OKV, ERRV):
                ok = v[1] == OKV
                if m_ == "and_then":
                    return self.apply(args[1], [v[2][0]], st, n) if ok else [(OK, v, st)]
                if m_ == "or_else":
                    return [(OK, v, st)] if ok else self.apply(args[1], [v[2][0]], st, n)
                if m_ == "unwrap_or_else":
                    return [(OK, v[2][0], st)] if ok else self.apply(args[1], [v[2][0]], st, n)
                if m_ == "unwrap_or":
                    return [(OK, v[2][0] if ok else args[1], st)]
                if m_ == "map_or":
                    return self.apply(args[2], [v[2][0]], st, n) if ok else [(OK, args[1], st)]
                if m_ == "map_or_else":
                    return self.apply(args[2], [v[2][0]], st, n) if ok else self.apply(args[1], [v[2][0]], st, n)
                if m_ == "err":
                    return [(OK, none() if ok else some(v[2][0]), st)]
        if callee in ("core::bool::<impl bool>::then", "core::bool::<impl bool>::then_some"):
            v = self.deref_val(st, args[0])
            if v == ("bool", False):
                return [(OK, none(), st)]
            if v == ("bool", True):
                if callee.endswith("then_some"):
                    return [(OK, some(args[1]), st)]
                return self.then(self.apply(args[1], [], st, n), lambda r, s: [(OK, some(r), s)])
        if callee.startswith("core::cmp::Ordering::"):
            ORD_ = "core::cmp::Ordering::"
            m_ = callee[len(ORD_):]
            v = self.deref_val(st, args[0]) if args else None
            if v is not None and v[0] == "enum" and v[1].startswith(ORD_):
                o = v[1][len(ORD_):]
                if m_ == "then_with":
                    return [(OK, v, st)] if o != "Equal" else self.apply(args[1], [], st, n)
                if m_ == "then":
                    return [(OK, v if o != "Equal" else self.deref_val(st, args[1]), st)]
                if m_ == "reverse":
                    return [(OK, ("enum", ORD_ + {"Less": "Greater", "Greater": "Less", "Equal": "Equal"}[o], ()), st)]
                tbl = {"is_eq": o == "Equal", "is_ne": o != "Equal", "is_lt": o == "Less", "is_gt": o == "Greater", "is_le": o != "Greater", "is_ge": o != "Less"}
                if m_ in tbl:
                    return [(OK, ("bool", tbl[m_]), st)]
        if callee in ("core::result::Result::<T, E>::is_ok", "core::result::Result::<T, E>::is_err"):
            v = self.deref_val(st, args[0])
            if v[0] == "enum" and v[1] in (OKV, ERRV):
                return [(OK, ("bool", (v[1] == OKV) == callee.endswith("is_ok")), st)]
        if callee == "core::option::Option::<T>::is_some":
            v = self.deref_val(st, args[0])
            if v[0] == "enum":
                return [(OK, ("bool", v[1] == SOME), st)]
            return [(OK, unk("is_some"), st)]
        if callee == "core::option::Option::<T>::is_none":
            v = self.deref_val(st, args[0])
            if v[0] == "enum":
                return [(OK, ("bool", v[1] == NONE), st)]
            return [(OK, unk("is_none"), st)]
        if callee == "core::option::Option::<T>::map":
            v = self.deref_val(st, args[0])
            if v[0] == "enum" and v[1] == NONE:
                return [(OK, v, st)]
            if v[0] == "enum" and v[1] == SOME:
                return self.then(self.apply(args[1], [v[2][0]], st, n), lambda r, s: [(OK, some(r), s)])
            return [(OK, none(), st)] + self.then(self.apply(args[1], [unk("map-arg")], st, n), lambda r, s: [(OK, some(r), s)])
        if callee in ("core::option::Option::<T>::unwrap", "core::option::Option::<T>::expect",
                      "core::result::Result::<T, E>::unwrap", "core::result::Result::<T, E>::expect"):
            v = self.deref_val(st, args[0])
            if v[0] == "enum" and v[1] in (SOME, OKV):
                return [(OK, v[2][0], st)]
            if v[0] == "enum" and v[1] in (NONE, ERRV):
                return [(PANIC, ("unwrap", n.get("sp")), st)]
            return [(OK, unk("unwrap"), st), (PANIC, ("unwrap?", n.get("sp")), st)]
        if callee in ("core::option::Option::<T>::unwrap_or", ):
            v = self.deref_val(st, args[0])
            if v[0] == "enum" and v[1] == SOME:
                return [(OK, v[2][0], st)]
            if v[0] == "enum" and v[1] == NONE:
                return [(OK, args[1], st)]
            return [(OK, unk("unwrap_or"), st), (OK, args[1], st)]
        if callee == "core::option::Option::<core::result::Result<T, E>>::transpose":
            v = self.deref_val(st, args[0])
            if v[0] == "enum" and v[1] == NONE:
                return [(OK, ("enum", OKV, (none(),)), st)]
            if v[0] == "enum" and v[1] == SOME:
                inner = self.deref_val(st, v[2][0])
                if inner[0] == "enum" and inner[1] == OKV:
                    return [(OK, ("enum", OKV, (some(inner[2][0]),)), st)]
                if inner[0] == "enum" and inner[1] == ERRV:
                    return [(OK, inner, st)]
            return [(OK, ("enum", OKV, (unk("transpose"),)), st), (OK, ("enum", ERRV, (unk("transpose"),)), st)]
        if callee == "core::option::Option::<T>::ok_or_else":
            v = self.deref_val(st, args[0])
            if v[0] == "enum" and v[1] == SOME:
                return [(OK, ("enum", OKV, v[2]), st)]
            if v[0] == "enum" and v[1] == NONE:
                return self.then(self.apply(args[1], [], st, n), lambda r, s: [(OK, ("enum", ERRV, (r,)), s)])
            return [(OK, ("enum", OKV, (unk("ok_or"),)), st), (OK, ("enum", ERRV, (unk("ok_or"),)), st)]
        if callee == "core::option::Option::<T>::ok_or":
            v = self.deref_val(st, args[0])
            if v[0] == "enum" and v[1] == SOME:
                return [(OK, ("enum", OKV, v[2]), st)]
            if v[0] == "enum" and v[1] == NONE:
                return [(OK, ("enum", ERRV, (args[1],)), st)]
            return [(OK, ("enum", OKV, (unk("ok_or"),)), st), (OK, ("enum", ERRV, (args[1],)), st)]
        if callee == "core::result::Result::<T, E>::map_err":
            v = self.deref_val(st, args[0])
            if v[0] == "enum" and v[1] == OKV:
                return [(OK, v, st)]
            if v[0] == "enum" and v[1] == ERRV:
                return self.then(self.apply(args[1], [v[2][0]], st, n), lambda r, s: [(OK, ("enum", ERRV, (r,)), s)])
            return [(OK, ("enum", OKV, (unk("map_err"),)), st), (OK, ("enum", ERRV, (unk("map_err"),)), st)]
        if callee == "alloc::boxed::Box::<T>::new_uninit":
            return [(OK, ("abs", "uninit-box"), st)]
        if callee == "alloc::intrinsics::write_box_via_move":
            return [(OK, args[1], st)]
        if callee == "alloc::boxed::box_assume_init_into_vec_unsafe" or callee == "alloc::slice::<impl [T]>::into_vec":
            v = self.deref_val(st, args[0])
            if v[0] == "tuple":
                return [(OK, ("abs", "svec", v[1]), st)]
        if callee == "core::option::Option::<T>::and_then":
            v = self.deref_val(st, args[0])
            if v[0] == "enum" and v[1] == NONE:
                return [(OK, v, st)]
            if v[0] == "enum" and v[1] == SOME:
                return self.apply(args[1], [v[2][0]], st, n)
            return [(OK, none(), st)] + self.apply(args[1], [unk("and_then")], st, n)
        if callee in ("core::option::Option::<T>::is_some_and", "core::option::Option::<T>::is_none_or"):
            v = self.deref_val(st, args[0])
            some_and = callee.endswith("is_some_and")
            if v[0] == "enum" and v[1] == NONE:
                return [(OK, ("bool", not some_and), st)]
            if v[0] == "enum" and v[1] == SOME:
                return self.apply(args[1], [v[2][0]], st, n)
        if callee == "core::option::Option::<T>::filter":
            v = self.deref_val(st, args[0])
            if v[0] == "enum" and v[1] == NONE:
                return [(OK, v, st)]
            if v[0] == "enum" and v[1] == SOME:
                s1, p1 = self.newtemp(st, v[2][0])
                out = []
                for ctl, b, s2 in self.apply(args[1], [("ref", p1)], s1, n):
                    b = self.deref_val(s2, b) if ctl == OK else b
                    if ctl != OK:
                        out.append((ctl, b, s2))
                    elif b[0] == "bool":
                        out.append((OK, v if b[1] else none(), s2))
                    else:
                        out += [(OK, v, s2), (OK, none(), s2)]
                return out
        if callee == "core::option::Option::<T>::or_else":
            v = self.deref_val(st, args[0])
            if v[0] == "enum" and v[1] == SOME:
                return [(OK, v, st)]
            if v[0] == "enum" and v[1] == NONE:
                return self.apply(args[1], [], st, n)
            return [(OK, v, st)] + self.apply(args[1], [], st, n)
        if callee == "core::option::Option::<T>::or":
            v = self.deref_val(st, args[0])
            if v[0] == "enum" and v[1] == SOME:
                return [(OK, v, st)]
            if v[0] == "enum" and v[1] == NONE:
                return [(OK, args[1], st)]
        if callee == "core::option::Option::<T>::map_or_else":
            v = self.deref_val(st, args[0])
            if v[0] == "enum" and v[1] == NONE:
                return self.apply(args[1], [], st, n)
            if v[0] == "enum" and v[1] == SOME:
                return self.apply(args[2], [v[2][0]], st, n)
            return self.apply(args[1], [], st, n) + self.apply(args[2], [unk("map_or_else")], st, n)
        if callee == "core::option::Option::<T>::unwrap_or_else":
            v = self.deref_val(st, args[0])
            if v[0] == "enum" and v[1] == SOME:
                return [(OK, v[2][0], st)]
            if v[0] == "enum" and v[1] == NONE:
                return self.apply(args[1], [], st, n)
        if callee == "core::option::Option::<T>::filter":
            v = self.deref_val(st, args[0])
            if v[0] == "enum" and v[1] == NONE:
                return [(OK, v, st)]
        if callee == "core::option::Option::<T>::map_or":
            v = self.deref_val(st, args[0])
            if v[0] == "enum" and v[1] == NONE:
                return [(OK, args[1], st)]
            if v[0] == "enum" and v[1] == SOME:
                return self.apply(args[2], [v[2][0]], st, n)
            return [(OK, args[1], st)] + self.apply(args[2], [unk("map_or")], st, n)
        if callee in ("core::cmp::PartialEq::eq", "core::cmp::PartialEq::ne") or (("as core::cmp::PartialEq" in callee) and callee.endswith(("::eq", "::ne")) and callee not in self.facts.fns):
            l, r = self.deref_val(st, args[0]), self.deref_val(st, args[1])
            v = self.binop("==" if callee.endswith("eq") else "!=", l, r)
            return [(OK, v, st)]
        if callee.startswith("core::panicking::") or callee.startswith("std::rt::begin_panic") or callee == "core::option::unwrap_failed":
            return [(PANIC, (callee, n.get("sp")), st)]
        return None
