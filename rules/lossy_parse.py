"""analysis of the lossy deb822 reader (src/lossy.rs Deb822::from_str) with the token-cursor interpreter.
Semantic actions are recognised by type: pushing a Field = field start, writing to Field.value = value text,
pushing a Paragraph = paragraph end.  Field values are abstracted to a 3-state automaton over
{V = text of a value token, N = newline}: start / afterV / afterN."""
import hirai, tokcursor, lexer, deb822_parse
from hirai import OK, RET, PANIC, OKV, ERRV, SOME, NONE, some, none, unk, UNIT
from tokcursor import EOF

KIND = deb822_parse.KIND
ENTRY_KEY = "<deb822_lossless::lossy::Deb822 as core::str::traits::FromStr>::from_str"
FIELD = "deb822_lossless::lossy::Field"
PARA = "deb822_lossless::lossy::Paragraph"


def lstr(state):
    return ("abs", "lstr", state)     # 'start' | 'afterV' | 'afterN' | 'junk'


def vec(n, last=None):
    return ("struct", "__vec", (("n", ("int", n)), ("last", last if last is not None else unk("nolast"))))


class Mod(tokcursor.CursorMod):
    mon_conserve = False

    def __init__(self, facts, oracle, structure=False):
        tokcursor.CursorMod.__init__(self, facts, oracle, KIND, {"deb822_lossless::lex::lex": "fwd"}, deb822_parse.COMPOSITE)
        self.structure = structure
        self.on_consume = self._on_consume
        self.events = []

    _nl = None

    def newline_texts(self):
        """characters for which the deb822 lexer yields a NEWLINE token (from the extracted table)"""
        if Mod._nl is None:
            import lexer
            tab = lexer.extract(self.facts)
            chars = {c["char"] for c in tab["cells"] if c.get("kind") == "NEWLINE" and c.get("char") is not None}
            Mod._nl = chars or {"?"}
        return Mod._nl

    # ---- role based expectations
    def _on_consume(self, mod, I, st, k, role, sp):
        if not self.structure:
            return st
        if st.mon.get("need_field") and role in ("key-first", "key-next"):
            # the field may be recorded any time before the next field starts (its value may be collected first)
            self.report("L-structure/field", "a well-formed field name was consumed but no Field was recorded before the next field name", "", sp)
            st = st.setmon("need_field", False)
        if st.mon.get("need_value"):
            self.report("L-structure/value", "a value line of a well-formed field was consumed but its text was not added to the field's value", "", sp)
            st = st.setmon("need_value", False)
        if role in ("key-first", "key-next"):
            fp = st.mon.get("fields_in_para", 0)
            if role == "key-first" and fp != 0:
                self.report("L-structure/paragraph", "first field after a blank line joins the previous paragraph", "", sp)
            if role == "key-next" and fp == 0:
                self.report("L-structure/paragraph", "a following field of the same paragraph starts a new paragraph", "", sp)
            st = st.setmon("need_field", True).setmon("collected", False)
        elif role == "value":
            if st.mon.get("v_early"):
                st = st.setmon("v_early", False)
            else:
                st = st.setmon("need_value", True)
        return st

    def value_event(self, I, st, text, sp, assign=False):
        """text appended/assigned to a Field.value: returns new lstr state"""
        text = I.deref_val(st, text)
        return text

    def extra_intrinsic(self, I, c, args, st, n):
        sp = n.get("sp", "") if isinstance(n, dict) else ""
        a0 = I.deref_val(st, args[0]) if args else None
        if c == "alloc::vec::Vec::<T>::new":
            return [(OK, vec(0), st)]
        if c == "alloc::string::String::new":
            return [(OK, lstr("start"), st)]
        if a0 is not None and a0[0] == "struct" and a0[1] == "__vec":
            d = dict(a0[2])
            cnt = d["n"][1]
            if c == "alloc::vec::Vec::<T, A>::push" and args[0][0] == "ref":
                item = I.deref_val(st, args[1])
                s2 = I.write(st, args[0][1], vec(1 if cnt == 0 else "big", item))
                if item[0] == "struct" and item[1] == FIELD:
                    s2 = s2.setmon("need_field", False).setmon("fields_in_para", 1)
                    nm = dict(item[2]).get("name")
                    nm = I.deref_val(s2, nm) if nm else None
                    val = dict(item[2]).get("value")
                    val = I.deref_val(s2, val) if val else None
                    if self.structure and s2.mon.get("collected") and not (val is not None and val[0] == "abs" and val[1] == "lstr" and val[2] not in ("start", "junk")):
                        self.report("L-structure/value", "value text was collected for this field, but the Field is recorded with another value", str(val)[:60], sp)
                    if self.structure and nm != ("abs", "toktext", "KEY"):
                        self.report("L-structure/field-name", "the recorded field name is not the text of the KEY token", str(nm)[:60], sp)
                elif item[0] == "struct" and item[1] == PARA:
                    if self.structure and s2.mon.get("need_field"):
                        self.report("L-structure/field", "a paragraph is closed while a consumed field name has not been recorded as a Field", "", sp)
                        s2 = s2.setmon("need_field", False)
                    if self.structure and s2.mon.get("fields_in_para", 0) == 0:
                        self.report("L-structure/paragraph", "an empty paragraph is recorded", "", sp)
                    s2 = s2.setmon("fields_in_para", 0).setmon("paras", "pos")
                return [(OK, UNIT, s2)]
            if c in ("core::slice::<impl [T]>::last_mut", "core::slice::<impl [T]>::last"):
                if cnt == 0:
                    return [(OK, none(), st)]
                if args[0][0] == "ref":
                    return [(OK, some(("ref", args[0][1] + ("last",))), st)]
                return [(OK, some(d["last"]), st)]
            if c in ("alloc::vec::Vec::<T, A>::is_empty", "core::slice::<impl [T]>::is_empty"):
                return [(OK, ("bool", cnt == 0), st)]
            if c in ("alloc::vec::Vec::<T, A>::len", "core::slice::<impl [T]>::len"):
                return [(OK, ("int", cnt), st)]
            if c == "<alloc::vec::Vec<T, A> as core::ops::deref::DerefMut>::deref_mut" or c == "<alloc::vec::Vec<T, A> as core::ops::deref::Deref>::deref":
                return [(OK, args[0], st)]
            if c.endswith("IntoIterator>::into_iter") or c == "core::iter::traits::collect::IntoIterator::into_iter":
                if cnt == 0:
                    return [(OK, ("abs", "siter", (), 0), st)]
                if cnt == 1:
                    return [(OK, ("abs", "siter", (d["last"],), 0), st)]
                return [(OK, unk("vec-iter"), st)]
        if a0 is not None and a0[0] == "abs" and a0[1] == "siter" and (c.endswith("Iterator>::next") or c == "core::iter::traits::iterator::Iterator::next"):
            items, i = a0[2], a0[3]
            if i < len(items):
                s2 = I.write(st, args[0][1], ("abs", "siter", items, i + 1)) if args[0][0] == "ref" else st
                return [(OK, some(items[i]), s2)]
            return [(OK, none(), st)]
        if c == "core::str::<impl str>::parse" and n.get("ty", "").startswith("core::result::Result<deb822_lossless::lossy::Deb822"):
            return I.inline(self.facts.fns[ENTRY_KEY], [I.deref_val(st, args[0])], st)
        if c in ("core::mem::take", "core::mem::replace") and args and args[0][0] == "ref" and a0 is not None:
            if c.endswith("replace"):
                return [(OK, a0, I.write(st, args[0][1], I.deref_val(st, args[1])))]
            if a0[0] == "struct" and a0[1] == "__vec":
                return [(OK, a0, I.write(st, args[0][1], vec(0)))]
            if a0[0] == "abs" and a0[1] == "lstr":
                return [(OK, a0, I.write(st, args[0][1], lstr("start")))]
        if a0 is not None and a0[0] == "abs" and a0[1] == "lstr":
            state = a0[2]
            tgt = args[0]
            if c in ("alloc::string::String::push_str", "alloc::string::String::push"):
                add = I.deref_val(st, args[1])
                ev = None
                if add == ("char", "\n") or add == ("str", "\n"):
                    ev = "N"
                elif add[0] == "abs" and add[1] in ("toktext", "toktext-peek"):
                    k = add[2]
                    ev = "N" if k == "NEWLINE" else ("V" if k == "VALUE" else "X:" + k)
                    if k == "NEWLINE" and self.structure and self.newline_texts() != {"\n"}:
                        # the lexer also ends lines at other characters (the token text is that character): copying the
                        # token into the value makes the result depend on the input's line terminator
                        self.report("L-structure/value", "the text of a NEWLINE token (one of %s according to the lexer table) is copied into a field value; value lines must be joined with LF" % sorted(self.newline_texts()), "", sp)
                else:
                    ev = "X:" + str(add)[:30]
                ns, s2 = self.step_value(I, st, state, ev, add, sp)
                if tgt[0] == "ref":
                    s2 = I.write(s2, tgt[1], lstr(ns))
                return [(OK, UNIT, s2)]
            if c == "alloc::string::String::pop":
                if state == "afterN":
                    ns, ret = "poppedN", some(("char", "\n"))
                elif state == "start":
                    ns, ret = "start", none()
                else:
                    ns, ret = "junk", some(("abs", "valuechar"))
                    if self.structure:
                        self.report("L-structure/value", "the last character of a value line is removed (pop on a value that does not end in a newline)", "", sp)
                s2 = I.write(st, tgt[1], lstr(ns)) if tgt[0] == "ref" else st
                return [(OK, ret, s2)]
            if c in ("core::str::<impl str>::ends_with",):
                return [(OK, ("bool", state == "afterN"), st)]
            if c in ("alloc::string::String::is_empty", "core::str::<impl str>::is_empty"):
                return [(OK, ("bool", state == "start"), st)]
            if c.endswith("Deref>::deref") or c.endswith("DerefMut>::deref_mut"):
                return [(OK, args[0], st)]
        if c == "alloc::fmt::format":
            return [(OK, ("abs", "string"), st)]
        return None

    def step_value(self, I, st, state, ev, add, sp):
        s2 = st
        if ev == "V":
            if state in ("afterV",) and self.structure:
                self.report("L-structure/value", "two value lines are concatenated without a newline between them", "", sp)
            s2 = s2.setmon("collected", True)
            if add[1] == "toktext-peek":
                s2 = s2.setmon("v_early", True)
            else:
                s2 = s2.setmon("need_value", False)
            return "afterV", s2
        if ev == "N":
            return "afterN", s2
        if self.structure:
            self.report("L-structure/value", "text that is not a value line (%s) is added to a field value" % ev, "", sp)
        return "junk", s2

    def on_assign(self, I, n, place, v, st, old=None):
        # `<field>.value = t.to_string()`, or the same on a local String the value is collected in
        is_valuebuf = bool(place) and (place[-1] == "value" or (old is not None and old[0] == "abs" and old[1] == "lstr"))
        if is_valuebuf:
            v = I.deref_val(st, v)
            if v[0] == "abs" and v[1] in ("toktext", "toktext-peek"):
                old = None
                sp = n.get("sp", "")
                if v[2] == "VALUE":
                    # assignment replaces whatever was there: only legal on an empty value
                    if self.structure and old is not None and old[0] == "abs" and old[1] == "lstr" and old[2] != "start":
                        self.report("L-structure/value", "a value line overwrites earlier value text of the same field", "", sp)
                    st2 = I.write(st, place, lstr("afterV")).setmon("collected", True)
                    st2 = st2.setmon("need_value", False) if v[1] == "toktext" else st2.setmon("v_early", True)
                    prev = st.mon.get("assigned_in_field")
                    return st2
                if self.structure:
                    self.report("L-structure/value", "text of a %s token is stored as the field value" % v[2], "", sp)
                return I.write(st, place, lstr("junk"))
        return st
