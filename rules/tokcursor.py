"""E2 - token-cursor abstract interpretation of the hand-written parsers.

The token stream is abstracted to token *kinds*; texts are opaque.  The stream is decided lazily
by an oracle automaton (universal, or a well-formed grammar with roles); the analysis explores
the product (program point x finite store x oracle state) to a fixpoint.

cursor value: ('abs','cursor', orient, q, head, pw)
    orient: 'fwd' iterator order / 'rev' reversed vector (pop takes next token) / 'vecfwd' (pop takes LAST token: wrong)
    q     : oracle state (before head)
    head  : None (undecided) | kind name | 'EOF'
    pw    : None | (frozenset S, K)   constraint: tokens from S, then K (K may be 'EOF')
monitors (state.mon): builder stack, entry/paragraph flags, pending token, error count, progress ticks
"""
import hirai
from hirai import OK, RET, PANIC, BRK, CONT, SOME, NONE, OKV, ERRV, some, none, unk, UNIT

EOF = "EOF"


class Universal:
    """every sequence over the lexer's yield set"""
    def __init__(self, kinds):
        self.kinds = sorted(kinds)
        self.start = "U"

    def first(self, q):
        return [(k, None) for k in self.kinds] + [(EOF, None)]

    def step(self, q, k):
        return q, None

    def name(self):
        return "universal over %s" % self.kinds


class Dfa:
    """deterministic grammar oracle: trans[state][kind] = (next_state, role); accepting states"""
    def __init__(self, trans, start, accepting, name):
        self.trans = trans
        self.start = start
        self.accepting = set(accepting)
        self._name = name

    def first(self, q):
        out = [(k, r) for k, (nq, r) in sorted(self.trans.get(q, {}).items())]
        if q in self.accepting:
            out.append((EOF, None))
        return out

    def step(self, q, k):
        nq, role = self.trans[q][k]
        return nq, role

    def name(self):
        return self._name

    def can_reach(self, q, S, K):
        """is there a path from q through tokens in S* followed by K (or EOF acceptance if K==EOF)"""
        seen, work = set(), [q]
        while work:
            x = work.pop()
            if x in seen:
                continue
            seen.add(x)
            if K == EOF:
                if x in self.accepting:
                    return True
            elif K in self.trans.get(x, {}):
                return True
            for k, (nq, r) in self.trans.get(x, {}).items():
                if k in S:
                    work.append(nq)
        return False


def can_reach(oracle, q, S, K):
    if isinstance(oracle, Universal):
        return True
    return oracle.can_reach(q, S, K)


class CursorMod:
    def __init__(self, facts, oracle, kind_enum, lex_fns, composite_kinds=(), summaries=None, expect=None, strict_roles=True):
        self.facts = facts
        self.oracle = oracle
        self.kind_enum = kind_enum            # e.g. 'deb822_lossless::lex::SyntaxKind'
        self.lex_fns = lex_fns                # callee -> orientation of what it returns ('fwd' iterator / 'vec')
        self.composite = set(composite_kinds)
        self.summaries = summaries or {}      # callee -> ('peek_skipping', frozenset(S))
        self.expect = expect                  # function(role, mon) -> error string or None
        self.findings = {}                    # key -> (rule, instance, detail, loc)
        self.stats = {"consume": 0, "emit": 0, "peek": 0, "errors": 0}
        self.roles_seen = set()
        self.error_sites = {}
        self.loops_checked = set()
        self.noprogress_iters = []

    # ------------------------------------------------------------- helpers
    def kind_val(self, k):
        return ("enum", self.kind_enum + "::" + k, ())

    def kind_name(self, v):
        if v[0] == "enum" and v[1].startswith(self.kind_enum + "::"):
            return v[1].rsplit("::", 1)[-1]
        return None

    def report(self, rule, instance, detail, loc=""):
        self.findings.setdefault((rule, instance), (rule, instance, detail, loc))

    def get_cursor(self, I, st, ref):
        if ref[0] != "ref":
            v = ref
            return v if v[0] == "abs" and v[1] == "cursor" else None
        v = I.read(st, ref[1])
        while v[0] == "ref":
            ref = v
            v = I.read(st, v[1])
        return v if v[0] == "abs" and v[1] == "cursor" else None

    def cursor_place(self, I, st, ref):
        while ref[0] == "ref":
            v = I.read(st, ref[1])
            if v[0] == "ref":
                ref = v
            else:
                return ref[1]
        return None

    def decide_head(self, cur):
        """yield (kind, role, new_cursor) for each possible head"""
        _, _, orient, q, head, pw = cur
        if head is not None:
            yield head[0], head[1], cur
            return
        for k, role in self.oracle.first(q):
            if pw is not None:
                S, K = pw
                if k == K:
                    pass
                elif k in S:
                    # must still be able to reach K after this S token
                    if k != EOF:
                        nq, _ = self.oracle.step(q, k)
                        if not can_reach(self.oracle, nq, S, K):
                            continue
                else:
                    continue
            yield k, role, ("abs", "cursor", orient, q, (k, role), pw)

    def consume(self, cur, k):
        _, _, orient, q, head, pw = cur
        nq, role = self.oracle.step(q, k)
        if pw is not None:
            S, K = pw
            if k == K or k not in S:
                pw = None
        return ("abs", "cursor", orient, nq, None, pw), role

    def take_next(self, I, st, a0, cur, c, sp):
        """the next token is taken from the sequence (Iterator::next / Vec::pop): one outcome per possible head"""
        if (c.endswith("pop") and cur[2] != "rev") or (not c.endswith("pop") and cur[2] != "fwd"):
            self.report("O-conserve/order", "tokens are taken from the wrong end of the sequence", "%s on %s" % (c, cur[2]), sp)
        place = self.cursor_place(I, st, a0)
        out = []
        for k, role, ncur in self.decide_head(cur):
            if k == EOF:
                s2 = I.write(st, place, ncur) if place else st
                out.append((OK, none(), s2))
                continue
            ncur2, role2 = self.consume(ncur, k)
            self.stats["consume"] += 1
            if role2:
                self.roles_seen.add(role2)
            s2 = I.write(st, place, ncur2) if place else st
            s2 = self.tick(s2)
            pend = s2.mon.get("pending")
            if pend is not None and self.mon_conserve:
                self.report("O-conserve/drop", "token %s is consumed while the previously consumed %s was never added to the tree" % (k, pend[0]), "", sp)
            if self.mon_conserve or self.keep_pending:
                s2 = s2.setmon("pending", (k, role2))
            if self.on_consume is not None:
                s2 = self.on_consume(self, I, s2, k, role2, sp)
            out.append((OK, some(("tuple", (self.kind_val(k), ("abs", "toktext", k)))), s2))
        return out

    def tick(self, st):
        s = st.copy()
        for key in list(s.mon):
            if isinstance(key, tuple) and key[0] == "tick":
                s.mon[key] = True
        return s

    # ------------------------------------------------------------- intrinsics
    def intrinsic(self, I, callee, args, st, n):
        c = callee
        sp = n.get("sp", "") if isinstance(n, dict) else ""
        a0 = args[0] if args else None
        d0 = I.deref_val(st, a0) if a0 is not None else None

        # ---- stream construction
        if c in self.lex_fns:
            kind = self.lex_fns[c]
            return [(OK, ("abs", "cursor", kind, self.oracle.start, None, None), st)]
        if d0 is not None and d0[0] == "abs" and d0[1] == "cursor":
            cur = d0
            if c == "core::iter::traits::iterator::Iterator::map" and cur[2] == "fwd":
                # token-wise map: must preserve (kind, text)
                tokv = ("tuple", (("abs", "anykind"), ("abs", "toktext", "any")))
                res = I.apply(args[1], [tokv], st, n)
                ok = len(res) == 1 and res[0][0] == OK and res[0][1] == tokv
                if not ok:
                    self.report("O-conserve/map", "token stream mapped through a closure that changes tokens", str([r[1] for r in res])[:200], sp)
                return [(OK, cur, st)]
            if c in ("core::iter::traits::iterator::Iterator::collect",) and cur[2] == "fwd":
                return [(OK, ("abs", "cursor", "vecfwd", cur[3], cur[4], cur[5]), st)]
            if c == "core::iter::traits::iterator::Iterator::peekable" or c == "core::iter::traits::iterator::Iterator::by_ref" or c.endswith("IntoIterator>::into_iter") or c == "core::iter::traits::collect::IntoIterator::into_iter":
                if c.endswith("by_ref"):
                    return [(OK, a0, st)]
                if cur[2] == "vecfwd" and "into_iter" in c:
                    return [(OK, ("abs", "cursor", "fwd", cur[3], cur[4], cur[5]), st)]
                return [(OK, cur if a0[0] != "ref" or "into_iter" not in c else a0, st)]
            if c == "core::slice::<impl [T]>::reverse":
                place = self.cursor_place(I, st, a0)
                newo = {"vecfwd": "rev", "rev": "vecfwd"}.get(cur[2])
                if newo is None or place is None:
                    self.report("O-conserve/reverse", "reverse applied to a token stream that is not a vector", cur[2], sp)
                    return [(OK, UNIT, st)]
                return [(OK, UNIT, I.write(st, place, ("abs", "cursor", newo, cur[3], cur[4], cur[5])))]
            # ---- a double-ended queue filled in source order: its front is the next token
            DQ = "alloc::collections::vec_deque::VecDeque::<T, A>::"
            if c in (DQ + "front", DQ + "pop_front", DQ + "is_empty", DQ + "back", DQ + "pop_back"):
                if cur[2] != "vecfwd" or c.endswith("back"):
                    self.report("O-conserve/order", "tokens are taken from the wrong end of the sequence", "%s on %s" % (c, cur[2]), sp)
                fwd = ("abs", "cursor", "fwd", cur[3], cur[4], cur[5])
                place = self.cursor_place(I, st, a0)
                s_f = I.write(st, place, fwd) if place else st
                sub = {"front": "core::iter::adapters::peekable::Peekable::<I>::peek", "back": "core::iter::adapters::peekable::Peekable::<I>::peek",
                       "pop_front": "core::iter::traits::iterator::Iterator::next", "pop_back": "core::iter::traits::iterator::Iterator::next",
                       "is_empty": None}[c[len(DQ):]]
                if sub is None:
                    out = []
                    for k, role, ncur in self.decide_head(cur):
                        out.append((OK, ("bool", k == EOF), I.write(st, place, ncur) if place else st))
                    return out
                res = self.intrinsic(I, sub, args, s_f, n)
                out = []
                for ctl, v, s2 in res or []:
                    c2 = self.get_cursor(I, s2, a0)
                    if place and c2 is not None:
                        s2 = I.write(s2, place, ("abs", "cursor", "vecfwd", c2[3], c2[4], c2[5]))
                    out.append((ctl, v, s2))
                return out
            # ---- peek
            if c in ("core::slice::<impl [T]>::last", "core::iter::adapters::peekable::Peekable::<I>::peek"):
                if (c.endswith("last") and cur[2] != "rev") or (c.endswith("peek") and cur[2] != "fwd"):
                    self.report("O-conserve/order", "look-ahead reads the wrong end of the token sequence", "%s on %s" % (c, cur[2]), sp)
                place = self.cursor_place(I, st, a0)
                out = []
                self.stats["peek"] += 1
                for k, role, ncur in self.decide_head(cur):
                    s2 = I.write(st, place, ncur) if place else st
                    if k == EOF:
                        out.append((OK, none(), s2))
                    else:
                        out.append((OK, some(("tuple", (self.kind_val(k), ("abs", "toktext-peek", k)))), s2))
                return out
            # ---- consume
            if c in ("alloc::vec::Vec::<T, A>::pop",) or c.endswith("as core::iter::traits::iterator::Iterator>::next") or c == "core::iter::traits::iterator::Iterator::next":
                return self.take_next(I, st, a0, cur, c, sp)
            if c == "core::iter::adapters::peekable::Peekable::<I>::next_if" and cur[2] == "fwd":
                # look at the head; consume it iff the predicate holds
                place = self.cursor_place(I, st, a0)
                out = []
                self.stats["peek"] += 1
                for k, role, ncur in self.decide_head(cur):
                    s2 = I.write(st, place, ncur) if place else st
                    if k == EOF:
                        out.append((OK, none(), s2))
                        continue
                    item = ("tuple", (self.kind_val(k), ("abs", "toktext-peek", k)))
                    for ctl, r, s3 in I.apply(args[1], [item], s2, n):
                        if ctl != OK:
                            out.append((ctl, r, s3))
                        elif r == ("bool", True):
                            out.extend(self.take_next(I, s3, a0, self.get_cursor(I, s3, a0), "core::iter::traits::iterator::Iterator::next", sp))
                        elif r == ("bool", False):
                            out.append((OK, none(), s3))
                        else:
                            out.append((OK, none(), s3))
                            out.extend(self.take_next(I, s3, a0, self.get_cursor(I, s3, a0), "core::iter::traits::iterator::Iterator::next", sp))
                return out
            if c in ("core::iter::traits::iterator::Iterator::find", "core::iter::traits::iterator::Iterator::any", "core::iter::traits::iterator::Iterator::position") and cur[2] == "fwd" and a0[0] == "ref":
                # take tokens until the predicate holds (that token is taken too) or the sequence ends
                out, seen, work = [], set(), [st]
                while work:
                    s = work.pop()
                    fz = s.freeze()
                    if fz in seen:
                        continue
                    seen.add(fz)
                    if len(seen) > 20000:
                        raise hirai.Violation("state explosion in Iterator::find over the token sequence at " + sp)
                    for ctl, v, s2 in self.take_next(I, s, a0, self.get_cursor(I, s, a0), "core::iter::traits::iterator::Iterator::next", sp):
                        if ctl != OK:
                            out.append((ctl, v, s2))
                            continue
                        if v == none():
                            out.append((OK, none() if c.endswith(("find", "position")) else ("bool", False), s2))
                            continue
                        item = v[2][0]
                        for ctl2, r, s3 in I.apply(args[1], [item], s2, n):
                            if ctl2 != OK:
                                out.append((ctl2, r, s3))
                            elif r == ("bool", True):
                                out.append((OK, some(item) if c.endswith("find") else (("bool", True) if c.endswith("any") else some(unk("position"))), s3))
                            elif r == ("bool", False):
                                work.append(s3)
                            else:
                                out.append((OK, some(item) if c.endswith("find") else (("bool", True) if c.endswith("any") else some(unk("position"))), s3))
                                work.append(s3)
                return I.dedupe(out)
            if c in ("alloc::vec::Vec::<T, A>::is_empty", "core::slice::<impl [T]>::is_empty"):
                place = self.cursor_place(I, st, a0)
                out = []
                for k, role, ncur in self.decide_head(cur):
                    s2 = I.write(st, place, ncur) if place else st
                    out.append((OK, ("bool", k == EOF), s2))
                return out
            if c in self.summaries or c in self.facts.fns:
                pass      # validated summary, or a workspace function that will be inlined
            else:
                self.report("O-conserve/escape", "token sequence handed to an operation outside the cursor vocabulary: " + c, "", sp)
                return [(OK, unk("cursor-escape"), st)]
            if c in self.facts.fns and c not in self.summaries:
                return None
        # helper summaries (validated separately): fn(self) with self.tokens cursor
        if c in self.summaries:
            kindsum, S, field = self.summaries[c]
            selfv = a0
            place = None
            if selfv[0] == "ref":
                place = selfv[1] + ((field,) if field else ())
            cur = I.read(st, place) if place else None
            if cur is None or cur[0] != "abs" or cur[1] != "cursor":
                return None
            out = []
            if cur[4] is not None and cur[5] is None:
                # head already decided
                hk = cur[4][0]
                if hk not in S:
                    return [(OK, none() if hk == EOF else some(self.kind_val(hk)), st)]
            if cur[5] is not None:
                K = cur[5][1]
                return [(OK, none() if K == EOF else some(self.kind_val(K)), st)]
            # choose K: any non-S kind (or EOF) reachable after S*
            cands = set()
            for k, _ in self.all_kinds():
                if k not in S and can_reach(self.oracle, cur[3], S, k):
                    cands.add(k)
            for K in sorted(cands):
                head = cur[4]
                if head is not None and head[0] not in S and head[0] != K:
                    continue
                ncur = ("abs", "cursor", cur[2], cur[3], head, (frozenset(S), K))
                out.append((OK, none() if K == EOF else some(self.kind_val(K)), I.write(st, place, ncur)))
            return out
        return self.extra_intrinsic(I, c, args, st, n)

    mon_conserve = True
    keep_pending = False
    on_consume = None

    def all_kinds(self):
        if isinstance(self.oracle, Universal):
            return [(k, None) for k in self.oracle.kinds] + [(EOF, None)]
        ks = set()
        for q, t in self.oracle.trans.items():
            ks |= set(t)
        return [(k, None) for k in sorted(ks)] + [(EOF, None)]

    def extra_intrinsic(self, I, c, args, st, n):
        return None

    # ------------------------------------------------------------- loop progress
    def on_loop_iter(self, I, n, st):
        return st.setmon(("tick", n["id"]), False)

    def fork_bool(self, I, n, v, s):
        return None


class BuilderMixin:
    """rowan GreenNodeBuilder + error vector monitors (lossless parsers)"""

    def builder_intrinsic(self, I, c, args, st, n):
        sp = n.get("sp", "") if isinstance(n, dict) else ""
        if c == "rowan::green::builder::GreenNodeBuilder::<'_>::new":
            return [(OK, ("abs", "builder"), st.setmon("stack", ()).setmon("roots", 0))]
        if c == "rowan::green::builder::GreenNodeBuilder::<'_>::start_node":
            k = self.rawkind(I, st, args[1])
            stack = st.mon.get("stack", ())
            if len(stack) >= 8:
                self.report("O-balance/depth", "node stack exceeds depth 8 (unbounded nesting?)", str(stack), sp)
                return [(OK, UNIT, st)]
            s2 = st.setmon("stack", stack + (k,))
            if self.on_start is not None:
                s2 = self.on_start(self, I, s2, k, sp)
            return [(OK, UNIT, s2)]
        if c == "rowan::green::builder::GreenNodeBuilder::<'_>::finish_node":
            stack = st.mon.get("stack", ())
            if not stack:
                self.report("O-balance/underflow", "finish_node with no open node", "", sp)
                return [(PANIC, ("finish_node underflow", sp), st)]
            s2 = st.setmon("stack", stack[:-1])
            if len(stack) == 1:
                s2 = s2.setmon("roots", min(2, s2.mon.get("roots", 0) + 1))
            if self.on_finish is not None:
                s2 = self.on_finish(self, I, s2, stack[-1], sp)
            return [(OK, UNIT, s2)]
        if c == "rowan::green::builder::GreenNodeBuilder::<'_>::token":
            k = self.rawkind(I, st, args[1])
            text = I.deref_val(st, args[2])
            pend = st.mon.get("pending")
            self.stats["emit"] += 1
            stack = st.mon.get("stack", ())
            if not stack:
                self.report("O-balance/token-outside", "token added with no open node", "", sp)
            if pend is None:
                self.report("O-conserve/invent", "builder.token(%s, ..) adds text that was not consumed from the input" % k, str(text)[:60], sp)
                return [(OK, UNIT, st)]
            if text != ("abs", "toktext", pend[0]) or k != pend[0]:
                self.report("O-conserve/alter", "consumed token %s is added to the tree as (%s, %s)" % (pend[0], k, str(text)[:40]), "", sp)
            s2 = st.setmon("pending", None)
            if self.on_token is not None:
                s2 = self.on_token(self, I, s2, pend[0], pend[1], stack, sp)
            return [(OK, UNIT, s2)]
        if c == "rowan::green::builder::GreenNodeBuilder::<'_>::finish":
            stack = st.mon.get("stack", ())
            if stack or st.mon.get("roots", 0) != 1:
                self.report("O-balance/finish", "builder.finish() with open nodes %s / %s root nodes" % (list(stack), st.mon.get("roots")), "", sp)
            if st.mon.get("pending") is not None:
                self.report("O-conserve/drop", "last consumed token %s never added to the tree" % (st.mon["pending"][0],), "", sp)
            # every token must have been consumed when the tree is finished: the cursor must be known to be at EOF
            for cur in self.cursors_in(st):
                if cur[4] is None or cur[4][0] != EOF:
                    rest = "any tokens" if cur[5] is None else "tokens of %s" % sorted(cur[5][0])
                    self.report("O-conserve/exhaust", "builder.finish() is reached while %s may still be unread (they would be missing from the tree)" % rest, "", sp)
            return [(OK, ("abs", "green"), st)]
        # error vector: Vec<String>
        if c == "alloc::vec::Vec::<T>::new" and n.get("ty") == "alloc::vec::Vec<alloc::string::String>":
            return [(OK, ("abs", "strvec", 0), st)]
        if c == "alloc::vec::Vec::<T, A>::push":
            v = I.deref_val(st, args[0])
            if v[0] == "abs" and v[1] == "strvec":
                self.stats["errors"] += 1
                s2 = I.write(st, args[0][1], ("abs", "strvec", "many")) if args[0][0] == "ref" else st
                s2 = s2.setmon("err", True)
                if self.on_error is not None:
                    s2 = self.on_error(self, I, s2, sp)
                return [(OK, UNIT, s2)]
        if c in ("alloc::vec::Vec::<T, A>::is_empty",):
            v = I.deref_val(st, args[0])
            if v[0] == "abs" and v[1] == "strvec":
                return [(OK, ("bool", v[2] == 0), st)]
        return None

    on_start = None
    def cursors_in(self, st):
        out = []

        def walk(v, depth=0):
            if not isinstance(v, tuple) or depth > 6:
                return
            if len(v) == 6 and v[0] == "abs" and v[1] == "cursor":
                out.append(v)
                return
            for x in v:
                if isinstance(x, tuple):
                    walk(x, depth + 1)
        for v in st.store.values():
            walk(v)
        return out

    parse_fns = ("deb822_lossless::lossless::parse", "debian_control::lossless::relations::parse")

    def on_return(self, I, f, v, st):
        if f.get("key") in self.parse_fns:
            st = st.setmon("err_parse", bool(st.mon.get("err")))
        return [(v, st)]

    on_finish = None
    on_token = None
    on_error = None

    def rawkind(self, I, st, v):
        v = I.deref_val(st, v)
        nm = self.kind_name(v)
        return nm if nm is not None else "?" + str(v)[:30]


class LoopProgressInterp(hirai.Interp):
    """per-loop progress ticks; a cycle of loop-head states made only of iterations that consume
    nothing is reported (O-progress): with a finite token sequence every other loop terminates."""

    def e_Loop(self, n, st):
        mod = self.module
        lid = n["id"]
        seen = {}
        work = [st]
        out = []
        key = ("tick", n.get("sp", str(lid)))
        edges = {}      # from-state index -> set of to-state indexes reached without progress
        reps = []
        while work:
            item = work.pop()
            src, s = item if isinstance(item, tuple) else (None, item)
            s = s.setmon(key, False)
            fz = s.freeze()
            if fz in seen:
                idx = seen[fz]
                if src is not None:
                    edges.setdefault(src, set()).add(idx)
                continue
            idx = len(reps)
            seen[fz] = idx
            reps.append(s)
            if src is not None:
                edges.setdefault(src, set()).add(idx)
            self.states_seen += 1
            if len(seen) > 100000:
                raise hirai.Violation("loop state explosion at " + n.get("sp", "?"))
            body_ids = self.bound_ids(n["body"])
            for ctl, v, s2 in self.eval(n["body"], s):
                back = (ctl == OK) or (ctl == CONT and v == lid)
                if back:
                    progressed = bool(s2.mon.get(key, False))
                    work.append((None if progressed else idx, self.drop_locals(s2, body_ids)))
                elif ctl == BRK and isinstance(v, tuple) and v[0] == "__brk__" and v[1] == lid:
                    s3 = self.drop_locals(s2, body_ids).copy()
                    s3.mon.pop(key, None)
                    out.append((OK, v[2], s3))
                else:
                    s3 = s2.copy()
                    s3.mon.pop(key, None)
                    out.append((ctl, v, s3))
        # cycle among no-progress edges?
        color = {}

        def dfs(u):
            color[u] = 1
            for w in edges.get(u, ()):
                if color.get(w) == 1:
                    return w
                if w not in color:
                    r = dfs(w)
                    if r is not None:
                        return r
            color[u] = 2
            return None
        import sys
        sys.setrecursionlimit(max(sys.getrecursionlimit(), 20000))
        for u in (list(edges) if n.get("src") != "ForLoop" else []):     # for loops are driven by their (finite) iterator
            if u not in color:
                r = dfs(u)
                if r is not None:
                    mod.report("O-progress/loop", "%s loop in %s can iterate forever: an iteration returns to an earlier state without consuming a token" % (n.get("src", "?"), self.callstack[-1] if self.callstack else "?"),
                               short_state(reps[r]), n.get("sp", ""))
                    break
        self.loop_states[id(n)] = max(self.loop_states.get(id(n), 0), len(seen))
        mod.loops_checked.add((self.callstack[-1] if self.callstack else "?", n.get("sp", "")))
        return self.dedupe(out)


def short_state(s):
    items = []
    for k, v in sorted(s.store.items(), key=lambda kv: repr(kv[0])):
        if v[0] == "abs" and v[1] == "cursor":
            items.append("cursor(q=%s head=%s pw=%s)" % (v[3], v[4], v[5]))
    items.append("mon=%s" % {k: v for k, v in s.mon.items() if not (isinstance(k, tuple) and k[0] == "tick")})
    return "; ".join(items)[:400]
