"""E4 - deb822 lexer transition table by abstract interpretation of lex_'s closure.

The closure is evaluated for every reachable mode (valuation of its captured non-input variables
over a finite domain) x every character class (all 128 ASCII characters + one 2-, 3- and 4-byte
scalar).  The remaining input is abstract: only its first character is known.
Result per cell: token kind, consumption form k, next mode; plus obligations
  O-partition  token text and new input are the two halves of ONE split of the old input
  O-boundary   the split index is a char boundary for this first character
  O-nonempty   the consumed prefix is non-empty
"""
import hirai
from hirai import OK, RET, PANIC, SOME, NONE, some, none, unk, UNIT

CHARS = [chr(i) for i in range(128)] + ["é", "€", "\U0001F600"]


def utf8len(c):
    return len(c.encode("utf-8"))


def cname(c):
    o = ord(c)
    if o < 33 or o == 127:
        return {9: "TAB", 10: "LF", 13: "CR", 32: "SPACE"}.get(o, "0x%02x" % o)
    if o > 127:
        return "U+%04X(%d bytes)" % (o, utf8len(c))
    return c


class LexMod:
    def __init__(self, facts):
        self.facts = facts
        self.captured = None      # (closure value, state) at from_fn
        self.cur_char = None
        self.viol = []
        self.last_runset = None

    # abstract input: ('abs','in')  ; pieces: ('abs','pre',k) ('abs','suf',k) ; index ('abs','idx',k)
    def intrinsic(self, I, callee, args, st, n):
        c = callee
        a0 = I.deref_val(st, args[0]) if args else None
        if c == "core::iter::sources::from_fn::from_fn":
            self.captured = (args[0], st)
            return [(OK, ("abs", "lexer-iter"), st)]
        if a0 is not None and a0[0] == "abs" and a0[1] == "in":
            if c == "core::str::<impl str>::chars":
                return [(OK, ("abs", "chars-of-in"), st)]
            if c == "core::str::<impl str>::len":
                return [(OK, ("abs", "idx", ("len",)), st)]
            if c == "core::str::<impl str>::find":
                pred = args[1]
                # the run set: characters on which the stop predicate is false (evaluated for every class)
                runset = []
                for ch in CHARS:
                    rs = I.apply(pred, [("char", ch)], st, n)
                    if len(rs) == 1 and rs[0][0] == OK and rs[0][1] == ("bool", False):
                        runset.append(ch)
                    elif not (len(rs) == 1 and rs[0][0] == OK and rs[0][1] == ("bool", True)):
                        runset = None
                        break
                self.last_runset = frozenset(runset) if runset is not None else None
                # evaluate the stop predicate on the first character
                res = I.apply(pred, [("char", self.cur_char)], st, n)
                out = []
                for ctl, r, s in res:
                    if ctl != OK or r[0] != "bool":
                        out.append((OK, ("abs", "findres", "undecided"), s))
                    elif r[1]:
                        out.append((OK, ("abs", "findres", "at0"), s))        # stop predicate true on first char: index 0
                    else:
                        out.append((OK, ("abs", "findres", "later"), s))      # Some(i>0) or None
                return out
            if c == "core::str::<impl str>::split_at":
                k = I.deref_val(st, args[1])
                kk = self.index_form(k)
                return [(OK, ("tuple", (("abs", "pre", kk), ("abs", "suf", kk))), st)]
            if c == "core::str::<impl str>::is_empty":
                return [(OK, ("bool", False), st)]
        if a0 is not None and a0[0] == "abs" and a0[1] == "chars-of-in":
            if c.endswith("Iterator>::next") or c == "core::iter::traits::iterator::Iterator::next":
                if self.cur_char is None:
                    return [(OK, none(), st)]
                return [(OK, some(("char", self.cur_char)), st)]
        if a0 is not None and a0[0] == "abs" and a0[1] == "findres":
            if c in ("core::option::Option::<T>::unwrap_or",):
                d = I.deref_val(st, args[1])
                if d == ("abs", "idx", ("len",)):
                    return [(OK, ("abs", "idx", ("find", a0[2])), st)]
                return [(OK, ("abs", "idx", ("find-other-default", a0[2])), st)]
        if a0 is not None and a0[0] == "abs" and a0[1] == "pre":
            if c == "core::str::<impl str>::len":
                # length of a consumed prefix: positive iff prefix non-empty
                kk = a0[2]
                if self.nonempty(kk) is True:
                    return [(OK, ("int", "pos"), st)]
                return [(OK, unk("prelen"), st)]
        if a0 is not None and a0[0] == "char":
            ch = a0[1]
            if c == "core::char::methods::<impl char>::len_utf8":
                return [(OK, ("abs", "idx", ("lenutf8",)), st)]
            tbl = {
                "is_ascii_graphic": lambda x: 33 <= ord(x) <= 126,
                "is_ascii_alphanumeric": lambda x: x.isascii() and x.isalnum(),
                "is_ascii_alphabetic": lambda x: x.isascii() and x.isalpha(),
                "is_ascii_digit": lambda x: x.isascii() and x.isdigit(),
                "is_ascii_whitespace": lambda x: x in " \t\n\r\x0c",
                "is_ascii_control": lambda x: ord(x) < 32 or ord(x) == 127,
                "is_ascii": lambda x: ord(x) < 128,
                "is_whitespace": lambda x: x.isspace(),
                "is_alphanumeric": lambda x: x.isalnum(),
                "is_ascii_punctuation": lambda x: x.isascii() and (33 <= ord(x) <= 47 or 58 <= ord(x) <= 64 or 91 <= ord(x) <= 96 or 123 <= ord(x) <= 126),
                "is_ascii_uppercase": lambda x: "A" <= x <= "Z",
                "is_ascii_lowercase": lambda x: "a" <= x <= "z",
            }
            m = c.rsplit("::", 1)[-1]
            if c.startswith("core::char::methods::<impl char>::") and m in tbl:
                return [(OK, ("bool", tbl[m](ch)), st)]
        return None

    def index_form(self, k):
        if k[0] == "int":
            return ("bytes", k[1])
        if k[0] == "abs" and k[1] == "idx":
            return k[2]
        return ("unknown", str(k)[:40])

    def nonempty(self, kk):
        if kk[0] == "bytes":
            return kk[1] != 0 and kk[1] is not None
        if kk[0] == "lenutf8":
            return True
        if kk[0] == "find":
            return {"later": True, "at0": False}.get(kk[1])
        return None

    def boundary(self, kk):
        if kk[0] == "bytes":
            if kk[1] in ("big", "pos"):
                return None
            return kk[1] == utf8len(self.cur_char) or kk[1] == 0
        if kk[0] in ("lenutf8", "find"):
            return True
        return None

    def index(self, I, n, base, idx, st):
        # &input[1..]  -> Index(input, Range{start: 1})
        b = I.deref_val(st, base)
        if b[0] == "abs" and b[1] == "in":
            i = I.deref_val(st, idx)
            if i[0] == "struct" and i[1].endswith("RangeFrom"):
                start = dict(i[2]).get("start")
                return [(OK, ("abs", "suf", self.index_form(start)), st)]
            return [(OK, ("abs", "slice-unknown"), st)]
        return None

    def abs_equal(self, I, a, b):
        return None


def capture_vars(closure_node):
    """ids of locals referenced in the closure body but bound outside it"""
    import facts as FX
    bound = set()
    used = {}
    for x in FX.walk(closure_node["body"]):
        if x.get("p") == "Bind":
            bound.add(x["id"])
        if x.get("k") == "Path" and x["res"].get("k") == "Local":
            used.setdefault(x["res"]["id"], (x["res"]["name"], x.get("ty", "")))
    for p in closure_node["params"]:
        for x in FX.walk(p):
            if x.get("p") == "Bind":
                bound.add(x["id"])
    return {i: nt for i, nt in used.items() if i not in bound}


class RecInterp(hirai.Interp):
    """records which workspace functions the table extraction interpreted (helpers the lexer closure calls)"""
    inlined = None

    def _inline(self, f, args, st):
        if self.inlined is not None:
            self.inlined.add(f["key"])
        return super()._inline(f, args, st)


def extract(F, fn_key="deb822_lossless::lex::lex_"):
    """returns dict with table, obligations, initial modes"""
    f = F.fn(fn_key)
    res = {"cells": [], "problems": [], "modes": [], "inits": {}, "inlined": set()}
    if f is None:
        res["problems"].append(("anchor", "lex_ not found"))
        return res
    # run lex_ for start_of_line in {true,false} up to the from_fn call
    inits = {}
    closure_val = None
    base_state = None
    cap = None
    for sol in (True, False):
        mod = LexMod(F)
        I = hirai.Interp(F, mod)
        I.inline(f, [("abs", "in"), ("bool", sol)], hirai.State(depth=0))
        if mod.captured is None:
            res["problems"].append(("anchor", "lex_ does not build its iterator with iter::from_fn(closure) any more"))
            return res
        cv, st = mod.captured
        cnode = I.closures[cv[1]]
        cap = capture_vars(cnode)
        inits[sol] = st
        closure_val, base_state, base_I = cv, st, I
    # classify captured variables
    depth = closure_val[2]
    input_ids = [i for i, (nm, ty) in cap.items() if ty in ("&str", "&'_ str") or "str" in ty and "&" in ty]
    mode_ids = sorted(i for i in cap if i not in input_ids)
    if len(input_ids) != 1:
        res["problems"].append(("anchor", "cannot identify the remaining-input variable among captured %s" % cap))
        return res
    in_id = input_ids[0]
    res["mode_vars"] = [cap[i][0] for i in mode_ids]

    def mode_of(st):
        return tuple(st.store.get(("L", depth, i), unk("uninit")) for i in mode_ids)

    work = []
    for sol, st in inits.items():
        m = mode_of(st)
        res["inits"]["lex" if sol else "lex_inline"] = m
        work.append(m)
    seen = {}
    cnode = base_I.closures[closure_val[1]]
    while work:
        m = work.pop()
        if m in seen:
            continue
        seen[m] = True
        for ch in CHARS + [None]:
            mod = LexMod(F)
            mod.cur_char = ch
            I = RecInterp(F, mod)
            I.inlined = res["inlined"]
            I.closures = base_I.closures
            st = base_state.copy()
            for i, v in zip(mode_ids, m):
                st.store[("L", depth, i)] = v
            st.store[("L", depth, in_id)] = ("abs", "in")
            outs = I.apply(closure_val, [], st, {})
            if len(outs) != 1:
                res["problems"].append(("nondeterministic", "mode %s char %s: %d outcomes %s" % (m, cname(ch) if ch else "EOF", len(outs), [str(o[1])[:60] for o in outs])))
                continue
            ctl, v, s2 = outs[0]
            cell = {"mode": m, "char": ch, "ctl": ctl}
            if ctl != OK:
                cell["panic"] = str(v)
                res["cells"].append(cell)
                continue
            if ch is None:
                cell["eof_none"] = (v == none())
                res["cells"].append(cell)
                continue
            if not (v[0] == "enum" and v[1] == SOME and v[2][0][0] == "tuple"):
                cell["bad_value"] = str(v)[:100]
                res["cells"].append(cell)
                continue
            kind, text = v[2][0][1]
            newin = s2.store.get(("L", depth, in_id))
            cell["kind"] = kind[1].rsplit("::", 1)[-1] if kind[0] == "enum" else str(kind)
            nm = mode_of(s2)
            cell["next"] = nm
            # O-partition
            k_in = newin[2] if newin[0] == "abs" and newin[1] == "suf" else None
            if text[0] == "abs" and text[1] == "pre":
                k_t = text[2]
                cell["partition"] = (k_in is not None and k_in == k_t)
            elif text[0] in ("str",) and k_in is not None and k_in[0] == "bytes":
                # literal text: must equal the consumed bytes
                cell["partition"] = (text[1] == ch and k_in[1] == utf8len(ch))
                k_t = k_in
            else:
                cell["partition"] = False
                k_t = k_in or ("unknown",)
            cell["k"] = k_t
            cell["runset"] = mod.last_runset if k_t and k_t[0] == "find" else None
            cell["boundary"] = mod.boundary(k_t) if k_t else None
            cell["nonempty"] = mod.nonempty(k_t) if k_t else None
            res["cells"].append(cell)
            if any(is_unknown(x) for x in nm):
                res["problems"].append(("mode-unknown", "mode %s char %s leads to undetermined mode %s" % (m, cname(ch), nm)))
            elif nm not in seen:
                work.append(nm)
    res["modes"] = list(seen)
    return res


def is_unknown(v):
    return v[0] == "unk"


def mode_str(mode_vars, m):
    def sv(v):
        if v[0] == "bool":
            return "T" if v[1] else "F"
        if v[0] == "int":
            return str(v[1])
        return str(v)
    return ",".join("%s=%s" % (n, sv(v)) for n, v in zip(mode_vars, m))


def symlex(tab, entry, pieces):
    """table-driven lexing of a symbolic string (literal pieces + opaque atoms) with the EXTRACTED transition table.
    An atom behaves like a run of ordinary value characters (representative 'x'); returns list of (kind, pieces) or None."""
    table = {}
    for c in tab["cells"]:
        if c["char"] is not None:
            table[(c["mode"], c["char"])] = c
    mode = tab["inits"].get(entry)
    if mode is None:
        return None
    elems = []
    for p in pieces:
        if p[0] == "lit":
            elems.extend(("c", ch) for ch in p[1])
        else:
            elems.append(("a", p))
    out = []
    i = 0
    guard = 0
    while i < len(elems):
        guard += 1
        if guard > 10000:
            return None
        e = elems[i]
        ch = e[1] if e[0] == "c" else "x"
        if ch not in CHARS:
            ch = "é" if utf8len(ch) == 2 else ("€" if utf8len(ch) == 3 else "\U0001F600")
        cell = table.get((mode, ch))
        if cell is None or "kind" not in cell:
            return None
        k = cell.get("k") or ("?",)
        text = [e]
        i += 1
        if k[0] == "find":
            rs = cell.get("runset") or frozenset()
            while i < len(elems):
                e2 = elems[i]
                c2 = e2[1] if e2[0] == "c" else "x"
                c2k = c2 if c2 in CHARS else ("é" if utf8len(c2) == 2 else ("€" if utf8len(c2) == 3 else "\U0001F600"))
                if c2k in rs:
                    text.append(e2)
                    i += 1
                else:
                    break
        elif k[0] not in ("bytes", "lenutf8"):
            return None
        pcs = []
        for t in text:
            pcs.append(("lit", t[1]) if t[0] == "c" else t[1])
        out.append((cell["kind"], pcs))
        mode = cell["next"]
    return out
