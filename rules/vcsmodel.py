"""String positions, slicing and regex matches over symbolic strings (for ParsedVcs::from_str, C18).

A position / length is a linear form  ('abs','slen', atoms, const)  = sum of the byte lengths of the named atoms
plus a constant number of bytes.  Slicing a symbolic string at such a position is decided by walking the string's
units (characters and atoms) until the accumulated length equals the position syntactically; a position that falls
inside an atom (or past the end) is not decided -> unknown value (and a panic outcome for the past-the-end case
when it is certain)."""
import hirai, symstr, roundtrip, symregex
from hirai import OK, PANIC, some, none, unk, SOME, NONE, OKV, ERRV, UNIT

COW = "alloc::borrow::Cow::"


def slen(atoms, const):
    if not atoms:
        return hirai.mkint(const)
    return ("abs", "slen", tuple(sorted(atoms)), const)


def as_slen(v):
    if v[0] == "int" and isinstance(v[1], int):
        return ((), v[1])
    if v[0] == "abs" and v[1] == "slen":
        return (v[2], v[3])
    return None


def unit_len(u):
    return ((), len(u[1].encode("utf-8"))) if u[0] == "c" else ((u[1],), 0)


def length_of(us):
    atoms, const = [], 0
    for u in us:
        a, c = unit_len(u)
        atoms += list(a)
        const += c
    return tuple(sorted(atoms)), const


def cut(us, pos):
    """unit index k with length(us[:k]) == pos, 'beyond' when pos is certainly past the end, or None (undecided)"""
    want = (tuple(sorted(pos[0])), pos[1])
    atoms, const = [], 0
    for k in range(len(us) + 1):
        if (tuple(sorted(atoms)), const) == want:
            return k
        if k < len(us):
            a, c = unit_len(us[k])
            atoms += list(a)
            const += c
    total = (tuple(sorted(atoms)), const)
    if total[0] == want[0] and want[1] > total[1]:
        return "beyond"
    return None


class VcsMod(roundtrip.RTMod):
    def uncow(self, I, st, a):
        v = I.deref_val(st, a)
        if v is not None and v[0] == "enum" and v[1] in (COW + "Owned", COW + "Borrowed") and v[2]:
            return I.deref_val(st, v[2][0])
        return a

    def pieces(self, I, st, a):
        v = I.deref_val(st, self.uncow(I, st, a))
        return symstr.pieces_of(v) if v is not None and v[0] in ("str", "sstr", "char") else None

    def intrinsic(self, I, callee, args, st, n):
        c = callee
        args = [self.uncow(I, st, a) for a in args]
        a0 = I.deref_val(st, args[0]) if args else None
        if c == "regex::regex::string::Regex::find" and a0 is not None and a0[0] == "abs" and a0[1] == "regex":
            p = self.pieces(I, st, args[1])
            if p is None:
                return [(OK, unk("regex-find"), st)]
            try:
                r = symregex.find(a0[2], p)
            except (symregex.Undecided, symregex.Unsupported) as e:
                return [(OK, unk("regex-find: %s" % e), st)]
            if r is None:
                return [(OK, none(), st)]
            return [(OK, some(("abs", "rmatch", tuple(r[2]), r[0], r[1])), st)]
        if a0 is not None and a0[0] == "abs" and a0[1] == "rmatch":
            us, i, j = a0[2], a0[3], a0[4]
            if c == "regex::regex::string::Match::<'h>::as_str":
                return [(OK, symstr.mk(symregex.pieces_of_units(us[i:j])), st)]
            if c == "regex::regex::string::Match::<'h>::start":
                return [(OK, slen(*length_of(us[:i])), st)]
            if c == "regex::regex::string::Match::<'h>::end":
                return [(OK, slen(*length_of(us[:j])), st)]
            if c in ("regex::regex::string::Match::<'h>::len",):
                return [(OK, slen(*length_of(us[i:j])), st)]
            if c in ("regex::regex::string::Match::<'h>::is_empty",):
                return [(OK, ("bool", i == j), st)]
        p0 = symstr.pieces_of(a0) if a0 is not None and a0[0] in ("str", "sstr") else None
        if p0 is not None:
            us = symregex.units_of(p0)
            if c in ("core::str::<impl str>::len", "alloc::string::String::len"):
                return [(OK, slen(*length_of(us)), st)]
            if c in ("core::str::<impl str>::find", "core::str::<impl str>::rfind"):
                pat = I.deref_val(st, args[1])
                pp = symstr.pieces_of(pat) if pat[0] in ("str", "sstr", "char") else None
                if pp is not None and symstr.is_concrete(pp) and symstr.concrete(pp):
                    needle = symstr.concrete(pp)
                    # an atom may hide the needle unless one of the needle's characters is outside its alphabet
                    for u in us:
                        if u[0] == "a":
                            ex = symregex.EXCLUDED.get(u[2])
                            if u[2] == "int":
                                if all(ch.isdigit() for ch in needle):
                                    return [(OK, unk("find inside atom"), st)]
                            elif ex is None or not any(ch in ex for ch in needle):
                                return [(OK, unk("find: atom <%s> may contain %r" % (u[1], needle)), st)]
                    rng = range(len(us) - len(needle) + 1)
                    for k in (rng if c.endswith("::find") else reversed(rng)):
                        if all(us[k + t] == ("c", needle[t]) for t in range(len(needle))):
                            return [(OK, some(slen(*length_of(us[:k]))), st)]
                    return [(OK, none(), st)]
                return [(OK, unk("find"), st)]
            if c == "core::str::<impl str>::split_at":
                pos = as_slen(I.deref_val(st, args[1]))
                k = cut(us, pos) if pos is not None else None
                if k == "beyond":
                    return [(PANIC, ("split_at past the end", n.get("sp") if isinstance(n, dict) else ""), st)]
                if k is None:
                    return [(OK, unk("split_at"), st)]
                return [(OK, ("tuple", (symstr.mk(symregex.pieces_of_units(us[:k])), symstr.mk(symregex.pieces_of_units(us[k:])))), st)]
        if c == "alloc::slice::<impl [T]>::concat" and a0 is not None and a0[0] in ("tuple", "array"):
            ps = [self.pieces(I, st, x) for x in a0[1]]
            if all(p is not None for p in ps):
                out = ()
                for p in ps:
                    out += tuple(p)
                return [(OK, symstr.mk(out), st)]
        if c == "<alloc::borrow::Cow<'_, T> as core::convert::AsRef<T>>::as_ref" or c.endswith("AsRef<T>>::as_ref") or c.endswith("Deref>::deref"):
            if p0 is not None:
                return [(OK, a0, st)]
        return super().intrinsic(I, c, args, st, n)

    def index(self, I, n, base, idx, st):
        p = self.pieces(I, st, base)
        i = I.deref_val(st, idx)
        if p is None or i[0] != "struct" or not i[1].startswith("core::ops::range::Range"):
            return super().index(I, n, base, idx, st)
        us = symregex.units_of(p)
        d = {k: I.deref_val(st, v) for k, v in i[2]}
        lo = as_slen(d["start"]) if "start" in d else ((), 0)
        hi = as_slen(d["end"]) if "end" in d else length_of(us)
        if lo is None or hi is None:
            return [(OK, unk("index"), st)]
        if i[1].endswith("RangeInclusive") or i[1].endswith("RangeToInclusive"):
            return [(OK, unk("index"), st)]
        a, b = cut(us, lo), cut(us, hi)
        sp = n.get("sp") if isinstance(n, dict) else ""
        if a == "beyond" or b == "beyond":
            return [(PANIC, ("slice index past the end of the string", sp), st)]
        if a is None or b is None:
            return [(OK, unk("index"), st)]
        if a > b:
            return [(PANIC, ("slice index starts after its end", sp), st)]
        return [(OK, symstr.mk(symregex.pieces_of_units(us[a:b])), st)]

    def binary(self, I, n, l, r, st):
        op = n["op"]
        if (l[0] == "abs" and l[1] == "slen") or (r[0] == "abs" and r[1] == "slen"):
            a, b = as_slen(l), as_slen(r)
            if a is None or b is None:
                return [(OK, unk("slen-arith"), st)]
            if op == "+":
                return [(OK, slen(a[0] + b[0], a[1] + b[1]), st)]
            if op == "-":
                rest = list(a[0])
                for x in b[0]:
                    if x in rest:
                        rest.remove(x)
                    else:
                        return [(OK, unk("slen-sub"), st)]
                if a[1] - b[1] < 0:
                    if not rest:
                        return [(PANIC, ("attempt to subtract with overflow", n.get("sp")), st)]
                    return [(OK, unk("slen-sub"), st)]
                return [(OK, slen(tuple(rest), a[1] - b[1]), st)]
            return [(OK, unk("slen-cmp"), st)]
        base = getattr(super(), "binary", None)
        return base(I, n, l, r, st) if base else None
