"""C01 - the lossless deb822 reader reproduces every input byte for byte; strict <=> no tolerant errors.

D1 lexer partition:   every (mode x character class) cell of lex_ (extracted by abstract interpretation)
                      returns a non-empty prefix split at a char boundary and continues with the exact suffix.
D2 parser conservation: over ALL token-kind sequences (universal oracle, fixpoint): each consumed token is
                      added to the tree unchanged exactly once, nodes balance, builder.finish() sees one root,
                      tokens are taken in input order.
D3 printing:          Display of Deb822/Paragraph/Entry writes exactly the syntax node's text().
D4 entry points:      the text reaches the lexer unmodified; strict returns Ok iff the error list is empty;
                      tolerant returns the unfiltered list; the returned tree is built from the parse's green node.
"""
import facts, hirai, tokcursor, lexer, deb822_parse
from hirai import OK, RET, PANIC, OKV, ERRV, SOME, NONE
from report import Check

ENTRIES = {
    "strict": "<deb822_lossless::lossless::Deb822 as core::str::traits::FromStr>::from_str",
    "relaxed": "deb822_lossless::lossless::Deb822::from_str_relaxed",
}
READERS = ["deb822_lossless::lossless::Deb822::read", "deb822_lossless::lossless::Deb822::read_relaxed",
           "deb822_lossless::lossless::Deb822::from_file", "deb822_lossless::lossless::Deb822::from_file_relaxed"]
FLOOR_CELLS = 524      # 4 modes x 131 character classes; today 6 modes (786 cells)


class EntryMod(deb822_parse.Mod):
    def __init__(self, facts, oracle):
        super().__init__(facts, oracle, False)
        self.lexed = []
        self.parsed = []

    def intrinsic(self, I, callee, args, st, n):
        c = callee
        if c in self.lex_fns:
            self.lexed.append(I.deref_val(st, args[0]))
        if c == "deb822_lossless::lossless::parse":
            self.parsed.append(I.deref_val(st, args[0]))
        if c in ("std::io::Read::read_to_string",) or c.endswith("::read_to_string") and len(args) == 2:
            if args[1][0] == "ref":
                return [(OK, ("enum", OKV, (("int", "pos"),)), I.write(st, args[1][1], ("abs", "text"))), (OK, ("enum", ERRV, (("abs", "ioerr"),)), st)]
        if c == "std::fs::read_to_string":
            return [(OK, ("enum", OKV, (("abs", "text"),)), st), (OK, ("enum", ERRV, (("abs", "ioerr"),)), st)]
        if c == "alloc::string::String::new":
            return [(OK, ("abs", "emptybuf"), st)]
        return super().intrinsic(I, c, args, st, n)


_shared = {}


def run_entry(F, key, oracle, args):
    """all entry points share one interpreter so that the common parse() fixpoint is computed once"""
    if "I" not in _shared:
        mod = EntryMod(F, oracle)
        _shared["I"] = tokcursor.LoopProgressInterp(F, mod, max_depth=14)
    I = _shared["I"]
    mod = I.module
    mod.parsed = []
    I.steps = 0
    outs = I.inline(F.fn(key), args, hirai.State(depth=0))
    return outs, mod, I


def run(tier):
    F = facts.Facts()
    C = Check("C01", "proof", tier, "abstract interpretation: lexer transition table (all mode x char-class cells) + token-cursor fixpoint of the parser over all token-kind sequences",
              ["rustc HIR/typeck", "rowan: text() = concatenation of builder.token texts; GreenNodeBuilder contract", "str::find/split_at contracts", "hirai interpreter"])
    # ---------------- D1 lexer
    tab = lexer.extract(F)
    for kind, msg in tab["problems"]:
        C.ob("C01/lexer-" + kind, msg[:120], False, msg)
    mv = tab.get("mode_vars", [])
    ncell = 0
    for c in tab["cells"]:
        m = lexer.mode_str(mv, c["mode"])
        if c["char"] is None:
            C.ob("C01/lexer-eof", m, c.get("ctl") == OK and c.get("eof_none"), "at end of input the lexer must yield None (got %s)" % c)
            continue
        name = "%s / %s" % (m, lexer.cname(c["char"]))
        ncell += 1
        if c["ctl"] != OK or "kind" not in c:
            C.ob("C01/lexer-total", name, False, "lexer cell does not yield a token: %s" % (c.get("panic") or c.get("bad_value")))
            continue
        C.ob("C01/O-partition", name, c["partition"] is True,
             "token %s: text and remaining input are not the two halves of one split of the input (k=%s)" % (c["kind"], c.get("k")), "src/lex.rs")
        C.ob("C01/O-boundary", name, c["boundary"] is True,
             "token %s: split index %s is not a char boundary for a first character of %d byte(s)" % (c["kind"], c.get("k"), lexer.utf8len(c["char"])), "src/lex.rs")
        C.ob("C01/O-nonempty", name, c["nonempty"] is True, "token %s: consumed prefix may be empty (k=%s)" % (c["kind"], c.get("k")), "src/lex.rs")
    C.floor("C01/lexer-cells", ncell, FLOOR_CELLS, "lexer (mode x character) cells")
    C.extra["lexer_modes"] = [lexer.mode_str(mv, m) for m in tab["modes"]]
    kinds = sorted({c["kind"] for c in tab["cells"] if c.get("kind")})
    C.sample({"lexer_table_summary": summarise(tab)})

    # ---------------- D2 + D4 parser under the universal oracle
    U = tokcursor.Universal(kinds)
    for name, key in ENTRIES.items():
        if not C.ob("C01/anchor", key, F.fn(key) is not None, "entry point not found"):
            continue
        try:
            outs, mod, I = run_entry(F, key, U, [("abs", "text")])
        except hirai.Violation as e:
            C.ob("C01/analysis", key, False, "analysis did not converge: %s" % e)
            continue
        check_run(C, F, name, key, outs, mod, I)
    for key in READERS:
        f = F.fn(key)
        if not C.ob("C01/anchor", key, f is not None, "entry point not found"):
            continue
        try:
            outs, mod, I = run_entry(F, key, U, [("abs", "source")])
        except hirai.Violation as e:
            C.ob("C01/analysis", key, False, "analysis did not converge: %s" % e)
            continue
        check_run(C, F, "relaxed" if "relaxed" in key else "strict", key, outs, mod, I, via_io=True)

    # ---------------- D3 Display
    for t in ("Deb822", "Paragraph", "Entry"):
        k = "<deb822_lossless::lossless::%s as core::fmt::Display>::fmt" % t
        f = F.fn(k)
        if not C.ob("C01/anchor", k, f is not None, "Display impl not found"):
            continue
        fm = [x for x in facts.walk(f["body"]) if x.get("k") == "Fmt"]
        ok = False
        detail = "no format template"
        if len(fm) == 1:
            p = fm[0]["p"]
            ok = len(p) == 1 and isinstance(p[0], dict) and p[0].get("t") == "new_display" and is_self_text(p[0]["a"])
            detail = "template %s" % [x if isinstance(x, str) else ("{%s}" % x.get("t")) for x in p]
        else:
            ws = [c for c in facts.calls(f["body"]) if facts.callee(c) == "core::fmt::Formatter::<'a>::write_str"]
            if len(ws) == 1 and any(is_self_text(x) for x in facts.walk(ws[0])):
                ok = True
        C.ob("C01/display-is-text", t, ok, "Display must write exactly self.0.text() (%s)" % detail, f["sp"])
        import rowanmodel
        ok2, det = rowanmodel.display_writes_text(F, f["key"])
        C.ob("C01/display-is-text", t + " (interpreted)", ok2, det, f["sp"])
    C.assumptions += ["rowan SyntaxNode::text() returns the concatenation of the token texts passed to the builder, in order",
                      "token texts are opaque to the parser (it inspects kinds only): established by the analysis vocabulary - any other use of a token is reported as an escape"]
    return C.finish("The lexer closure is abstractly interpreted for every reachable mode x 131 character classes (partition, char-boundary, non-empty); "
                    "the parser and its strict/tolerant/reader entry points are interpreted over all token-kind sequences by a fixpoint over (program point, store, monitors): "
                    "every consumed token reaches builder.token unchanged exactly once and in order, nodes balance, strict = errors.is_empty(), Display = text().")


def is_self_text(n):
    for x in facts.walk(n):
        if x.get("k") == "MCall" and (x.get("def") or "").endswith("SyntaxNode::<L>::text"):
            r = facts.peel(x["recv"])
            if r.get("k") == "Field" and r.get("name") == "0" and facts.is_local(r["e"], "self"):
                return True
    return False


def summarise(tab):
    import collections
    agg = collections.Counter()
    mv = tab.get("mode_vars", [])
    for c in tab["cells"]:
        if c["char"] is None or "kind" not in c:
            continue
        agg[(lexer.mode_str(mv, c["mode"]), c["kind"], str(c.get("k")), lexer.mode_str(mv, c["next"]))] += 1
    return ["%s --%s[%s] x%d--> %s" % (m, k, kk, n, nm) for (m, k, kk, nm), n in sorted(agg.items())]


def check_run(C, F, mode, key, outs, mod, I, via_io=False):
    short = key.split("::")[-1] if not key.startswith("<") else "Deb822::from_str"
    for (rule, inst), (r, i, detail, loc) in sorted(mod.findings.items()):
        C.ob("C01/" + rule, "%s: %s" % (short, inst), False, detail, loc)
    # the obligations that were checked and found nothing
    for rule in ("O-conserve", "O-balance", "O-progress", "O-bump"):
        bad = [k for k in mod.findings if k[0].startswith(rule)]
        C.ob("C01/%s-all-paths" % rule, short, not bad, "%d findings" % len(bad), F.fn(key)["sp"])
    C.note("parser-runs", "%s: %d outcomes, %d interpreter steps, %d loop-head states, %d consume sites visited, %d emits" % (short, len(outs), I.steps, I.states_seen, mod.stats["consume"], mod.stats["emit"]))
    # text reaches the lexer unmodified
    texts = set(mod.lexed)
    want = {("abs", "text")}
    C.ob("C01/text-unmodified", short + " -> lexer", texts == want, "the lexer is called on %s instead of the text handed to parse()" % sorted(map(str, texts)), F.fn(key)["sp"])
    C.ob("C01/text-unmodified", short + " -> parse", set(mod.parsed) == want, "parse() is called on %s instead of the caller's text" % sorted(map(str, set(mod.parsed))), F.fn(key)["sp"])
    if I.unknown_calls:
        C.note("unreviewed-external-callees", "%s: %s" % (short, sorted(I.unknown_calls)))
    n_ok = n_err = 0
    for ctl, v, s in outs:
        err = bool(s.mon.get("err_parse", s.mon.get("err")))     # errors recorded by parse() itself
        if ctl == PANIC:
            C.ob("C01/O-bump", "%s: panic reachable %s" % (short, v), False, "a panic is reachable on some token sequence: %s" % (v,), str(v[1]) if isinstance(v, tuple) and len(v) > 1 else "")
            continue
        if ctl != OK:
            C.ob("C01/outcome", "%s: unexpected control %s" % (short, ctl), False, str(v)[:200])
            continue
        if via_io:
            if v[0] == "enum" and v[1] == ERRV and "roots" not in s.mon:
                continue  # I/O error before parsing
            if mode == "relaxed" and v[0] == "enum" and v[1] == OKV:
                v = v[2][0]
        if mode == "strict":
            if v[0] == "enum" and v[1] == OKV:
                n_ok += 1
                C.ob("C01/strict-iff-no-errors", "%s: Ok with errors=%s" % (short, err), not err, "strict reader returns Ok although the parse recorded errors")
                root = v[2][0]
                C.ob("C01/tree-from-parse", "%s: Ok payload" % short, root == ("abs", "astnode", "Deb822", ("abs", "syntax-mut", ("abs", "green"))),
                     "returned document is not the mutable root over the parse's green node: %s" % str(root)[:160])
            elif v[0] == "enum" and v[1] == ERRV:
                if "roots" not in s.mon:
                    continue
                n_err += 1
                C.ob("C01/strict-iff-no-errors", "%s: Err with errors=%s" % (short, err), err, "strict reader fails although the tolerant parse recorded no error")
            else:
                C.ob("C01/outcome", "%s: value" % short, False, str(v)[:200])
        else:
            if v[0] == "enum" and v[1] == ERRV and "roots" not in s.mon:
                continue
            if v[0] == "tuple" and len(v[1]) == 2:
                root, errs = v[1]
                n_ok += 1
                C.ob("C01/relaxed-errors-unfiltered", "%s: errors=%s list=%s" % (short, err, errs), errs == ("abs", "strvec", "many" if err else 0),
                     "tolerant reader returns error list %s while the parse recorded errors=%s" % (errs, err))
                C.ob("C01/tree-from-parse", "%s: payload" % short, root == ("abs", "astnode", "Deb822", ("abs", "syntax-mut", ("abs", "green"))),
                     "returned document is not the mutable root over the parse's green node: %s" % str(root)[:160])
            else:
                C.ob("C01/outcome", "%s: value" % short, False, str(v)[:200])
    if mode == "strict":
        C.ob("C01/outcomes-covered", short, n_ok >= 1 and n_err >= 1, "expected both Ok and Err outcomes over all token sequences (ok=%d err=%d)" % (n_ok, n_err))
    else:
        C.ob("C01/outcomes-covered", short, n_ok >= 2, "expected outcomes with and without errors (got %d)" % n_ok)
