"""C08 - lossy deb822 values print to re-readable text; paragraph edits follow a list.

D1 list operations: lossy Paragraph::{get,set,insert,remove,len,is_empty} are interpreted on every field
   vector of length <= 3 over names {A,B} with symbolic values and compared with the ordered-list model.
D2 printing: Field / Paragraph / Deb822 Display are interpreted on every value shape of the property's
   domain (single line, several lines, empty value, empty first line): the output must be exactly
   NAME ':' [' ' line0] LF (' ' line_i LF)*, fields concatenated, paragraphs separated by one empty line.
   Those are the field / continuation line forms whose tokenisation and reading C03 and C06 decide, so the
   printed text is inside the language both readers accept and read back line by line."""
import itertools
import facts, hirai, symstr, roundtrip
from hirai import OK, RET, PANIC, SOME, NONE, OKV, ERRV, some, none, unk, UNIT
from report import Check

P = "deb822_lossless::lossy::"
FIELD = P + "Field"
PARA = P + "Paragraph"


class VecMod(roundtrip.RTMod):
    """Vec<T> as ('tuple', elems) stored in a place; iteration by reference yields element places"""

    def intrinsic(self, I, callee, args, st, n):
        c = callee
        a0 = I.deref_val(st, args[0]) if args else None
        if a0 is not None and a0[0] == "tuple" and args[0][0] == "ref":
            place = args[0][1]
            # follow refs to the real place
            v = I.read(st, place)
            while v[0] == "ref":
                place = v[1]
                v = I.read(st, place)
            if c.endswith("IntoIterator>::into_iter") or c == "core::iter::traits::collect::IntoIterator::into_iter" or c in ("core::slice::<impl [T]>::iter", "core::slice::<impl [T]>::iter_mut"):
                return [(OK, ("abs", "siter", tuple(("ref", place + (str(i),)) for i in range(len(a0[1]))), 0), st)]
            if c == "alloc::vec::Vec::<T, A>::push":
                return [(OK, UNIT, I.write(st, place, ("tuple", a0[1] + (I.deref_val(st, args[1]),))))]
            if c in ("alloc::vec::Vec::<T, A>::len", "core::slice::<impl [T]>::len"):
                return [(OK, hirai.mkint(len(a0[1])), st)]
            if c in ("alloc::vec::Vec::<T, A>::is_empty", "core::slice::<impl [T]>::is_empty"):
                return [(OK, ("bool", len(a0[1]) == 0), st)]
            if c == "alloc::vec::Vec::<T, A>::retain":
                def go(i, keep, s):
                    if i == len(a0[1]):
                        return [(OK, UNIT, I.write(s, place, ("tuple", tuple(keep))))]
                    out = []
                    s2, p = I.newtemp(s, a0[1][i])
                    for ctl, r, s3 in I.apply(args[1], [("ref", p)], s2, n):
                        if ctl != OK or r[0] != "bool":
                            out.append((OK, unk("retain"), s3))
                        else:
                            out.extend(go(i + 1, keep + [a0[1][i]] if r[1] else keep, s3))
                    return out
                return go(0, [], st)
            if c.endswith("Deref>::deref") or c.endswith("DerefMut>::deref_mut") or c in ("alloc::vec::Vec::<T, A>::as_slice", "alloc::vec::Vec::<T, A>::as_mut_slice"):
                return [(OK, args[0], st)]
            if c in ("core::slice::<impl [T]>::first", "core::slice::<impl [T]>::last"):
                if not a0[1]:
                    return [(OK, none(), st)]
                return [(OK, some(("ref", place + (str(0 if c.endswith("first") else len(a0[1]) - 1),))), st)]
            if c in ("core::slice::<impl [T]>::split_first",):
                if not a0[1]:
                    return [(OK, none(), st)]
                return [(OK, some(("tuple", (("ref", place + ("0",)), ("tuple", tuple(a0[1][1:]))))), st)]
        if a0 is not None and a0[0] == "tuple" and (c.endswith("IntoIterator>::into_iter") or c == "core::iter::traits::collect::IntoIterator::into_iter"):
            return [(OK, ("abs", "siter", a0[1], 0), st)]
        if a0 is not None and a0[0] == "abs" and a0[1] == "siter" and c == "core::iter::traits::iterator::Iterator::enumerate":
            return [(OK, ("abs", "siter", tuple(("tuple", (hirai.mkint(i), x)) for i, x in enumerate(a0[2][a0[3]:])), 0), st)]
        return super().intrinsic(I, c, args, st, n)


def field(name, value):
    return ("struct", FIELD, (("name", name), ("value", value)))


def para(fields):
    return ("struct", PARA, (("fields", ("tuple", tuple(fields))),))


def fields_of(I, st, v):
    v = I.deref_val(st, v)
    d = dict(v[2])
    out = []
    for f in d["fields"][1]:
        f = I.deref_val(st, f)
        fd = dict(f[2])
        out.append((symstr.show(I.deref_val(st, fd["name"])), symstr.show(I.deref_val(st, fd["value"]))))
    return out


def run(tier):
    F = facts.Facts()
    hirai.INT_BOUND = 4
    C = Check("C08", "other", tier, "abstract interpretation of the lossy paragraph operations on all short field vectors (list model) and of the Display impls on every value shape (symbolic strings)",
              ["rustc HIR/typeck", "hirai + symbolic string domain", "C03/C06 for the reading of the printed line forms"])
    mod = VecMod(F)
    for fn in ("get", "set", "insert", "remove", "len", "is_empty"):
        C.ob("C08/anchor", P + "Paragraph::" + fn, F.fn(P + "Paragraph::" + fn) is not None, "not found")
    n_eval = 0

    def call(fn, pv, extra):
        I = hirai.Interp(F, mod)
        st = hirai.State(depth=0).setroot(("T", "para"), pv)
        res = I.inline(F.fn(P + "Paragraph::" + fn), [("ref", (("T", "para"),))] + extra, st)
        return res, I

    for ln in range(0, 4):
        for names in itertools.product(["A", "B"], repeat=ln):
            model = [(nm, "<v%d>" % i) for i, nm in enumerate(names)]
            pv = para([field(symstr.lit(nm), symstr.atom("v%d" % i, "line")) for i, nm in enumerate(names)])
            lbl = list(names)
            # get
            for key in ("A", "C"):
                res, I = call("get", pv, [symstr.lit(key)])
                n_eval += 1
                want = next((v for k, v in model if k == key), None)
                got = set()
                for ctl, v, s in res:
                    v = I.deref_val(s, v)
                    if ctl == OK and v[0] == "enum" and v[1] == SOME:
                        got.add(symstr.show(I.deref_val(s, v[2][0])))
                    elif ctl == OK and v[0] == "enum":
                        got.add(None)
                    else:
                        got.add("?" + str(v)[:40])
                C.ob("C08/list-get", "get(%s) on %s" % (key, lbl), len(res) == 1 and got == {want}, "yields %s, list model: first field of that name = %s" % (got, want), F.fn(P + "Paragraph::get")["sp"])
            # set existing / new
            for key in ("A", "C"):
                res, I = call("set", pv, [symstr.lit(key), symstr.atom("new", "line")])
                n_eval += 1
                m2 = list(model)
                idx = next((i for i, (k, v) in enumerate(m2) if k == key), None)
                if idx is None:
                    m2.append((key, "<new>"))
                else:
                    m2[idx] = (key, "<new>")
                got = [fields_of(I, s, s.store[("T", "para")]) for ctl, v, s in res if ctl == OK]
                C.ob("C08/list-set", "set(%s) on %s" % (key, lbl), len(res) == 1 and got == [m2], "yields %s, list model %s" % (got, m2), F.fn(P + "Paragraph::set")["sp"])
            res, I = call("insert", pv, [symstr.lit("A"), symstr.atom("new", "line")])
            n_eval += 1
            got = [fields_of(I, s, s.store[("T", "para")]) for ctl, v, s in res if ctl == OK]
            C.ob("C08/list-insert", "insert(A) on %s" % lbl, len(res) == 1 and got == [model + [("A", "<new>")]], "yields %s (insert must always append)" % got, F.fn(P + "Paragraph::insert")["sp"])
            res, I = call("remove", pv, [symstr.lit("A")])
            n_eval += 1
            got = [fields_of(I, s, s.store[("T", "para")]) for ctl, v, s in res if ctl == OK]
            C.ob("C08/list-remove", "remove(A) on %s" % lbl, len(res) == 1 and got == [[kv for kv in model if kv[0] != "A"]], "yields %s (remove must delete every field of the name, keep the others in order)" % got, F.fn(P + "Paragraph::remove")["sp"])
            res, I = call("len", pv, [])
            C.ob("C08/list-len", "len on %s" % lbl, len(res) == 1 and res[0][1] == hirai.mkint(ln), "yields %s" % [r[1] for r in res], F.fn(P + "Paragraph::len")["sp"])
            res, I = call("is_empty", pv, [])
            C.ob("C08/list-is_empty", "is_empty on %s" % lbl, len(res) == 1 and res[0][1] == ("bool", ln == 0), "yields %s" % [r[1] for r in res], F.fn(P + "Paragraph::is_empty")["sp"])
    C.floor("C08/list-evaluations", n_eval, 80, "list-operation evaluations")

    # ---------------- printing
    A = lambda nm: symstr.atom(nm, "line")
    shapes = {
        "single line": (symstr.mk([("atom", "l0", "line")]), "<name>: <l0>\n"),
        "two lines": (symstr.mk([("atom", "l0", "line"), ("lit", "\n"), ("atom", "l1", "line")]), "<name>: <l0>\n <l1>\n"),
        "three lines": (symstr.mk([("atom", "l0", "line"), ("lit", "\n"), ("atom", "l1", "line"), ("lit", "\n"), ("atom", "l2", "line")]), "<name>: <l0>\n <l1>\n <l2>\n"),
        "empty value": (symstr.lit(""), "<name>: \n"),
        "lines with trailing blanks": (symstr.mk([("atom", "l0", "line"), ("lit", "  \n"), ("atom", "l1", "line"), ("lit", " \t")]), "<name>: <l0>  \n <l1> \t\n"),
        "single line with trailing blank": (symstr.mk([("atom", "l0", "line"), ("lit", " ")]), "<name>: <l0> \n"),
        "empty first line": (symstr.mk([("lit", "\n"), ("atom", "l1", "line")]), "<name>: \n <l1>\n"),
    }
    dk = "<%sField as core::fmt::Display>::fmt" % P
    if C.ob("C08/anchor", dk, F.fn(dk) is not None, "Field Display not found"):
        for sname, (val, want) in shapes.items():
            fv = field(symstr.atom("name", "word"), val)
            outs, I = roundtrip.render_value(F, mod, fv)
            got = [symstr.show(r) for ctl, r in outs if ctl == OK]
            C.ob("C08/print-field", sname, len(outs) == 1 and got == [want], "prints %r, the re-readable form is %r" % (got, want), F.fn(dk)["sp"])
            C.sample({"value_shape": sname, "printed": got})
    # paragraph = concatenation of fields; document = paragraphs separated by exactly one empty line
    f1 = field(symstr.atom("n1", "word"), symstr.atom("v1", "line"))
    f2 = field(symstr.atom("n2", "word"), symstr.atom("v2", "line"))
    outs, I = roundtrip.render_value(F, mod, para([f1, f2]))
    got = [symstr.show(r) for ctl, r in outs if ctl == OK]
    C.ob("C08/print-paragraph", "two fields", len(outs) == 1 and got == ["<n1>: <v1>\n<n2>: <v2>\n"], "prints %r" % got)
    for np_, want in ((0, ""), (1, "<n1>: <v1>\n"), (2, "<n1>: <v1>\n\n<n2>: <v2>\n"), (3, "<n1>: <v1>\n\n<n2>: <v2>\n\n<n1>: <v1>\n")):
        paras = [para([f1]), para([f2]), para([f1])][:np_]
        doc = ("struct", P + "Deb822", (("0", ("tuple", tuple(paras))),))
        outs, I = roundtrip.render_value(F, mod, doc)
        got = [symstr.show(r) for ctl, r in outs if ctl == OK]
        C.ob("C08/print-document", "%d paragraphs" % np_, len(outs) == 1 and got == [want], "prints %r, expected %r (one empty line between paragraphs)" % (got, want))
    # ---------------- constructors and reader entry points of the lossy back-end
    check_lossy_entry_points(F, C)
    # the printed line forms are lexed as the read-back product assumes (incl. value lines starting with ':' or '#'-free text)
    import c03
    c03.check_lexing(F, C, "C08/read-back-lexing")
    # D3: the lossy reader reads the printed line forms back (same product as C06, lossy side)
    import tokcursor, deb822_parse, lossy_parse as lp
    wf = deb822_parse.wellformed_dfa()
    lmod = lp.Mod(F, wf, True)
    LI = tokcursor.LoopProgressInterp(F, lmod, max_depth=14)
    try:
        louts = LI.inline(F.fn(lp.ENTRY_KEY), [("abs", "text")], hirai.State(depth=0))
    except hirai.Violation as e:
        louts = []
        C.ob("C08/analysis", "lossy reader product", False, str(e))
    for (rule, inst), (r, i, detail, loc) in sorted(lmod.findings.items()):
        C.ob("C08/read-back/" + rule, inst, False, detail, loc)
    bad = [(ctl, str(v)[:60]) for ctl, v, s in louts if not (ctl == OK and v[0] == "enum" and v[1].endswith("Ok") and not s.mon.get("need_value") and not s.mon.get("need_field") and s.mon.get("fields_in_para", 0) == 0)]
    C.ob("C08/read-back", "lossy reader on the printed line forms", not bad and bool(louts), "outcomes %s" % bad[:3], F.fn(lp.ENTRY_KEY)["sp"])
    C.assumptions += ["value lines are non-empty, contain no newline and do not start with whitespace or '#' (the property's domain); names are valid field names",
                      "that the printed line forms are accepted and read back line by line is C03 (lexer templates, lossless reader) and C06 (lossy reader) - this check establishes that the printer emits exactly those forms"]
    return C.finish("List operations are interpreted on all field vectors up to length 3 over two names (get/set/insert/remove/len/is_empty vs the list model); "
                    "the Display impls are interpreted over every value shape of the domain and must print exactly the canonical field/continuation line forms and one blank line between paragraphs.")


def check_lossy_entry_points(F, C):
    """FromIterator keeps one field per pair (repeated names included); from_reader parses exactly what it read;
    Paragraph::from_str returns the only paragraph and rejects none / several"""
    LP = "deb822_lossless::lossy::"
    mod = roundtrip.RTMod(F)
    k = "<%sParagraph as core::iter::traits::collect::FromIterator<(alloc::string::String, alloc::string::String)>>::from_iter" % LP
    f = F.fn(k)
    if C.ob("C08/anchor", k, f is not None, "not found"):
        pairs = [("A", "a1"), ("B", "b"), ("A", "a2"), ("A", "a3")]
        arg = ("abs", "svec", tuple(("tuple", (symstr.lit(n), symstr.atom(v, "line"))) for n, v in pairs))
        I = hirai.Interp(F, mod)
        res = I.inline(f, [arg], hirai.State(depth=0))
        got = []
        for ctl, v, s in res:
            v = I.deep_deref(s, I.deref_val(s, v), 0) if ctl == OK else v
            if ctl == OK and v[0] == "struct":
                fl = dict(v[2]).get("fields")
                items = fl[2] if fl and fl[0] == "abs" and fl[1] == "svec" else (fl[2][fl[3]:] if fl and fl[0] == "abs" and fl[1] == "siter" else None)
                got.append([(symstr.show(dict(x[2])["name"]), symstr.show(dict(x[2])["value"])) for x in items] if items is not None else str(fl)[:80])
            else:
                got.append("%s %s" % (ctl, str(v)[:80]))
        want = [(n, "<%s>" % v) for n, v in pairs]
        C.ob("C08/from-pairs-list", "lossy Paragraph from (name, value) pairs with a repeated name", got == [want], "builds %s, expected %s" % (got, want), f["sp"])
    # from_reader: the text handed to the parser is what read_to_string produced
    k = LP + "Deb822::from_reader"
    f = F.fn(k)
    if C.ob("C08/anchor", k, f is not None, "not found"):
        seen = []

        class RM(roundtrip.RTMod):
            def intrinsic(self, I, callee, args, st, n):
                if callee == "std::io::Read::read_to_string" and len(args) > 1 and args[1][0] == "ref":
                    return [(OK, ("enum", OKV, (hirai.mkint(1),)), I.write(st, args[1][1], symstr.atom("file-contents", "text")))]
                if callee == "core::str::<impl str>::parse" or callee.endswith("lossy::Deb822 as core::str::traits::FromStr>::from_str"):
                    seen.append(symstr.show(I.deref_val(st, args[0])))
                    return [(OK, ("enum", OKV, (("abs", "doc"),)), st)]
                return super().intrinsic(I, callee, args, st, n)
        I = hirai.Interp(F, RM(F))
        res = I.inline(f, [("abs", "reader")], hirai.State(depth=0))
        outs = [(ctl, str(I.deref_val(s, v))[:60]) for ctl, v, s in res]
        C.ob("C08/reader-text", "Deb822::from_reader", seen == ["<file-contents>"] and len(res) == 1 and res[0][0] == OK and not I.unknown_calls,
             "the parser is given %s (outcomes %s, unmodelled calls %s); expected exactly the text read from the reader" % (seen, outs, sorted(I.unknown_calls)), f["sp"])
    # Paragraph::from_str by number of paragraphs in the document
    k = "<%sParagraph as core::str::traits::FromStr>::from_str" % LP
    f = F.fn(k)
    if C.ob("C08/anchor", k, f is not None, "not found"):
        for np_ in (0, 1, 2, 3):
            paras = tuple(("struct", LP + "Paragraph", (("fields", ("abs", "svec", (("struct", LP + "Field", (("name", symstr.lit("N%d" % i)), ("value", symstr.atom("v%d" % i, "line")))),))),)) for i in range(np_))
            doc = ("struct", LP + "Deb822", (("0", ("abs", "svec", paras)),))

            class PM(roundtrip.RTMod):
                def intrinsic(self, I, callee, args, st, n, doc=doc):
                    if callee == "core::str::<impl str>::parse" or callee.endswith("lossy::Deb822 as core::str::traits::FromStr>::from_str"):
                        return [(OK, ("enum", OKV, (doc,)), st)]
                    return super().intrinsic(I, callee, args, st, n)
            I = hirai.Interp(F, PM(F))
            res = I.inline(f, [("abs", "text")], hirai.State(depth=0))
            got = []
            for ctl, v, s in res:
                v = I.deep_deref(s, I.deref_val(s, v), 0) if ctl == OK else v
                if ctl == OK and v[0] == "enum" and v[1] == ERRV:
                    got.append("Err")
                elif ctl == OK and v[0] == "enum" and v[1] == OKV and v[2][0][0] == "struct":
                    fl = dict(v[2][0][2]).get("fields")
                    got.append("Ok(paragraph of %s)" % (symstr.show(dict(fl[2][0][2])["name"]) if fl and fl[0] == "abs" and fl[2] else "?"))
                else:
                    got.append("%s %s" % (ctl, str(v)[:60]))
            want = ["Ok(paragraph of N0)"] if np_ == 1 else ["Err"]
            C.ob("C08/paragraph-reader", "lossy Paragraph::from_str on a document of %d paragraph(s)" % np_, got == want, "yields %s, expected %s" % (got, want), f["sp"])
