"""C12 - dependency satisfaction decision tables (finite, exhaustive).

Both evaluators are abstractly interpreted (hirai) over the complete finite domain
  installed version in {absent, lower, equal, higher}  x  constraint in {none, <<, <=, =, >=, >>}
and over every and/or composition of up to 2 entries x 2 alternatives built from a satisfied and an
unsatisfied representative cell.  Comparisons are recognised by their *resolved* trait method
(PartialOrd::{lt,le,gt,ge}, PartialEq::eq on debversion::Version) and by operand order."""
import itertools
import facts, hirai
from hirai import OK, PANIC, some, none, unk, SOME, NONE
from report import Check

VC = "debian_control::relations::VersionConstraint::"
OPS = {"LessThan": "<<", "LessThanEqual": "<=", "Equal": "=", "GreaterThanEqual": ">=", "GreaterThan": ">>"}
ORD = ["lower", "equal", "higher"]


def spec(actual, vc):
    """Debian semantics: actual in {absent, lower, equal, higher} (installed relative to required)"""
    if vc is None:
        return actual != "absent"
    if actual == "absent":
        return False
    return {
        "<<": actual == "lower", "<=": actual in ("lower", "equal"), "=": actual == "equal",
        ">=": actual in ("equal", "higher"), ">>": actual == "higher",
    }[OPS[vc]]


class Mod:
    """abstract objects: ('abs','rel',i)  relation number i; ('abs','ver',('actual',i)) / ('required',i)"""

    def __init__(self, cells):
        self.cells = cells  # list per relation index: (actual, vc)
        self.lookups = 0

    def rel_index(self, I, st, v):
        v = I.deref_val(st, v)
        if v[0] == "abs" and v[1] == "rel":
            return v[2]
        if v[0] == "abs" and v[1] == "relname":
            return v[2]
        if v[0] == "struct":
            d = dict(v[2])
            return self.rel_index(I, st, d.get("name", unk()))
        return None

    def intrinsic(self, I, callee, args, st, n):
        if callee.endswith("VersionLookup::lookup_version") or callee.endswith("as debian_control::VersionLookup>::lookup_version"):
            i = self.rel_index(I, st, args[1])
            if i is None:
                I.ev("C12/lookup-arg", "lookup_version is asked for something other than the relation's own name", False, "", n.get("sp", ""))
                return [(OK, unk("lookup"), st)]
            self.lookups += 1
            a = self.cells[i][0]
            if a == "absent":
                return [(OK, none(), st)]
            return [(OK, some(("abs", "ver", ("actual", i))), st)]
        if callee == "debian_control::lossless::relations::Relation::name":
            i = self.rel_index(I, st, args[0])
            return [(OK, ("abs", "relname", i), st)]
        if callee == "debian_control::lossless::relations::Relation::version":
            i = self.rel_index(I, st, args[0])
            vc = self.cells[i][1]
            if vc is None:
                return [(OK, none(), st)]
            return [(OK, some(("tuple", (("enum", VC + vc, ()), ("abs", "ver", ("required", i))))), st)]
        if callee in ("debian_control::lossless::relations::Entry::relations", "debian_control::lossless::relations::Relations::entries"):
            v = I.deref_val(st, args[0])
            if v[0] == "abs" and v[1] in ("entry", "relations"):
                return [(OK, ("abs", "siter", tuple(v[2]), 0), st)]
            I.ev("C12/iter-source", "%s applied to an unrecognised value" % callee.rsplit("::", 1)[-1], False, str(v)[:80], n.get("sp", ""))
            return [(OK, unk("iter-source"), st)]
        a0 = I.deref_val(st, args[0]) if args else None
        if a0 is not None and a0[0] == "abs" and a0[1] == "vec":
            if callee in ("core::slice::<impl [T]>::iter", "alloc::vec::Vec::<T>::iter") or callee.endswith("::iter") and "slice" in callee or callee.endswith("IntoIterator>::into_iter") or callee == "core::iter::traits::collect::IntoIterator::into_iter":
                return [(OK, ("abs", "siter", tuple(a0[2]), 0), st)]
            if callee.endswith("Deref>::deref"):
                return [(OK, a0, st)]
            if callee.endswith("::is_empty"):
                return [(OK, ("bool", not a0[2]), st)]
            if callee.endswith("::len"):
                return [(OK, hirai.mkint(len(a0[2])), st)]
        if a0 is not None and a0[0] == "abs" and a0[1] == "siter":
            if callee.endswith("IntoIterator>::into_iter") or callee == "core::iter::traits::collect::IntoIterator::into_iter":
                return [(OK, a0, st)]
            if callee.endswith("Iterator>::next") or callee == "core::iter::traits::iterator::Iterator::next":
                if a0[3] < len(a0[2]):
                    s2 = I.write(st, args[0][1], ("abs", "siter", a0[2], a0[3] + 1)) if args[0][0] == "ref" else st
                    return [(OK, some(a0[2][a0[3]]), s2)]
                return [(OK, none(), st)]
            import siterlib
            r = siterlib.siter_intrinsic(I, callee, args, st, n)
            if r is not None:
                return r
        if callee in ("core::iter::traits::iterator::Iterator::any", "core::iter::traits::iterator::Iterator::all") or callee.endswith("Iterator>::any") or callee.endswith("Iterator>::all"):
            I.ev("C12/iter-source", "any/all applied to an unrecognised sequence", False, str(a0)[:80], n.get("sp", ""))
            return [(OK, unk("anyall"), st)]
        if callee.endswith("as core::convert::AsRef<T>>::as_ref") or callee.endswith("Cow<'_, T> as core::ops::deref::Deref>::deref") or callee.endswith("::as_ref"):
            return [(OK, I.deref_val(st, args[0]), st)]
        return None

    def binary(self, I, n, l, r, st):
        if l[0] == "abs" and l[1] == "ver" and r[0] == "abs" and r[1] == "ver":
            d = n.get("def", "")
            m = d.rsplit("::", 1)[-1]
            (lk, li), (rk, ri) = l[2], r[2]
            if li != ri or lk == rk:
                I.ev("C12/operands", "version comparison between versions of different relations / same role", False, d, n.get("sp", ""))
                return [(OK, unk("cmp"), st)]
            actual = self.cells[li][0]
            # ordering of (left ? right)
            o = ORD.index(actual) - 1  # actual - required: -1, 0, 1
            if lk == "required":
                o = -o
            table = {"lt": o < 0, "le": o <= 0, "gt": o > 0, "ge": o >= 0, "eq": o == 0, "ne": o != 0}
            tys = (n.get("l", {}).get("ty", ""), n.get("r", {}).get("ty", ""))
            if not all("debversion::Version" in t for t in tys):
                I.ev("C12/comparison-type", "versions are compared through %s instead of debversion::Version ordering" % (tys,), False, d, n.get("sp", ""))
                return [(OK, unk("cmp"), st)]
            if m not in table or not (d.startswith("core::cmp::PartialOrd::") or d.startswith("core::cmp::PartialEq::")):
                I.ev("C12/comparison-op", "version comparison through unexpected operator " + d, False, "", n.get("sp", ""))
                return [(OK, unk("cmp"), st)]
            return [(OK, ("bool", table[m]), st)]
        return None


def run_fn(F, key, self_val, cells):
    f = F.fn(key)
    mod = Mod(cells)
    I = hirai.Interp(F, mod)
    st = hirai.State()
    st.depth = 1
    # bind params: self, package_version
    args = [self_val, ("abs", "lookup", 0)]
    res = [(True, st)]
    for p, a in zip(f["params"], args):
        nxt = []
        for ok, s in res:
            nxt.extend(I.match(p, a, s))
        res = nxt
    outs = []
    for ok, s in res:
        outs.extend(I.eval(f["body"], s))
    vals = set()
    for ctl, v, s in outs:
        if ctl in (OK, hirai.RET):
            vals.add(v)
        else:
            vals.add(("ctl", ctl))
    return vals, I, mod


def run(tier):
    F = facts.Facts()
    C = Check("C12", "proof", tier, "finite-domain abstract interpretation of both evaluators over the complete decision table",
              ["rustc HIR + typeck (resolved operators)", "debversion::Version ordering (PartialOrd/PartialEq impls)", "hirai abstract interpreter"])
    cells = [(a, vc) for a in ["absent"] + ORD for vc in [None] + list(OPS)]

    LL_ENTRY = "debian_control::lossless::relations::Entry::satisfied_by"
    LL_RELS = "debian_control::lossless::relations::Relations::satisfied_by"
    LY_REL = "debian_control::lossy::relations::Relation::satisfied_by"
    LY_RELS = "debian_control::lossy::relations::Relations::satisfied_by"
    for k in (LL_ENTRY, LL_RELS, LY_REL, LY_RELS):
        C.ob("C12/anchor", k, F.fn(k) is not None, "evaluator function not found (anchor lost)")
    if any(F.fn(k) is None for k in (LL_ENTRY, LL_RELS, LY_REL, LY_RELS)):
        return C.finish("anchors missing")

    def lossy_rel(i, cell):
        ver = none() if cell[1] is None else some(("tuple", (("enum", VC + cell[1], ()), ("abs", "ver", ("required", i)))))
        return ("struct", "debian_control::lossy::relations::Relation", (("name", ("abs", "relname", i)), ("version", ver)))

    def report_events(I, tag):
        for rule, inst, ok, detail, loc in I.events:
            C.ob(rule, tag + ": " + inst, ok, detail, loc)

    # D1: single-relation truth tables, both evaluators, all 24 cells
    n_lookup = 0
    for cell in cells:
        want = spec(*cell)
        name = "actual=%s constraint=%s" % (cell[0], OPS.get(cell[1], "none"))
        # lossless: entry with one relation
        vals, I, mod = run_fn(F, LL_ENTRY, ("abs", "entry", (("abs", "rel", 0),)), [cell])
        report_events(I, "lossless " + name)
        C.ob("C12/table-lossless", name, vals == {("bool", want)},
             "lossless Entry::satisfied_by yields %s, Debian semantics require %s" % (sorted(map(str, vals)), want),
             F.fn(LL_ENTRY)["sp"])
        n_lookup += mod.lookups
        vals2, I2, mod2 = run_fn(F, LY_REL, lossy_rel(0, cell), [cell])
        report_events(I2, "lossy " + name)
        C.ob("C12/table-lossy", name, vals2 == {("bool", want)},
             "lossy Relation::satisfied_by yields %s, Debian semantics require %s" % (sorted(map(str, vals2)), want),
             F.fn(LY_REL)["sp"])
        C.ob("C12/agree", name, vals == vals2, "lossless %s vs lossy %s" % (sorted(map(str, vals)), sorted(map(str, vals2))))
        C.sample({"cell": name, "expected": want, "lossless": sorted(map(str, vals)), "lossy": sorted(map(str, vals2))})

    # D2: and/or composition. representatives: S (satisfied), U (unsatisfied: package absent), V (unsatisfied although
    # the package is installed: the version fails the constraint) - an evaluator that stops at the first installed
    # alternative differs only on V
    S, U, V = ("equal", "Equal"), ("absent", None), ("lower", "Equal")
    shapes = []
    for ne in range(0, 3):
        for lens in itertools.product(range(0, 3), repeat=ne):
            shapes.append(lens)
    ncomp = 0
    for lens in shapes:
        total = sum(lens)
        for assign in itertools.product([S, U, V], repeat=total):
            # build entries
            idx = 0
            entries_ll, entries_ly, truth = [], [], True
            for ln in lens:
                rel_ll = tuple(("abs", "rel", idx + j) for j in range(ln))
                rel_ly = tuple(lossy_rel(idx + j, assign[idx + j]) for j in range(ln))
                truth = truth and any(spec(*assign[idx + j]) for j in range(ln))
                entries_ll.append(("abs", "entry", rel_ll))
                entries_ly.append(("abs", "vec", rel_ly))
                idx += ln
            name = "entries=%s sat=%s" % (list(lens), ["S" if a == S else ("U" if a == U else "V") for a in assign])
            vals, I, _ = run_fn(F, LL_RELS, ("abs", "relations", tuple(entries_ll)), list(assign))
            report_events(I, "lossless " + name)
            C.ob("C12/compose-lossless", name, vals == {("bool", truth)},
                 "Relations::satisfied_by yields %s, AND-of-OR semantics require %s" % (sorted(map(str, vals)), truth), F.fn(LL_RELS)["sp"])
            self_ly = ("struct", "debian_control::lossy::relations::Relations", (("0", ("abs", "vec", tuple(entries_ly))),))
            vals2, I2, _ = run_fn(F, LY_RELS, self_ly, list(assign))
            report_events(I2, "lossy " + name)
            C.ob("C12/compose-lossy", name, vals2 == {("bool", truth)},
                 "lossy Relations::satisfied_by yields %s, AND-of-OR semantics require %s" % (sorted(map(str, vals2)), truth), F.fn(LY_RELS)["sp"])
            ncomp += 1
    # entry-level "any" for the lossless Entry on 0..2 alternatives
    for ln in range(0, 3):
        for assign in itertools.product([S, U, V], repeat=ln):
            truth = any(spec(*a) for a in assign)
            name = "alternatives=%s" % ["S" if a == S else ("U" if a == U else "V") for a in assign]
            vals, I, _ = run_fn(F, LL_ENTRY, ("abs", "entry", tuple(("abs", "rel", j) for j in range(ln))), list(assign))
            C.ob("C12/entry-any", name, vals == {("bool", truth)}, "Entry::satisfied_by yields %s, expected %s" % (sorted(map(str, vals)), truth), F.fn(LL_ENTRY)["sp"])

    # D3: the three lookup forms
    check_lookups(F, C)
    C.floor("C12/table", len(cells), 24, "decision-table cells")
    C.extra["exhaustive"] = True
    C.extra["cells"] = len(cells)
    C.extra["compositions"] = ncomp
    C.assumptions += ["debversion::Version's PartialOrd/PartialEq implement Debian version ordering (trusted dependency)",
                      "the evaluator closure does not depend on the position of the alternative (no captured mutable state; checked: closure captures only the lookup)"]
    return C.finish("Every cell of the satisfaction decision table (4 installed-version outcomes x 6 constraint forms) and every AND/OR "
                    "composition of up to 2 entries x 2 alternatives (each alternative satisfied, unsatisfied-absent or unsatisfied-installed) is evaluated by abstract interpretation of the HIR of both evaluators; "
                    "comparison operators are identified by resolved trait method and operand roles (installed vs required).")


class LookupMod:
    def __init__(self):
        self.calls = []

    def intrinsic(self, I, callee, args, st, n):
        if callee.startswith("std::collections::hash::map::HashMap::<K, V, S>::get") or callee.startswith("std::collections::hash::map::HashMap::<K, V, S, A>::get"):
            self.calls.append(("get", args[1]))
            return [(OK, none(), st), (OK, some(("abs", "mapval", args[1])), st)]
        return None

    def abs_equal(self, I, a, b):
        if a[1] == "name" and b[1] == "name":
            return a[2] == b[2]
        return None


def check_lookups(F, C):
    # tuple form
    key = "<(alloc::string::String, debversion::Version) as debian_control::VersionLookup>::lookup_version"
    f = F.fn(key)
    C.ob("C12/lookup-anchor", "tuple impl", f is not None, "impl not found")
    if f:
        for same in (True, False):
            mod = LookupMod()
            I = hirai.Interp(F, mod)
            st = hirai.State(depth=1)
            selfv = ("tuple", (("abs", "name", "N"), ("abs", "ver", "V")))
            st, p = I.newtemp(st, selfv)
            args = [("ref", p), ("abs", "name", "N" if same else "M")]
            res = [(True, st)]
            for pp, a in zip(f["params"], args):
                nxt = []
                for ok, s in res:
                    nxt.extend(I.match(pp, a, s))
                res = nxt
            vals = set()
            for ok, s in res:
                for ctl, v, s2 in I.eval(f["body"], s):
                    if ctl in (OK, hirai.RET) and v[0] == "enum" and v[1] == SOME:
                        inner = v[2][0]
                        # Cow::Borrowed(&self.1)
                        while inner[0] == "enum" and inner[2]:
                            inner = inner[2][0]
                        inner = I.deref_val(s2, inner)
                        vals.add(("some", inner))
                    elif ctl in (OK, hirai.RET) and v[0] == "enum":
                        vals.add(("none",))
                    else:
                        vals.add(("other", str(v)[:60]))
            want = {("some", ("abs", "ver", "V"))} if same else {("none",)}
            C.ob("C12/lookup-tuple", "name %s" % ("equal" if same else "different"), vals == want,
                 "(name, version) lookup yields %s, expected %s" % (sorted(map(str, vals)), sorted(map(str, want))), f["sp"])
    # map form
    key = "<std::collections::hash::map::HashMap<alloc::string::String, debversion::Version> as debian_control::VersionLookup>::lookup_version"
    f = F.fn(key)
    C.ob("C12/lookup-anchor", "HashMap impl", f is not None, "impl not found")
    if f:
        mod = LookupMod()
        I = hirai.Interp(F, mod)
        st = hirai.State(depth=1)
        args = [("abs", "map", 0), ("abs", "name", "N")]
        res = [(True, st)]
        for pp, a in zip(f["params"], args):
            nxt = []
            for ok, s in res:
                nxt.extend(I.match(pp, a, s))
            res = nxt
        vals = set()
        for ok, s in res:
            for ctl, v, s2 in I.eval(f["body"], s):
                if v[0] == "enum" and v[1] == SOME:
                    inner = v[2][0]
                    while inner[0] == "enum" and inner[2]:
                        inner = inner[2][0]
                    vals.add(("some", inner))
                elif v[0] == "enum":
                    vals.add(("none",))
                else:
                    vals.add(("other", str(v)[:60]))
        want = {("none",), ("some", ("abs", "mapval", ("abs", "name", "N")))}
        C.ob("C12/lookup-map", "get(package)", vals == want and mod.calls == [("get", ("abs", "name", "N"))],
             "map lookup yields %s via %s; expected the map entry of the queried name or None" % (sorted(map(str, vals)), mod.calls), f["sp"])
    # closure form
    key = "<F as debian_control::VersionLookup>::lookup_version"
    f = F.fn(key)
    C.ob("C12/lookup-anchor", "closure impl", f is not None, "impl not found")
    if f:
        class CM(LookupMod):
            def intrinsic(self, I, callee, args, st, n):
                if callee in ("core::ops::function::Fn::call", "core::ops::function::FnMut::call_mut", "core::ops::function::FnOnce::call_once"):
                    self.calls.append(("call", args[1]))
                    return [(OK, none(), st), (OK, some(("abs", "fnval", args[1])), st)]
                return None
        mod = CM()
        I = hirai.Interp(F, mod)
        orig_apply = I.apply

        def apply(fv, args, st, n):
            if fv[0] == "abs" and fv[1] == "lookupfn":
                mod.calls.append(("call", tuple(args)))
                return [(OK, none(), st), (OK, some(("abs", "fnval", tuple(args))), st)]
            return orig_apply(fv, args, st, n)
        I.apply = apply
        st = hirai.State(depth=1)
        args = [("abs", "lookupfn", 0), ("abs", "name", "N")]
        res = [(True, st)]
        for pp, a in zip(f["params"], args):
            nxt = []
            for ok, s in res:
                nxt.extend(I.match(pp, a, s))
            res = nxt
        vals = set()
        for ok, s in res:
            for ctl, v, s2 in I.eval(f["body"], s):
                if v[0] == "enum" and v[1] == SOME:
                    inner = v[2][0]
                    while inner[0] == "enum" and inner[2]:
                        inner = inner[2][0]
                    vals.add(("some", inner))
                elif v[0] == "enum":
                    vals.add(("none",))
                else:
                    vals.add(("other", str(v)[:60]))
        want = {("none",), ("some", ("abs", "fnval", (("abs", "name", "N"),)))}
        C.ob("C12/lookup-closure", "self(name)", vals == want,
             "closure lookup yields %s via %s; expected the closure's answer for the queried name" % (sorted(map(str, vals)), mod.calls), f["sp"])
