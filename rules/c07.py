"""C07 - wrap-and-sort reformatting never changes content, keeps comments, is idempotent.

Engine as C04/C05: Deb822 / Paragraph / Entry ::wrap_and_sort are interpreted on the trees the interpreted parser
builds for symbolic documents, under a matrix of settings (indentation Spaces(1|4) / FieldNameLength,
immediate_empty_line, one-liner limit None / Some, sorting by field name or none).  Token-text lengths are
unknown, so a setting whose decision depends on a length forks; every outcome must satisfy:
  - the flattened token sequence is accepted by the well-formed token grammar (parses strictly),
  - paragraphs and fields are those of the input (requested order: original, or stable by name),
    each value keeps its non-blank lines,
  - every comment is still on a line of its own in front of the same field / paragraph,
  - continuation lines are indented by exactly the requested width; paragraphs are separated by exactly one blank line,
  - what the live object reports equals what re-reading the printed text gives,
  - applying the operation again with the same settings changes nothing.
The control-file formatter path (format_value) is only covered by C02-style totality, not here."""
import itertools
import facts, hirai, symstr, treemodel, docbuild as db, deb822_parse, c04, c05
from c04 import A, F_, Cm
from c05 import blank, flatten, live_paragraphs
from hirai import OK, PANIC, SOME, NONE, some, none, unk
from report import Check

P = "deb822_lossless::lossless::"
IND = "deb822_lossless::Indentation::"
ORD = "core::cmp::Ordering::"


class Mod(treemodel.TreeMod):
    """adds abstract closures: field-name comparators and the paragraph reformatter"""

    def __init__(self, facts):
        super().__init__(facts, "deb822_lossless::lex::SyntaxKind")
        self.cfg = None

    def first_key(self, I, st, v, kind):
        v = I.deref_val(st, v)
        nid = v[2][0][2] if v[0] == "enum" else None
        h = treemodel.heap_get(st)
        if kind == "entry":
            for t in h[nid][3]:
                if h[t][1] == "T" and h[t][2] == "KEY":
                    return symstr.show(h[t][3])
            return ""
        for e in h[nid][3]:
            if h[e][1] == "N" and h[e][2] == "ENTRY":
                for t in h[e][3]:
                    if h[t][1] == "T" and h[t][2] == "KEY":
                        return symstr.show(h[t][3])
        return ""

    def intrinsic(self, I, callee, args, st, n):
        if callee in ("deb822_lossless::lex::lex_inline", "deb822_lossless::lex::lex"):
            import lexer
            if self.lextab is None:
                self.lextab = lexer.extract(self.facts)
            v = I.deref_val(st, args[0])
            p = symstr.pieces_of(v)
            if p is None:
                return [(OK, unk("lex"), st)]
            toks = lexer.symlex(self.lextab, "lex_inline" if callee.endswith("inline") else "lex", p)
            if toks is None:
                return [(OK, unk("lex"), st)]
            items = tuple(("tuple", (self.kval(k), symstr.mk(pcs))) for k, pcs in toks)
            return [(OK, ("abs", "siter", items, 0), st)]
        return super().intrinsic(I, callee, args, st, n)

    lextab = None

    def apply_abs(self, I, fv, args, st, n):
        if fv[1] == "fmt-identity":
            return [(OK, I.deref_val(st, args[1]), st)]
        if fv[1] in ("cmp-entry", "cmp-para"):
            ka = self.first_key(I, st, args[0], "entry" if fv[1] == "cmp-entry" else "para")
            kb = self.first_key(I, st, args[1], "entry" if fv[1] == "cmp-entry" else "para")
            o = "Less" if ka < kb else ("Greater" if ka > kb else "Equal")
            return [(OK, ("enum", ORD + o, ()), st)]
        if fv[1] == "para-wrap":
            ind, iel, mll, sort = fv[2][:4]
            fmt = fv[2][4] if len(fv[2]) > 4 else False
            a = [args[0], ind, ("bool", iel), mll, some(("abs", "cmp-entry")) if sort else none(), some(("abs", "fmt-identity")) if fmt else none()]
            return I.inline(self.facts.fns[P + "Paragraph::wrap_and_sort"], a, st)
        return None


_LEXTAB = {}


def relex(F, flat):
    """re-lex the printed text (concatenated token texts) with the extracted lexer table"""
    import lexer
    if "t" not in _LEXTAB:
        _LEXTAB["t"] = lexer.extract(F)
    pieces = ()
    for k, t in flat:
        pieces += symstr.pieces_of(t)
    toks = lexer.symlex(_LEXTAB["t"], "lex", symstr.norm(pieces))
    if toks is None:
        return None
    return [(k, symstr.mk(p)) for k, p in toks]


def analyse(flat):
    """token sequence -> (paragraphs [[(key, [line texts])]], comment attachment [(comment, next key)], indents, blank counts, error)"""
    wf = deb822_parse.wellformed_dfa()
    # an indented "#" line inside a multi-line value (a commented-out list item): a comment that belongs to that field
    wf.trans["I"]["COMMENT"] = ("IC", "cont-comment")
    wf.trans["IC"] = {"NEWLINE": ("L", "field-nl")}
    wf.accepting.add("IC")
    q = wf.start
    paras, cur = [], []
    comments, pending_comments = [], []
    indents = []
    seps = []
    blank_run = 0
    for idx, (k, t) in enumerate(flat):
        tr = wf.trans.get(q, {})
        if k not in tr:
            return None, None, None, None, "token %d (%s %r) is not allowed after %r" % (idx, k, symstr.show(t), "".join(symstr.show(x[1]) for x in flat[max(0, idx - 4):idx]))
        q, role = tr[k]
        if role in ("key-first", "key-next"):
            if role == "key-first":
                if cur:
                    paras.append(cur)
                    seps.append(blank_run)
                cur = []
            blank_run = 0
            cur.append((symstr.show(t), []))
            for c in pending_comments:
                comments.append((c, symstr.show(t)))
            pending_comments = []
        elif role == "value":
            cur[-1][1].append(symstr.show(t).strip())
        elif role == "cont-comment":
            comments.append((symstr.show(t), "inside the value of %s" % cur[-1][0]))
        elif role in ("para-comment", "top-comment"):
            pending_comments.append(symstr.show(t))
        elif role in ("blank-sep", "blank"):
            if role == "blank-sep" and cur:
                # comments at the end of a paragraph (before the blank line) belong to that paragraph
                for c in pending_comments:
                    comments.append((c, "end of the paragraph of %s" % cur[0][0]))
                pending_comments = []
            blank_run += 1
        elif role == "indent":
            indents.append((cur[-1][0] if cur else None, symstr.show(t)))
    if q not in wf.accepting:
        return None, None, None, None, "document ends in the middle of a line form"
    if cur:
        paras.append(cur)
    for c in pending_comments:
        comments.append((c, "end of the paragraph of %s" % cur[0][0] if cur and q in ("L2", "PC") else None))
    return paras, comments, indents, seps, None


LAYOUTS = {
    "two paragraphs, comment between fields, multi-line value": [F_("B", ["b1", "b2"], indent="\t"), Cm("c1"), F_("A", ["a"], ws="  "), blank(), F_("Z", ["z"]), F_("Y", ["y1", "y2", "y3"])],
    "top comment, three paragraphs, extra blank lines": [Cm("top"), blank(), F_("P", ["p"]), blank(), blank(), F_("Q", ["q1", "q2"]), blank(), Cm("before-r"), F_("R", ["r"])],
    "duplicate names, no final newline": [F_("D", ["d1"]), F_("C", ["c"]), F_("D", ["d2"], final_newline=False)],
    "single-line values only (one starts with ':')": [F_("M", ["m"]), Cm("about-b"), F_("B", [symstr.mk([("lit", ":"), ("atom", "b", "line")])]), blank(), F_("A", ["a"], ws="")],
    "value starting on the next line, value starting with ':', comment before a field that sorting moves": [
        {"type": "field", "key": "N", "lines": [A("n1")], "tokens": [("KEY", symstr.lit("N")), ("COLON", symstr.lit(":")), ("NEWLINE", symstr.lit("\n")), ("INDENT", symstr.lit(" ")), ("VALUE", A("n1")), ("NEWLINE", symstr.lit("\n"))]},
        F_("M", ["m"]), Cm("about-b"), F_("B", [symstr.mk([("lit", ":"), ("atom", "b", "line")])])],
}
LAYOUTS["a continuation line holding only a tab"] = [
    F_("S", ["s"]),
    {"type": "field", "key": "D", "lines": [A("d1"), A("d3")],
     "tokens": [("KEY", symstr.lit("D")), ("COLON", symstr.lit(":")), ("WHITESPACE", symstr.lit(" ")), ("VALUE", A("d1")), ("NEWLINE", symstr.lit("\n")),
                ("INDENT", symstr.lit("\t")), ("NEWLINE", symstr.lit("\n")), ("INDENT", symstr.lit(" ")), ("VALUE", A("d3")), ("NEWLINE", symstr.lit("\n"))]},
    F_("T", ["t"])]
LAYOUTS["the paragraph that sorts first is last and ends without final newline (comment / value)"] = [
    F_("M", ["m"]), blank(), F_("B", ["b"], final_newline=False)]
LAYOUTS["the paragraph that sorts first is last and ends in a comment without final newline"] = [
    F_("M", ["m"]), blank(), F_("B", ["b"]), {"type": "comment", "tokens": [("COMMENT", symstr.mk([("lit", "#"), ("atom", "tail", "line")]))]}]
LAYOUTS["a field without value between other fields, one followed by a comment"] = [
    F_("S", ["s"]),
    {"type": "field", "key": "E", "lines": [], "tokens": [("KEY", symstr.lit("E")), ("COLON", symstr.lit(":")), ("NEWLINE", symstr.lit("\n"))]},
    F_("T", ["t"]),
    {"type": "field", "key": "G", "lines": [], "tokens": [("KEY", symstr.lit("G")), ("COLON", symstr.lit(":")), ("WHITESPACE", symstr.lit(" ")), ("NEWLINE", symstr.lit("\n"))]},
    Cm("after-g"), F_("U", ["u"])]
HC = symstr.mk([("lit", "#"), ("atom", "hc", "line")])
LAYOUTS["a value whose last continuation line is an indented comment line"] = [
    F_("S", ["s"]),
    {"type": "field", "key": "D", "lines": [A("d1")],
     "tokens": [("KEY", symstr.lit("D")), ("COLON", symstr.lit(":")), ("WHITESPACE", symstr.lit(" ")), ("VALUE", A("d1")), ("NEWLINE", symstr.lit("\n")),
                ("INDENT", symstr.lit(" ")), ("COMMENT", HC), ("NEWLINE", symstr.lit("\n"))]},
    F_("T", ["t"])]
SETTINGS = []
for ind in ("s1", "s4", "fnl"):
    for iel in (False, True):
        for mll in ("none", "some"):
            for sort in (False, True):
                SETTINGS.append((ind, iel, mll, sort, False))
SETTINGS += [("s1", False, "none", False, True), ("s4", True, "some", True, True)]   # identity value formatter (output is re-lexed)


def ind_val(ind):
    if ind == "fnl":
        return ("enum", IND + "FieldNameLength", ())
    return ("enum", IND + "Spaces", (hirai.mkint(1 if ind == "s1" else 4),))


def run(tier):
    F = facts.Facts()
    hirai.INT_BOUND = 64
    C = Check("C07", "other", tier, "abstract interpretation of Deb822/Paragraph/Entry::wrap_and_sort on interpreted-parser trees over a settings matrix (rowan model, symbolic texts, forks on unknown lengths); content / comment / indentation / separator / idempotence predicates on every outcome",
              ["rustc HIR/typeck", "hirai", "rowan 0.16 model", "well-formed token grammar"])
    for fn in ("Deb822::wrap_and_sort", "Paragraph::wrap_and_sort", "Entry::wrap_and_sort", "rebuild_value"):
        C.ob("C07/anchor", P + fn, F.fn(P + fn) is not None, "not found")
    QUICK = [("s1", False, "none", False, False), ("s4", True, "some", True, False), ("fnl", False, "some", False, False), ("fnl", True, "none", True, False),
             ("s1", True, "none", False, False), ("s4", False, "none", True, False), ("s1", False, "none", False, True), ("s4", True, "some", True, True)]
    settings = SETTINGS if tier == "thorough" else QUICK
    n = 0
    for lname, records in list(LAYOUTS.items()) + [("a field appended (Paragraph::insert) to text without final newline, then reformatted", "append")]:
        pre_append = records == "append"
        if pre_append:
            records = [F_("M", ["m"]), blank(), F_("B", ["b1", "b2"], final_newline=False)]
        toks = []
        for r in records:
            toks += r["tokens"]
        exp_toks = toks + ([("NEWLINE", symstr.lit("\n"))] + F_("X", ["x"])["tokens"] if pre_append else [])
        base_paras, base_comments, _, _, err0 = analyse(exp_toks)
        assert err0 is None, err0
        def has_inner_newline(r):
            ks = [k for k, t in r["tokens"]]
            return "NEWLINE" in ks[:-1] if ks and ks[-1] == "NEWLINE" else "NEWLINE" in ks
        multiline = any(r["type"] == "field" and has_inner_newline(r) for r in records)
        agg = {}
        for (ind, iel, mll, sort, fmt) in settings:
            if fmt and multiline and lname != "two paragraphs, comment between fields, multi-line value":
                continue     # the multi-line formatter defect is recorded once, on the first layout
            n += 1
            label = "%s :: indentation=%s immediate_empty_line=%s one_liner=%s sort=%s%s" % (lname, ind, iel, mll, sort, " formatter=identity" if fmt else "")
            pdoc, errs, st, pmod = db.parse_deb822(F, toks)
            if pdoc is None or errs != ("abs", "strvec", 0):
                C.ob("C07/parse", label, False, "symbolic document does not parse cleanly")
                continue
            mod = Mod(F)
            I = hirai.Interp(F, mod, max_depth=18)
            I.max_recursion = 6
            s0 = hirai.State({}, dict(st.mon), 0).setroot(("T", "doc"), pdoc)
            if pre_append:
                hh = treemodel.heap_get(s0)
                rootid = pdoc[2][0][2]
                lastp = [c for c in hh[rootid][3] if hh[c][1] == "N" and hh[c][2] == "PARAGRAPH"][-1]
                s0 = s0.setroot(("T", "lastp"), ("enum", P + "Paragraph", (("abs", "nref", lastp),)))
                rpre = I.inline(F.fn(P + "Paragraph::insert"), [("ref", (("T", "lastp"),)), symstr.lit("X"), A("x")], s0)
                if len(rpre) != 1 or rpre[0][0] != OK:
                    C.ob("C07/pre-step", label, False, "Paragraph::insert before reformatting has outcomes %s" % [(c_, str(v_)[:60]) for c_, v_, _ in rpre])
                    continue
                s0 = rpre[0][2]
            mllv = none() if mll == "none" else some(hirai.mkint(30))
            pw = some(("abs", "para-wrap", (ind_val(ind), iel, mllv, sort, fmt)))
            args = [("ref", (("T", "doc"),)), some(("abs", "cmp-para")) if sort else none(), pw]
            f = F.fn(P + "Deb822::wrap_and_sort")
            try:
                res = I.inline(f, args, s0)
            except hirai.Violation as e:
                C.ob("C07/analysis", label, False, str(e))
                continue
            if not res:
                C.ob("C07/outcomes", label, False, "no outcome")
            want_paras = [list(p) for p in base_paras]
            if sort:
                want_paras = [sorted(p, key=lambda kv: kv[0]) for p in want_paras]
                want_paras = sorted(want_paras, key=lambda p: p[0][0] if p else "")
            for oi, (ctl, v, s) in enumerate(res):
                olabel = label if len(res) == 1 else "%s [outcome %d/%d]" % (label, oi + 1, len(res))
                if ctl != OK:
                    C.ob("C07/total", olabel, False, "wrap_and_sort ends with %s %s" % (ctl, str(v)[:160]), f["sp"])
                    continue
                v = I.deref_val(s, v)
                root = v[2][0][2]
                h = treemodel.heap_get(s)
                flat = []
                flatten(mod, h, root, flat)
                text = db.text_of_tokens(flat)
                re_toks = relex(F, flat)
                if re_toks is None:
                    C.ob("C07/parses-strictly", olabel, False, "the printed result %r cannot be re-lexed" % text, f["sp"])
                    continue
                paras, comments, indents, seps, err = analyse(re_toks)
                C.ob("C07/parses-strictly", olabel, err is None, "the result prints %r: %s" % (text, err), f["sp"])
                if err is not None:
                    continue
                C.ob("C07/content-kept", olabel, paras == want_paras, "result has paragraphs %s, expected %s (printed %r)" % (paras, want_paras, text), f["sp"])
                C.ob("C07/comments-kept", olabel, sorted(comments) == sorted(base_comments), "comments (text, following field) %s, originally %s" % (comments, base_comments), f["sp"])
                width = {"s1": 1, "s4": 4}.get(ind)
                bad_ind = [(k, t) for k, t in indents if t != " " * (width if width else len(k))]
                C.ob("C07/indentation", olabel, not bad_ind, "continuation lines indented %s, requested %s" % (bad_ind, width or "field-name length"), f["sp"])
                C.ob("C07/one-blank-line", olabel, all(x == 1 for x in seps), "blank lines between paragraphs: %s (printed %r)" % (seps, text), f["sp"])
                C.ob("C07/result-mutable", olabel, h[root][5], "the returned document is an immutable tree")
                live = [[(k, [x.strip() for x in val.split("\n") if x.strip()]) for k, val in p] for p in live_paragraphs(F, mod, s, root, h) if p]
                if fmt and multiline:
                    agg.setdefault("live", []).append((live == paras, "the returned object reports %s, its printed form re-reads as %s" % (live, paras)))
                else:
                    C.ob("C07/live-equals-reread", olabel, live == paras, "the returned object reports %s, its printed form re-reads as %s" % (live, paras), f["sp"])
                # idempotence
                I2 = hirai.Interp(F, mod, max_depth=18)
                I2.max_recursion = 6
                s1 = hirai.State({}, dict(s.mon), 0).setroot(("T", "doc"), v)
                try:
                    res2 = I2.inline(f, [("ref", (("T", "doc"),))] + args[1:], s1)
                except hirai.Violation as e:
                    res2 = []
                texts2 = set()
                for c2, v2, s2 in res2:
                    if c2 != OK:
                        texts2.add("<%s %s>" % (c2, str(v2)[:80]))
                        continue
                    v2 = I2.deref_val(s2, v2)
                    f2 = []
                    flatten(mod, treemodel.heap_get(s2), v2[2][0][2], f2)
                    texts2.add(db.text_of_tokens(f2))
                # with unknown lengths the second pass forks again; the same length decision must give the same text
                if fmt and multiline:
                    agg.setdefault("idem", []).append((text in texts2, "second application yields %s, first gave %r" % (sorted(texts2)[:2], text)))
                else:
                    C.ob("C07/idempotent", olabel, text in texts2 and all(len(t) > 0 or text == "" for t in texts2), "second application yields %s, first gave %r" % (sorted(texts2)[:3], text), f["sp"])
                if len(C.samples) < 6:
                    C.sample({"layout": lname, "settings": label.split(" :: ")[1], "before": db.text_of_tokens(toks), "after": text})
        if agg:
            bad = [d for k in ("live", "idem") for ok, d in agg.get(k, []) if not ok]
            C.ob("C07/formatter-multiline-output", lname, not bad, "with a value formatter whose output has several lines: " + (bad[0] if bad else ""), F.fn(P + "Entry::wrap_and_sort")["sp"])
    C.floor("C07/runs", n, 30, "layout x settings combinations")
    check_control_comparator(F, C)
    check_stable_sorts(F, C)
    C.assumptions += ["format_value (control-file formatter) path not covered here", "token text lengths are unknown: length-dependent layout decisions are explored both ways",
                      "bounded: 3 layouts x settings matrix; comparators depend on field names only"]
    return C.finish("wrap_and_sort is interpreted on the parser's trees for symbolic documents over the settings matrix; every outcome must parse strictly, keep paragraphs/fields/value lines (in the requested order) and comments in front of the same field, "
                    "indent continuation lines by the requested width, separate paragraphs by one blank line, report the same content as its re-read, and be a fixed point of a second application.")


# ----------------------------------------------------------------------------- control-file wrapper: paragraph comparator
def check_control_comparator(F, C):
    """Control::wrap_and_sort sorts paragraphs with a closure; it must be a consistent order (antisymmetric, reflexive),
    put source stanzas first and order stanzas of the same kind by name - otherwise repeated reformatting reorders."""
    import c15, c13
    key = "debian_control::lossless::control::Control::wrap_and_sort"
    f = F.fn(key)
    if not C.ob("C07/anchor", key, f is not None, "not found"):
        return
    clos = [x for x in facts.walk(f["body"]) if x.get("k") == "Closure" and len(x.get("params", [])) == 2]
    if not C.ob("C07/anchor", key + " paragraph comparator", len(clos) >= 1, "no two-argument closure found"):
        return

    class M(c15.Mod):
        def intrinsic(self, I, callee, args, st, n):
            if callee.endswith("as core::cmp::Ord>::cmp") or callee == "core::cmp::Ord::cmp":
                a, b = I.deref_val(st, args[0]), I.deref_val(st, args[1])

                def keyof(v):
                    if v[0] == "enum" and v[1] == NONE:
                        return (0, b"")
                    if v[0] == "enum" and v[1] == SOME:
                        x = I.deref_val(st, v[2][0])
                        if x[0] in ("sstr", "str") and symstr.is_concrete(symstr.pieces_of(x)):
                            return (1, symstr.show(x).encode())
                    if v[0] in ("sstr", "str") and symstr.is_concrete(symstr.pieces_of(v)):
                        return (1, symstr.show(v).encode())
                    return None
                ka, kb = keyof(a), keyof(b)
                if ka is not None and kb is not None:
                    return [(OK, c13.ordering(-1 if ka < kb else 1 if ka > kb else 0), st)]
            return super().intrinsic(I, callee, args, st, n)

    def para(pairs):
        return ("abs", "para", tuple((symstr.lit(k), symstr.lit(v)) for k, v in pairs))
    stanzas = {"source aaa": para([("Source", "aaa")]), "source bbb": para([("Source", "bbb"), ("Section", "x")]),
               "binary aaa": para([("Package", "aaa")]), "binary bbb": para([("Package", "bbb")]),
               "binary ccc with Source field": para([("Package", "ccc"), ("Source", "aab")])}
    mod = M(F)
    I = hirai.Interp(F, mod)
    st0 = hirai.State(depth=1)
    cvs = I.eval(clos[0], st0)
    if not C.ob("C07/control-comparator", "closure value", len(cvs) == 1 and cvs[0][0] == OK, "cannot evaluate the closure expression"):
        return
    cv, st1 = cvs[0][1], cvs[0][2]
    res = {}
    names = list(stanzas)
    for a in names:
        for b in names:
            s, pa = I.newtemp(st1, stanzas[a])
            s, pb = I.newtemp(s, stanzas[b])
            out = I.apply(cv, [("ref", pa), ("ref", pb)], s, {})
            vals = {I.deref_val(s2, v)[1].rsplit("::", 1)[-1] if ctl == OK and I.deref_val(s2, v)[0] == "enum" else "?%s" % ctl for ctl, v, s2 in out}
            res[(a, b)] = vals
    flip = {"Less": "Greater", "Greater": "Less", "Equal": "Equal"}
    n = 0
    for a in names:
        for b in names:
            n += 1
            ra, rb = res[(a, b)], res[(b, a)]
            ok = len(ra) == 1 and len(rb) == 1 and not any(x.startswith("?") for x in ra | rb)
            if a == b:
                C.ob("C07/control-comparator", "cmp(%s, %s)" % (a, a), ok and ra == {"Equal"}, "comparing a stanza with itself gives %s" % sorted(ra), f["sp"])
            else:
                C.ob("C07/control-comparator", "cmp(%s, %s) vs cmp(%s, %s)" % (a, b, b, a), ok and {flip[x] for x in ra} == rb,
                     "not antisymmetric: %s / %s (an inconsistent comparator makes repeated reformatting reorder paragraphs)" % (sorted(ra), sorted(rb)), f["sp"])
    C.ob("C07/control-comparator", "source stanzas sort before binary stanzas", res[("source bbb", "binary aaa")] == {"Less"}, "cmp(source bbb, binary aaa) = %s" % sorted(res[("source bbb", "binary aaa")]), f["sp"])
    C.ob("C07/control-comparator", "binary stanzas sort by package name", res[("binary aaa", "binary bbb")] == {"Less"}, "cmp(binary aaa, binary bbb) = %s" % sorted(res[("binary aaa", "binary bbb")]), f["sp"])
    C.ob("C07/control-comparator", "source stanzas sort by source name", res[("source aaa", "source bbb")] == {"Less"}, "cmp(source aaa, source bbb) = %s" % sorted(res[("source aaa", "source bbb")]), f["sp"])
    C.floor("C07/control-comparator", n, 25, "stanza pairs compared")


def check_stable_sorts(F, C):
    """'keeps the original order when none is requested / among equal elements': every sort reachable from the
    reformatting entry points must be a stable one (the interpretation models sorts as stable; an unstable sort only
    shows on slices longer than the insertion-sort threshold, which no bounded layout reaches)"""
    roots = [k for k in F.fns if k.endswith("::wrap_and_sort") and (k.startswith("deb822_lossless::lossless::") or k.startswith("debian_control::lossless::control::"))]
    C.floor("C07/stable-sort/entry-points", len(roots), 5, "wrap_and_sort entry points")
    g = facts.build_callgraph(F)
    seen, parent = facts.reachable(g, roots)
    nsort = 0
    for k in sorted(seen):
        f = F.fns[k]
        for b in f.get("mir", []) or []:
            if b.get("t") == "Call":
                d = b.get("inst") or b.get("def") or ""
                if "::sort" in d and "slice" in d:
                    nsort += 1
                    C.ob("C07/stable-sort", "%s calls %s" % (k, d.rsplit("::", 1)[-1]), "sort_unstable" not in d,
                         "an unstable sort may reorder fields/paragraphs that compare equal (duplicate names, comparators that look at part of the name)", f.get("sp", ""))
    C.floor("C07/stable-sort", nsort, 1, "sort calls reachable from wrap_and_sort")
