"""C15 - typed accessors: what a setter writes its getter reads; the value lives in exactly one field with the
documented Debian name; nothing else moves.

Every set_x / x pair of every lossless typed view (control Source/Binary, apt Source/Package/Release, changes,
buildinfo, copyright Header/FilesParagraph, DEP-3 PatchHeader, ...) is interpreted against an ordered
list-of-pairs paragraph model with symbolic values:
  D1 setter on an empty paragraph, then getter  -> returns the value written
  D2 the field name written equals the Debian name derived from the accessor name (exception table below)
  D3 setter on a paragraph that already has the field (between two foreign fields) -> replaced in place,
     exactly one field of that name, foreign fields untouched (an appending setter leaves the stale value first)
  D4 getter after that -> the new value;  clearing setters (Option::None) remove the field
  D5 Control::source()/binaries() select paragraphs by Source / Package; Source::vcs() reaches Vcs::from_field
     with a name of its table."""
import re
import facts, hirai, symstr, roundtrip, c16, rowanmodel
from roundtrip import show_value, normalize
from hirai import OK, RET, PANIC, OKV, ERRV, SOME, NONE, some, none, unk, UNIT
from report import Check

PARA = "deb822_lossless::lossless::Paragraph::"
VIEW_PREFIXES = ("debian_control::lossless::control::", "debian_control::lossless::apt::", "debian_control::lossless::changes::", "debian_control::lossless::buildinfo::",
                 "debian_copyright::lossless::", "dep3::lossless::")
OPAQUE = dict(c16.OPAQUE_TYPES)
OPAQUE.update({"debian_control::lossless::relations::Relations": "lossless relationship field (C09-C11)", "chrono::datetime::DateTime<chrono::offset::fixed::FixedOffset>": "external",
               "debian_control::vcs::Vcs": "see C18", "chrono::naive::datetime::NaiveDateTime": "external"})
FLOOR_PAIRS = 120

# accessor name -> field name, where the Debian name is not the capitalised accessor name
NAME_EXCEPTIONS = {
    ("*", "name"): None,   # Source/Package: checked against the view kind below
    ("debian_control::lossless::control::Source", "name"): "Source",
    ("debian_control::lossless::control::Binary", "name"): "Package",
    ("debian_control::lossless::apt::Source", "package"): "Package",
    ("debian_control::lossless::apt::Package", "name"): "Package",
    ("*", "md5sum"): "MD5sum", ("*", "sha256"): "SHA256", ("*", "sha1"): "SHA1", ("*", "sha512"): "SHA512", ("*", "description_md5"): "Description-md5",
    ("*", "checksums_md5"): "Checksums-Md5", ("*", "checksums_sha1"): "Checksums-Sha1", ("*", "checksums_sha256"): "Checksums-Sha256", ("*", "checksums_sha512"): "Checksums-Sha512",
    ("*", "binaries"): "Binary", ("*", "files_excluded"): "Files-Excluded", ("*", "format_string"): "Format",
    ("debian_control::lossless::apt::Release", "checksums_md5"): "MD5Sum", ("debian_control::lossless::apt::Release", "checksums_sha1"): "SHA1",
    ("debian_control::lossless::apt::Release", "checksums_sha256"): "SHA256", ("debian_control::lossless::apt::Release", "checksums_sha512"): "SHA512",
    ("dep3::lossless::PatchHeader", "long_description"): "Description", ("dep3::lossless::PatchHeader", "upstream_bug"): "Bug",
}


class Mod(c16.Mod):
    def __init__(self, facts):
        super().__init__(facts)
        for t in OPAQUE:
            self.fromstr_impls.pop(t, None)
            self.display_impls.pop(t, None)
        self.inserted = []

    def intrinsic(self, I, callee, args, st, n):
        c = callee
        if c.startswith(PARA):
            m = c[len(PARA):]
            pairs = self.para_pairs(I, st, args[0])
            if pairs is None:
                return None
            if m == "get":
                return super().intrinsic(I, "x::Deb822LikeParagraph::get", args, st, n)
            if m in ("set", "remove"):
                return super().intrinsic(I, "x::Deb822LikeParagraph::" + m, args, st, n)
            if m == "insert":
                key = normalize(I.deref_val(st, args[1]))
                val = normalize(I.deref_val(st, args[2]))
                self.inserted.append(symstr.show(key))
                self.ops.append(("insert", symstr.show(key), symstr.show(val)))
                return [(OK, UNIT, I.write(st, args[0][1], ("abs", "para", pairs + ((key, val),))))]
            if m == "contains_key":
                key = I.deref_val(st, args[1])
                return [(OK, ("bool", any(hirai.str_equal(k, key) for k, v in pairs)), st)]
            if m == "get_all":
                key = I.deref_val(st, args[1])
                return [(OK, ("abs", "siter", tuple(v for k, v in pairs if hirai.str_equal(k, key)), 0), st)]
            if m == "items":
                return [(OK, ("abs", "siter", tuple(("tuple", (k, v)) for k, v in pairs), 0), st)]
            if m == "keys":
                return [(OK, ("abs", "siter", tuple(k for k, v in pairs), 0), st)]
        if c.endswith("as core::str::traits::FromStr>::from_str") and c[1:].split(" as ")[0] in OPAQUE:
            a0 = I.deref_val(st, args[0])
            p = symstr.pieces_of(a0)
            if p is not None and len(p) == 1 and p[0][0] == "atom":
                return [(OK, ("enum", OKV, (a0,)), st)]
            return [(OK, ("enum", ERRV, (unk("opaque-parse"),)), st)]
        if c == "core::str::<impl str>::parse":
            ty = n.get("ty", "")
            if ty.startswith("core::result::Result<"):
                inner = ty[len("core::result::Result<"):]
                for t in OPAQUE:
                    if inner.startswith(t + ","):
                        a0 = I.deref_val(st, args[0])
                        p = symstr.pieces_of(a0)
                        if p is not None and len(p) == 1 and p[0][0] == "atom":
                            return [(OK, ("enum", OKV, (a0,)), st)]
                        return [(OK, ("enum", ERRV, (unk("opaque-parse"),)), st)]
        if c in ("chrono::datetime::DateTime::<chrono::offset::fixed::FixedOffset>::parse_from_rfc2822", "chrono::datetime::DateTime::<Tz>::to_rfc2822", "chrono::naive::datetime::NaiveDateTime::parse_from_str"):
            a0 = I.deref_val(st, args[0])
            if c.endswith("to_rfc2822"):
                return [(OK, a0, st)]
            p = symstr.pieces_of(a0)
            if p is not None and len(p) == 1 and p[0][0] == "atom":
                return [(OK, ("enum", OKV, (a0,)), st)]
            return [(OK, ("enum", ERRV, (unk("date"),)), st)]
        return super().intrinsic(I, c, args, st, n)


def gen_arg(F, ty, name):
    """representative argument values for a setter parameter type: list of (label, value)"""
    t = ty
    m = re.fullmatch(r"core::option::Option<(.*)>", t)
    if m:
        inner = gen_arg(F, m.group(1), name)
        return [("Some(%s)" % l, some(v)) for l, v in inner] + [("None", none())]
    t = t.lstrip("&").replace("'a ", "").replace("'_ ", "").strip()
    if t.startswith("mut "):
        t = t[4:]
    if t in ("str", "alloc::string::String", "std::path::Path", "std::path::PathBuf") or t in OPAQUE:
        return [("atom", symstr.atom(name, "word"))]
    if re.fullmatch(r"(u|i)(8|16|32|64|128|size)", t):
        return [("int", symstr.atom(name, "int"))]
    if t == "bool":
        return [("true", ("bool", True)), ("false", ("bool", False))]
    m = re.fullmatch(r"\[(.*)\]", t) or re.fullmatch(r"alloc::vec::Vec<(.*)>", t)
    if m:
        inner = gen_arg(F, m.group(1), name)
        if inner and len(inner) >= 1:
            v1 = inner[0][1]
            it = m.group(1).lstrip("&").strip()
            if it in ("str", "alloc::string::String"):
                return [("list2", ("abs", "svec", (symstr.atom(name + "1"), symstr.atom(name + "2"))))]
            vals = [v for l, v in inner][:2]
            return [("list", ("abs", "svec", tuple(vals)))]
    if t in F.adts:
        vals = roundtrip.gen_values(F, t, name)
        if t == "dep3::fields::Origin":
            vals = vals + [("enum", "dep3::fields::Origin::Other", (symstr.mk([("atom", name + "a", "word"), ("lit", ", "), ("atom", name + "b", "word")]),))]
        vals = [v for v in vals if not has_unk(v)]
        if vals:
            return [(show_value(v)[:30], v) for v in vals[:6]]
    return []


def has_unk(v):
    if not isinstance(v, tuple):
        return False
    if v and v[0] == "unk":
        return True
    return any(has_unk(x) for x in v if isinstance(x, tuple))


def canon(I, st, v):
    """strip Some/Ok/refs, normalise strings, for comparing a getter result with a setter argument"""
    v = I.deep_deref(st, I.deref_val(st, v), 0) if I is not None else v
    v = normalize(v)
    while v[0] == "enum" and v[1] in (SOME, OKV) and len(v[2]) == 1:
        v = v[2][0]
    if v[0] == "tuple":
        v = ("tuple", tuple(x if (x[0] == "enum" and x[1] in (SOME, NONE)) else canon(None, None, x) for x in v[1]))
    if v[0] == "abs" and v[1] == "siter":
        v = ("abs", "svec", v[2][v[3]:])
    return v


def expected_field_name(view, acc):
    for key in ((view, acc), ("*", acc)):
        if key in NAME_EXCEPTIONS and NAME_EXCEPTIONS[key] is not None:
            return NAME_EXCEPTIONS[key]
    return "-".join(p.capitalize() if p not in ("vcs",) else "Vcs" for p in acc.split("_"))


def run(tier):
    F = facts.Facts()
    hirai.INT_BOUND = 4
    C = Check("C15", "other", tier, "abstract interpretation of every setter/getter pair of the lossless typed views against an ordered list-of-pairs paragraph model (symbolic values)",
              ["rustc HIR/typeck", "hirai + symbolic strings", "lossless Paragraph::{get,set,remove} are list operations (C04)"])
    views = {}
    for k, f in sorted(F.fns.items()):
        if f["dk"] != "AssocFn" or "trait" in f or "body" not in f:
            continue
        st = f.get("self_ty", "")
        if st.startswith(VIEW_PREFIXES) and st in F.adts:
            views.setdefault(st, {})[f["name"]] = f
    npairs = ndec = 0
    for view, ms in sorted(views.items()):
        adt = F.adts[view]
        flds = adt["variants"][0]["fields"] if adt["variants"] else []
        if not (len(flds) == 1 and flds[0]["ty"].endswith("lossless::Paragraph")):
            continue
        for sname in sorted(m for m in ms if m.startswith("set_")):
            acc = sname[4:]
            setter = ms[sname]
            getter = ms.get(acc)
            npairs += 1
            label = "%s::%s" % (view.split("::")[-1] if view.count("::") < 3 else "::".join(view.split("::")[-2:]), sname)
            params = setter["inputs"][1:]
            argsets = [[]]
            ok_args = True
            for i, pt in enumerate(params):
                g = gen_arg(F, pt, acc if len(params) == 1 else "%s%d" % (acc, i))
                if not g:
                    ok_args = False
                    break
                argsets = [a + [x] for a in argsets for x in g]
            if not ok_args or not argsets:
                C.note("undecided", "%s: cannot generate an argument of type %s" % (label, params))
                continue
            decided_here = False
            for argset in argsets[:8]:
                albl = ", ".join(l for l, v in argset)
                vals = [v for l, v in argset]
                clearing = len(vals) == 1 and vals[0] == none()
                # ---- run 1: empty paragraph
                mod = Mod(F)
                I = hirai.Interp(F, mod)
                st0 = hirai.State(depth=0).setroot(("T", "view"), ("struct", view, (("0", ("abs", "para", ())),)))
                cargs = [("ref", (("T", "view"),))]
                stc = st0
                for v in vals:
                    if v[0] in ("abs",) and v[1] == "svec":
                        stc, p = I.newtemp(stc, v)
                        cargs.append(("ref", p))
                    elif v[0] in ("enum", "struct") and not (v[1] in (SOME, NONE)):
                        stc, p = I.newtemp(stc, v)
                        cargs.append(("ref", p) if setter["inputs"][1 + len(cargs) - 1].startswith("&") else v)
                    else:
                        cargs.append(v)
                res = I.inline(setter, cargs, stc)
                if len(res) != 1 or res[0][0] != OK:
                    C.note("undecided", "%s(%s): setter has %d outcomes / control %s" % (label, albl, len(res), [r[0] for r in res]))
                    continue
                p1 = res[0][2].store[("T", "view")][2][0][1]
                if p1[0] != "abs" or any(has_unk(k) or has_unk(v) for k, v in p1[2]):
                    C.note("undecided", "%s(%s): value written not decidable %s (unknown calls %s)" % (label, albl, [(symstr.show(k) if k[0] == 'sstr' else '?', str(v)[:60]) for k, v in p1[2]], sorted(I.unknown_calls)[:4]))
                    continue
                keys = [symstr.show(k) for k, v in p1[2]]
                false_flag = len(vals) == 1 and vals[0] == ("bool", False) and keys == []
                if false_flag:
                    clearing = True      # a false flag is represented by the absence of the field (getter must then read false)
                    if getter is not None:
                        Ig = hirai.Interp(F, mod)
                        rg = Ig.inline(getter, [("ref", (("T", "view"),))], hirai.State(depth=0).setroot(("T", "view"), ("struct", view, (("0", p1),))))
                        gotg = [canon(Ig, s, v) for ctl, v, s in rg if ctl == OK]
                        C.ob("C15/get-after-set", "%s(false) then %s()" % (label, acc), gotg == [("bool", False)], "getter returns %s for an absent flag" % [show_value(g) for g in gotg], getter["sp"])
                if clearing:
                    C.ob("C15/clear-removes", "%s(%s) on an empty paragraph" % (label, albl), keys == [], "clearing setter writes %s" % keys, setter["sp"])
                    written_key = None
                else:
                    if not C.ob("C15/one-field", "%s(%s)" % (label, albl), len(keys) == 1, "the setter writes %d fields %s, expected exactly one" % (len(keys), keys), setter["sp"]):
                        continue
                    written_key = keys[0]
                    key_sstr = p1[2][0][0]
                    want_name = expected_field_name(view, acc)
                    if symstr.is_concrete(key_sstr[1]) and len(params) == 1:
                        C.ob("C15/field-name", "%s" % label, written_key == want_name, "writes field %r, the accessor is documented for %r" % (written_key, want_name), setter["sp"])
                C.ob("C15/set-not-insert", "%s(%s)" % (label, albl), not mod.inserted, "the setter appends with Paragraph::insert (fields %s): an existing field keeps shadowing the new value" % mod.inserted, setter["sp"])
                decided_here = True
                if getter is None:
                    continue
                # ---- getter on what was written
                if not clearing:
                    I2 = hirai.Interp(F, mod)
                    st2 = hirai.State(depth=0).setroot(("T", "view"), ("struct", view, (("0", p1),)))
                    r2 = I2.inline(getter, [("ref", (("T", "view"),))], st2)
                    got = [canon(I2, s, v) for ctl, v, s in r2 if ctl == OK]
                    want = canon(None, None, vals[0]) if len(vals) == 1 else canon(None, None, ("tuple", tuple(vals)))
                    if len(vals) > 1 and not (got and got[0][0] == "tuple" and len(got[0][1]) == len(vals)):
                        want = None
                    if len(r2) != 1 or r2[0][0] != OK or any(has_unk(g) for g in got):
                        C.note("undecided", "%s(%s): getter result not decidable: %s (unknown %s)" % (label, albl, [show_value(g)[:80] for g in got], sorted(I2.unknown_calls)[:4]))
                    elif want is not None:
                        C.ob("C15/get-after-set", "%s(%s) then %s()" % (label, albl, acc), got == [want],
                             "getter returns %s after the setter wrote %s = %r (argument %s)" % ([show_value(g) for g in got], written_key, symstr.show(p1[2][0][1]), show_value(want)), getter["sp"])
                        C.sample({"pair": label, "field": written_key, "stored": symstr.show(p1[2][0][1]), "read_back": [show_value(g) for g in got]}) if len(C.samples) < 25 else None
                # ---- list getters read every layout of the separator the documented format allows (parsed text)
                if not clearing and len(vals) == 1 and vals[0][0] == "abs" and vals[0][1] == "svec" and len(vals[0][2]) >= 2 and len(p1[2]) == 1:
                    stored = p1[2][0][1]
                    ps = symstr.pieces_of(stored) if stored[0] in ("sstr", "str") else None
                    seps = [x[1] for x in (ps or ()) if x[0] == "lit"]
                    if ps and seps and len(set(seps)) == 1 and all(x[0] == "atom" for i, x in enumerate(ps) if i % 2 == 0) and len(ps) == 2 * len(vals[0][2]) - 1:
                        sep = seps[0]
                        if "," in sep:
                            variants = [",", ", ", ",\n", " , ", ",  "]
                        elif sep == " ":
                            variants = ["  ", "\n", "\t"]
                        else:
                            variants = []
                        for alt in variants:
                            if alt == sep:
                                continue
                            text = symstr.mk([("lit", alt) if x[0] == "lit" else x for x in ps])
                            pv = ("abs", "para", ((p1[2][0][0], text),))
                            I5 = hirai.Interp(F, Mod(F))
                            st5 = hirai.State(depth=0).setroot(("T", "view"), ("struct", view, (("0", pv),)))
                            r5 = I5.inline(getter, [("ref", (("T", "view"),))], st5)
                            got5 = [canon(I5, s, v) for ctl, v, s in r5 if ctl == OK]
                            if len(r5) != 1 or r5[0][0] != OK or any(has_unk(g) for g in got5):
                                C.note("undecided", "%s on %r: getter not decidable" % (acc, symstr.show(text)))
                                continue
                            C.ob("C15/list-layouts", "%s::%s() on %r" % (view.split("::", 1)[1], acc, symstr.show(text)), got5 == [canon(None, None, vals[0])],
                                 "the getter reads %s; the same list written with %r between the items reads %s" % ([show_value(g) for g in got5], sep, show_value(canon(None, None, vals[0]))), getter["sp"])
                # ---- run 2: field already present between two foreign fields
                key_for_prior = written_key
                if clearing:
                    # find the key from the Some-run of the same accessor
                    key_for_prior = run.last_key.get((view, acc))
                else:
                    run.last_key[(view, acc)] = p1[2][0][0]
                if key_for_prior is None:
                    continue
                if not clearing:
                    key_for_prior = p1[2][0][0]
                prior = ("abs", "para", ((symstr.lit("X-Before"), symstr.atom("before", "line")), (key_for_prior, symstr.atom("stale", "line")), (symstr.lit("X-After"), symstr.atom("after", "line"))))
                key_for_prior = symstr.show(key_for_prior)
                mod3 = Mod(F)
                I3 = hirai.Interp(F, mod3)
                st3 = hirai.State(depth=0).setroot(("T", "view"), ("struct", view, (("0", prior),)))
                cargs3 = [("ref", (("T", "view"),))]
                for v in vals:
                    if v[0] == "abs" and v[1] == "svec":
                        st3, p = I3.newtemp(st3, v)
                        cargs3.append(("ref", p))
                    elif v[0] in ("enum", "struct") and not (v[1] in (SOME, NONE)):
                        st3, p = I3.newtemp(st3, v)
                        cargs3.append(("ref", p) if setter["inputs"][len(cargs3)].startswith("&") else v)
                    else:
                        cargs3.append(v)
                r3 = I3.inline(setter, cargs3, st3)
                if len(r3) != 1 or r3[0][0] != OK:
                    C.note("undecided", "%s(%s) on an existing field: %d outcomes" % (label, albl, len(r3)))
                    continue
                p3 = r3[0][2].store[("T", "view")][2][0][1]
                shown = [(symstr.show(k), symstr.show(v) if v[0] in ("sstr", "str") else str(v)[:40]) for k, v in p3[2]]
                foreign_ok = shown[:1] == [("X-Before", "<before>")] and shown[-1:] == [("X-After", "<after>")]
                C.ob("C15/foreign-untouched", "%s(%s) on an existing field" % (label, albl), foreign_ok, "paragraph after the setter: %s" % shown, setter["sp"])
                mine = [kv for kv in shown if kv[0] == key_for_prior]
                if clearing:
                    C.ob("C15/clear-removes", "%s(None) on an existing field" % label, mine == [], "field still present after clearing: %s" % mine, setter["sp"])
                else:
                    C.ob("C15/replace-in-place", "%s(%s) on an existing field" % (label, albl), len(mine) == 1 and len(shown) == 3 and shown[1][0] == key_for_prior and shown[1][1] != "<stale>",
                         "paragraph after the setter: %s (expected the field replaced in place, once)" % shown, setter["sp"])
                    if getter is not None and not any(has_unk(v) for k, v in p3[2]):
                        I4 = hirai.Interp(F, mod3)
                        st4 = hirai.State(depth=0).setroot(("T", "view"), ("struct", view, (("0", p3),)))
                        r4 = I4.inline(getter, [("ref", (("T", "view"),))], st4)
                        got4 = [canon(I4, s, v) for ctl, v, s in r4 if ctl == OK]
                        want = canon(None, None, vals[0]) if len(vals) == 1 else None
                        if len(r4) == 1 and want is not None and not any(has_unk(g) for g in got4):
                            C.ob("C15/get-after-replace", "%s(%s) on an existing field then %s()" % (label, albl, acc), got4 == [want],
                                 "getter returns %s, expected the new value %s (paragraph %s)" % ([show_value(g) for g in got4], show_value(want), shown), getter["sp"])
            if decided_here:
                ndec += 1
    C.extra["setter_getter_pairs"] = npairs
    C.extra["pairs_decided"] = ndec
    C.floor("C15/pairs", ndec, FLOOR_PAIRS, "setter/getter pairs decided")
    check_control(F, C)
    check_parsed_readings(F, C)
    C.extra["undecided_listed"] = C.analysed.get("undecided", [])[:80]
    C.assumptions += ["values are opaque atoms (valid single-line values); opaque value types print/parse an atom unchanged: " + ", ".join(sorted(OPAQUE)),
                      "lossless Paragraph get/set/remove/insert follow the ordered-list model (C04)", "expected Debian field names are derived from accessor names with the exception table in rules/c15.py"]
    return C.finish("Each setter is interpreted on an empty paragraph and on a paragraph that already has the field between two foreign fields; the written field name, in-place replacement, "
                    "foreign fields, clearing and the getter's reading of the stored text are compared with the argument. Undecidable pairs are listed and bounded by a floor.")


run.last_key = {}


def check_parsed_readings(F, C):
    """getters applied to parsed text: first description line / long description; environment lines 'KEY=value' whose
    value may itself contain '='"""
    cases = [
        ("dep3::lossless::PatchHeader", "description", "Description", [("atom", "l0", "word"), ("lit", "\n"), ("atom", "l1", "word"), ("lit", "\n"), ("atom", "l2", "word")], some(symstr.atom("l0", "word"))),
        ("dep3::lossless::PatchHeader", "long_description", "Description", [("atom", "l0", "word"), ("lit", "\n"), ("atom", "l1", "word"), ("lit", "\n"), ("atom", "l2", "word")],
         some(symstr.mk([("atom", "l1", "word"), ("lit", "\n"), ("atom", "l2", "word")]))),
        ("dep3::lossless::PatchHeader", "long_description", "Subject", [("atom", "l0", "word"), ("lit", "\n"), ("atom", "l1", "word"), ("lit", "\n"), ("atom", "l2", "word"), ("lit", "\n"), ("atom", "l3", "word")],
         some(symstr.mk([("atom", "l1", "word"), ("lit", "\n"), ("atom", "l2", "word"), ("lit", "\n"), ("atom", "l3", "word")]))),
        ("debian_control::lossless::buildinfo::Buildinfo", "environment", "Environment",
         [("lit", "DEB_BUILD_OPTIONS=\"parallel=32\"\nLANG=C.UTF-8\nA=b=c=d")], None),
    ]
    for view, acc, field, ps, want in cases:
        g = F.fn("%s::%s" % (view, acc))
        if not C.ob("C15/anchor", "%s::%s" % (view, acc), g is not None, "getter not found"):
            continue
        para = ("abs", "para", ((symstr.lit("X-Before"), symstr.atom("before", "line")), (symstr.lit(field), symstr.mk(ps))))
        I = hirai.Interp(F, Mod(F))
        st = hirai.State(depth=0).setroot(("T", "view"), ("struct", view, (("0", para),)))
        res = I.inline(g, [("ref", (("T", "view"),))], st)
        got = [normalize(I.deep_deref(s, I.deref_val(s, v), 0)) for ctl, v, s in res if ctl == OK and not has_unk(I.deref_val(s, v))]
        if acc == "environment":
            wantset = {("DEB_BUILD_OPTIONS", "\"parallel=32\""), ("LANG", "C.UTF-8"), ("A", "b=c=d")}
            pairs = set()
            for gv in got:
                inner = gv[2][0] if gv[0] == "enum" and gv[2] else None
                if inner and inner[0] == "abs" and inner[1] in ("svec", "siter", "sset"):
                    for t in inner[2]:
                        if t[0] == "tuple":
                            pairs.add((symstr.show(t[1][0]), symstr.show(t[1][1])))
            C.ob("C15/parsed-reading", "%s::%s() on %r" % (view.split("::", 1)[1], acc, symstr.show(symstr.mk(ps))), len(res) >= 1 and pairs == wantset,
                 "reads %s, expected %s (a value may itself contain '=')" % (sorted(pairs), sorted(wantset)), g["sp"])
        else:
            C.ob("C15/parsed-reading", "%s::%s() on %s = %r" % (view.split("::", 1)[1], acc, field, symstr.show(symstr.mk(ps))), got == [normalize(want)] and len(res) == len(got),
                 "reads %s, expected %s" % ([show_value(x) for x in got] + ["(%d undecided outcomes)" % (len(res) - len(got))] * (len(res) != len(got)), show_value(want)), g["sp"])


def check_control(F, C):
    """Control::source / binaries select by Source / Package; Source::vcs passes a table name to Vcs::from_field"""
    P = "debian_control::lossless::control::"
    import itertools, rowanmodel
    kinds = {"S": (("Source", "s"),), "B": (("Package", "p"),), "N": (("Other", "o"),)}

    class SelMod(Mod):
        def __init__(self, facts, paras):
            super().__init__(facts)
            self.paras = paras
            self.rm = rowanmodel.RowanMod(facts, "deb822_lossless::lex::SyntaxKind")

        def intrinsic(self, I, callee, args, st, n):
            if callee == "deb822_lossless::lossless::Deb822::paragraphs":
                return [(OK, ("abs", "siter", self.paras, 0), st)]
            a0 = I.deref_val(st, args[0]) if args else None
            if a0 is not None and a0[0] == "abs" and a0[1] == "siter" and "Iterator" in callee and callee.rsplit("::", 1)[-1] in ("find", "filter", "filter_map", "map", "nth", "last", "skip_while", "take_while", "position"):
                if callee.endswith("::map"):
                    return super().intrinsic(I, callee, args, st, n)
                return rowanmodel.RowanMod.adapter(self.rm, I, st, callee.rsplit("::", 1)[-1], list(a0[2][a0[3]:]), args, n)
            return super().intrinsic(I, callee, args, st, n)
    for fn in ("Control::source", "Control::binaries"):
        f = F.fn(P + fn)
        if not C.ob("C15/anchor", P + fn, f is not None, "not found"):
            continue
        for ln in range(0, 4):
            for shape in itertools.product(["S", "B", "N"], repeat=ln):
                paras = tuple(("abs", "para", tuple((symstr.lit(k), symstr.atom("%s%d" % (v, i), "line")) for k, v in kinds[sh])) for i, sh in enumerate(shape))
                mod = SelMod(F, paras)
                I = hirai.Interp(F, mod)
                res = I.inline(f, [("struct", P + "Control", (("0", ("abs", "doc")),))], hirai.State(depth=0))
                got = None
                if len(res) == 1 and res[0][0] == OK:
                    v = I.deref_val(res[0][2], res[0][1])
                    def pidx(x):
                        x = I.deref_val(res[0][2], x)
                        inner = x[2][0] if x[0] == "enum" and x[2] else (dict(x[2]).get("0") if x[0] == "struct" else x)
                        inner = I.deref_val(res[0][2], inner)
                        return paras.index(inner) if inner in paras else "?"
                    if fn.endswith("source"):
                        got = pidx(v[2][0]) if v[0] == "enum" and v[1] == SOME else (None if v[0] == "enum" and v[1] == NONE else "?")
                    elif v[0] == "abs" and v[1] == "siter":
                        got = [pidx(x) for x in v[2][v[3]:]]
                if fn.endswith("source"):
                    want = next((i for i, sh in enumerate(shape) if sh == "S"), None)
                else:
                    want = [i for i, sh in enumerate(shape) if sh == "B"]
                C.ob("C15/control-select", "%s on paragraphs %s" % (fn, list(shape)), got == want,
                     "selects %s, expected %s (%s)" % (got, want, "first paragraph with a Source field" if fn.endswith("source") else "all paragraphs with a Package field, in order"), f["sp"])
    f = F.fn(P + "Source::vcs")
    if C.ob("C15/anchor", P + "Source::vcs", f is not None, "not found"):
        mod = Mod(F)
        got_names = []
        orig = mod.intrinsic

        def watch(I, callee, args, st, n):
            if callee == "debian_control::vcs::Vcs::from_field":
                got_names.append(symstr.show(I.deref_val(st, args[0])))
                return [(OK, ("enum", OKV, (("abs", "vcs"),)), st)]
            return orig(I, callee, args, st, n)
        mod.intrinsic = watch
        for name in ("Git", "Svn", "Bzr"):
            I = hirai.Interp(F, mod)
            para = ("abs", "para", ((symstr.lit("Vcs-Browser"), symstr.atom("b", "line")), (symstr.lit("Vcs-" + name), symstr.atom("url", "line"))))
            st = hirai.State(depth=0).setroot(("T", "view"), ("struct", P + "Source", (("0", para),)))
            got_names.clear()
            res = I.inline(f, [("ref", (("T", "view"),))], st)
            C.ob("C15/source-vcs", "Source::vcs with Vcs-%s" % name, got_names == [name], "Vcs::from_field is called with %s; its table knows %r" % (got_names, name), f["sp"])
