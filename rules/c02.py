"""C02 - every text-parsing entry point is total: no panic, no hang.

E1  enumerate every panic-capable site (MIR Assert terminators, calls to partial APIs) in every workspace
    function reachable (MIR call graph, trait calls fanned out to all impls) from the text-parsing entry points.
    Each site must be discharged by
      (a) an abstract-interpretation run over ALL inputs (universal token oracle / all character classes) that
          inlines the site's function, models partial calls as may-panic, and reaches no panic outcome, or
      (b) the lexer transition tables (split index is a char boundary, counters bounded), or
      (c) an entry of tables/reviewed_sites.json keyed (function, callee, ordinal) with a reason.
E2  termination: every loop in a reachable function is (a) covered by a run whose no-progress-cycle check passed,
    (b) a `for` loop over a finite std iterator, or (c) reviewed.
E3  no recursion among reachable functions; reported metric (not judged): maximum nesting of explicit loops along any
    call path."""
import json, os, re, collections
import facts, hirai, tokcursor, lexer, deb822_parse, relations_parse as rp, lossy_parse as lp, lossyrel_parse as lr, roundtrip
from hirai import OK, RET, PANIC, OKV, ERRV
from report import Check, VERIF

ENTRY_NAMES = ["from_str_relaxed", "parse_relaxed", "read", "read_relaxed", "strip_pgp_signature", "from_field", "parse_identity",
               "parse_origin", "from_reader", "from_file", "from_file_relaxed"]
FLOOR_ENTRIES = 60
FLOOR_REACHABLE = 450

PARTIAL = re.compile(
    r"(^core::option::Option::<T>::(unwrap|expect)$|^core::result::Result::<T, E>::(unwrap|expect|unwrap_err|expect_err)$"
    r"|^core::panicking::|^std::rt::begin_panic|^core::option::(unwrap_failed|expect_failed)|^core::result::unwrap_failed"
    r"|::split_at$|::split_at_mut$|ops::index::Index<.*>>::index$|ops::index::IndexMut<.*>>::index_mut$|ops::index::Index<I> for str>::index$"
    r"|^alloc::vec::Vec::<T, A>::(remove|insert|swap_remove|drain|split_off|truncate)$|^core::slice::<impl \[T\]>::(swap|copy_from_slice|split_at|chunks|windows)$"
    r"|GreenNodeBuilder::<'_>::(finish_node|finish)$|SyntaxNode::<L>::(splice_children|detach)$|^core::cell::RefCell|::unwrap_unchecked$"
    r"|^alloc::string::String::(remove|insert|insert_str|truncate|drain|split_off)$|^core::str::<impl str>::(split_at|get_unchecked))")


def load_reviewed():
    p = os.path.join(VERIF, "tables", "reviewed_sites.json")
    if not os.path.exists(p):
        return {}
    out = {}
    for e in json.load(open(p)):
        out[(e["fn"], e["callee"], e.get("ordinal", 0))] = e
    return out


def fn_literals(F, key):
    f = F.fns.get(key)
    lits = set()
    if f and "body" in f:
        for x in facts.walk(f["body"]):
            if x.get("k") == "Lit" and x.get("t") in ("str", "int", "char"):
                lits.add((x["t"], x["v"]))
            if x.get("p") == "Lit" and isinstance(x.get("lit"), dict):
                lits.add((x["lit"].get("t"), x["lit"].get("v")))
    return lits


def entry_points(F):
    roots = [k for k, f in F.fns.items() if f.get("trait") == "core::str::traits::FromStr" and f.get("name") == "from_str"]
    roots += [k for k, f in F.fns.items() if f.get("name") in ENTRY_NAMES and f.get("pub") and f["dk"] in ("Fn", "AssocFn")]
    return sorted(set(roots))


def sites_of(f):
    """panic-capable sites of a function from its MIR: list of (callee-or-assert, ordinal, sp)"""
    out = []
    cnt = collections.Counter()
    for b in f.get("mir", []) or []:
        if b.get("cleanup"):
            continue
        if b["t"] == "Assert":
            m = b["msg"]
            if m.startswith("Discriminant"):
                continue     # layout checks of box/vec! expansions
            key = "assert:" + m
        elif b["t"] == "Call":
            d = b.get("inst") or b.get("def")
            if not PARTIAL.search(d):
                continue
            key = d
        else:
            continue
        out.append((key, cnt[key], b["sp"], b.get("x")))
        cnt[key] += 1
    return out


GB = "rowan::green::builder::GreenNodeBuilder::<'_>::"


def builder_straight_line(f):
    """(d) a function that creates one GreenNodeBuilder and drives it only by straight-line statements (no builder
    call under a branch, loop or closure, the builder never handed to another function): simulate the call sequence;
    finish_node needs an open node, finish needs exactly one finished root and nothing open.  True when every such call
    in the function is safe."""
    if "body" not in f:
        return False
    seq, bad = [], []

    def walk(x, nested):
        if isinstance(x, list):
            for y in x:
                walk(y, nested)
            return
        if not isinstance(x, dict):
            return
        k = x.get("k")
        if k in ("Call", "MCall"):
            d = x.get("def") or ""
            # arguments / receiver first (evaluation order)
            for key in ("recv", "f", "args"):
                if key in x:
                    walk(x[key], nested)
            if d.startswith(GB):
                (bad if nested else seq).append(d[len(GB):])
            else:
                for a in ([x["recv"]] if "recv" in x else []) + list(x.get("args", [])):
                    if isinstance(a, dict) and "GreenNodeBuilder" in (a.get("ty") or ""):
                        bad.append("escapes to " + d)
            return
        sub = nested or k in ("If", "Match", "Loop", "Closure")
        for key, v in x.items():
            if isinstance(v, (dict, list)):
                walk(v, sub)
    walk(f["body"], False)
    if bad or seq.count("new") != 1 or seq[0] != "new":
        return False
    depth = roots = 0
    for m in seq[1:]:
        if m == "start_node":
            depth += 1
        elif m == "finish_node":
            if depth == 0:
                return False
            depth -= 1
            if depth == 0:
                roots += 1
        elif m == "token":
            if depth == 0:
                return False
        elif m == "finish":
            if depth != 0 or roots != 1:
                return False
        else:
            return False
    return True


def hir_loops(f):
    out = []
    if "body" not in f:
        return out
    for x in facts.walk(f["body"]):
        if x.get("k") == "Loop":
            out.append(x)
    return out


class TrackingInterp(tokcursor.LoopProgressInterp):
    """records which workspace functions were interpreted; partial external APIs may panic"""

    def __init__(self, *a, **kw):
        super().__init__(*a, **kw)
        self.inlined = set()
        self.partial_visited = set()

    def _inline(self, f, args, st):
        self.inlined.add(f["key"])
        return super()._inline(f, args, st)

    def call(self, callee, args, st, n):
        r = super().call(callee, args, st, n)
        if callee and PARTIAL.search(callee) and isinstance(n, dict):
            self.partial_visited.add((self.callstack[-1] if self.callstack else "?", callee))
            if len(r) == 1 and r[0][0] == OK and r[0][1][0] == "unk" and r[0][1][1].startswith("call:"):
                # not modelled: a partial API may panic
                return r + [(PANIC, (callee, n.get("sp")), st)]
        return r

    def e_Index(self, n, st):
        r = super().e_Index(n, st)
        out = []
        for ctl, v, s in r:
            out.append((ctl, v, s))
            if ctl == OK and v[0] == "unk" and v[1] == "index":
                out.append((PANIC, ("index", n.get("sp")), s))
        return out


def run_engines(F, C):
    """returns (covered function keys, panic outcomes [(run, where)], loops checked set, progress findings)"""
    covered = set()
    panics = []
    loops = set()
    runs = []

    def do(name, mod, key, args, max_depth=14):
        f = F.fn(key)
        if f is None:
            C.ob("C02/anchor", key, False, "engine entry point not found")
            return
        I = TrackingInterp(F, mod, max_depth=max_depth)
        try:
            outs = I.inline(f, args, hirai.State(depth=0))
        except hirai.Violation as e:
            C.ob("C02/analysis", name, False, "analysis did not converge: %s" % e)
            return
        bad = False
        for ctl, v, s in outs:
            if ctl == PANIC:
                where = v[1] if isinstance(v, tuple) and len(v) > 1 else "?"
                panics.append((name, str(v[0])[:80], where))
                bad = True
        for (rule, inst), (r, i, detail, loc) in sorted(mod.findings.items()):
            if rule.startswith("O-progress") or rule.startswith("O-balance"):
                C.ob("C02/" + rule, "%s: %s" % (name, inst), False, detail, loc)
        covered.update(I.inlined)
        loops.update(mod.loops_checked)
        runs.append("%s: %d outcomes, %d steps, %d functions interpreted, %d loops checked" % (name, len(outs), I.steps, len(I.inlined), len(mod.loops_checked)))
        return outs

    tab, kinds = deb822_parse.lexer_kinds(F)
    U = tokcursor.Universal(kinds)
    for key in ["<deb822_lossless::lossless::Deb822 as core::str::traits::FromStr>::from_str", "deb822_lossless::lossless::Deb822::from_str_relaxed",
                "<deb822_lossless::lossless::Paragraph as core::str::traits::FromStr>::from_str"]:
        do("deb822 lossless " + key.split("::")[-1], deb822_parse.Mod(F, U, False), key, [("abs", "text")])
    do("deb822 lossy from_str", lp.Mod(F, U, False), lp.ENTRY_KEY, [("abs", "text")])
    do("deb822 lossy Paragraph::from_str", lp.Mod(F, U, False), "<deb822_lossless::lossy::Paragraph as core::str::traits::FromStr>::from_str", [("abs", "text")])
    rtab = rp.lexer_table(F)
    rkinds = rp.lexer_kinds(rtab)
    RU = tokcursor.Universal(rkinds)
    (S, nval), probs = rp.validate_peek_past_ws(F, rkinds)
    for p in probs:
        C.ob("C02/peek-summary", p[:100], False, p)
    if S is not None and not probs:
        covered.add(rp.PEEK_PAST_WS)      # interpreted on all token vectors <= 3 without panic; uniform scanning loop with a strictly decreasing index
        pf = F.fn(rp.PEEK_PAST_WS)
        loops.update((rp.PEEK_PAST_WS, x.get("sp", "")) for x in hir_loops(pf))
    import c09
    for sub in (True, False):
        do("relations lossless parse_relaxed(substvar=%s)" % sub, c09.Mod(F, RU, False, summaries={rp.PEEK_PAST_WS: ("peek_skipping", S or frozenset(), "tokens")}),
           "debian_control::lossless::relations::Relations::parse_relaxed", [("abs", "text"), ("bool", sub)])
    for t in ("Relations", "Entry", "Relation"):
        do("relations lossless %s::from_str" % t, c09.Mod(F, RU, False, summaries={rp.PEEK_PAST_WS: ("peek_skipping", S or frozenset(), "tokens")}),
           "<debian_control::lossless::relations::%s as core::str::traits::FromStr>::from_str" % t, [("abs", "text")])
    do("relations lossy Relation::from_str", lr.Mod(F, RU), lr.ENTRY_KEY, [("abs", "text")])
    # lexers: tables
    lex_ok = True
    for c in tab["cells"]:
        if c["char"] is None:
            continue
        if c.get("ctl") != OK or c.get("boundary") is not True or c.get("nonempty") is not True:
            lex_ok = False
            C.ob("C02/lexer-cell", "deb822 lexer %s / %s" % (lexer.mode_str(tab["mode_vars"], c["mode"]), lexer.cname(c["char"])), False,
                 "cell may panic or return an empty token: boundary=%s nonempty=%s %s" % (c.get("boundary"), c.get("nonempty"), c.get("panic", "")), "src/lex.rs")
    for kind, msg in tab["problems"]:
        lex_ok = False
        C.ob("C02/lexer-" + kind, msg[:100], False, msg)
    C.ob("C02/lexer-table", "deb822 lexer: all %d cells total, split at boundaries, non-empty" % len(tab["cells"]), lex_ok, "")
    if lex_ok:
        covered.update(k for k in F.fns if k.startswith("deb822_lossless::lex::lex_"))
        # helpers the lexer closure calls were interpreted as part of every cell of the table (their partial calls
        # on the abstract input carry the cell's boundary / non-empty obligations); a helper is covered only when
        # all its callers are, so no other caller can hand it an argument the table never saw
        g = facts.build_callgraph(F)
        callers = {}
        for a, bs in g.items():
            for b in bs:
                callers.setdefault(b, set()).add(a)
        changed = True
        while changed:
            changed = False
            for h in sorted(tab.get("inlined", ())):
                base = h.split("::{closure")[0]
                if h not in covered and callers.get(h) and all(c in covered or c.split("::{closure")[0] in covered or c == base for c in callers[h]):
                    covered.add(h)
                    changed = True
    rl_ok = not rtab["problems"]
    for cell in rtab["cells"]:
        for o in cell["outs"]:
            if o[0] not in ("tok", "none") or (o[0] == "tok" and o[2] == 0):
                rl_ok = False
                C.ob("C02/lexer-cell", "relations lexer / %s" % (lexer.cname(cell["char"]) if cell["char"] else "EOF"), False, "outcome %s" % (o,), rp.NEXT_TOKEN)
    C.ob("C02/lexer-table", "relations lexer: all %d character classes yield a non-empty token (or None at EOF)" % len(rtab["cells"]), rl_ok, "")
    if rl_ok:
        covered.update(k for k in F.fns if k.startswith("debian_control::relations::Lexer"))
        loops.update((k, x.get("sp", "")) for k in F.fns if k.startswith("debian_control::relations::Lexer") for x in hir_loops(F.fns[k]))
    return covered, panics, loops, runs


def run(tier):
    F = facts.Facts()
    C = Check("C02", "other", tier, "panic-site and loop enumeration over the MIR call graph of all text-parsing entry points, discharged by all-input abstract-interpretation runs, lexer tables and a reviewed table",
              ["rustc MIR/HIR", "classification of external callees (tables/external_api.json patterns)", "hirai interpreter", "regex/url/debversion/chrono return Result as typed"])
    roots = entry_points(F)
    C.floor("C02/entry-points", len(roots), FLOOR_ENTRIES, "text-parsing entry points")
    g = facts.build_callgraph(F)
    seen, parent = facts.reachable(g, roots)
    C.floor("C02/reachable", len(seen), FLOOR_REACHABLE, "functions reachable from the entry points")
    C.extra["entry_points"] = len(roots)
    C.extra["reachable_functions"] = len(seen)
    covered, panics, loops_checked, runs = run_engines(F, C)
    for r in runs:
        C.note("engine-runs", r)
    for name, what, where in panics:
        C.ob("C02/panic-reachable", "%s: %s" % (name, what), False, "the all-input interpretation reaches a panic at %s" % (where,), str(where))
    reviewed = load_reviewed()
    used_reviews = set()
    nsites = 0
    by_how = collections.Counter()
    ext_unreviewed = collections.Counter()
    panic_sps = {str(w) for _, _, w in panics}
    for k in sorted(seen):
        f = F.fns[k]
        if f.get("x", "").startswith("m:Derive:") and "Deb822" not in f.get("x", ""):
            continue
        for callee, ordinal, sp, x in sites_of(f):
            nsites += 1
            how = None
            base = k.split("::{closure")[0]
            if k in covered or base in covered:
                if sp not in panic_sps:
                    how = "interpreted over all inputs without reaching a panic"
            if how is None and callee in (GB + "finish_node", GB + "finish") and builder_straight_line(f):
                how = "straight-line builder sequence: every finish_node has an open node, finish sees exactly one finished root"
            if how is None and (k, callee, ordinal) in reviewed:
                e = reviewed[(k, callee, ordinal)]
                need = [tuple(x) for x in e.get("requires_literals", [])]
                have = fn_literals(F, k)
                missing = [x for x in need if x not in have]
                if missing:
                    C.ob("C02/review-stale", "%s :: %s #%d" % (k, callee, ordinal), False,
                         "the reviewed argument for this site relies on literals %s that are no longer in the function: the review does not apply to the current code" % missing, sp)
                else:
                    how = "reviewed: " + e["reason"]
                used_reviews.add((k, callee, ordinal))
            by_how[(how or "UNDISCHARGED").split(":")[0]] += 1
            path = facts.call_path(parent, set(roots), k)
            C.ob("C02/panic-site", "%s :: %s #%d" % (k, callee, ordinal), how is not None,
                 "undischarged panic-capable site; call path: %s" % " -> ".join(p.split("::")[-1] if not p.startswith("<") else p for p in path[-4:]), sp)
            if len(C.samples) < 12:
                C.sample({"site": "%s :: %s #%d" % (k, callee, ordinal), "at": sp, "discharged_by": how})
        # unreviewed external callees (listed, never silently dropped)
        for b in f.get("mir", []) or []:
            if b["t"] == "Call" and not b.get("cleanup"):
                d = b.get("inst") or b.get("def")
                if d not in F.fns and not PARTIAL.search(d):
                    ext_unreviewed[d] += 1
    stale = [r for r in reviewed if r not in used_reviews and r[0] in F.fns and r[0] in seen and not (r[0] in covered or r[0].split("::{closure")[0] in covered)]
    C.extra["panic_sites"] = nsites
    C.extra["discharged_by"] = dict(by_how)
    C.extra["external_callees_assumed_total"] = len(ext_unreviewed)
    C.note("external-callees-assumed-total", ["%s x%d" % kv for kv in sorted(ext_unreviewed.items())][:400])
    C.floor("C02/panic-sites", nsites, 40, "panic-capable sites enumerated")

    # ---- E2 loops
    nloops = 0
    for k in sorted(seen):
        f = F.fns[k]
        if f["dk"] == "Closure":
            continue    # closure bodies are part of their parent's HIR
        for lp_ in hir_loops(f):
            nloops += 1
            sp = lp_.get("sp", "")
            how = None
            if (k, sp) in loops_checked or any(sp == s for (_, s) in loops_checked):
                how = "no-progress-cycle check over all inputs"
            elif lp_.get("src") == "ForLoop":
                it = for_iter_source(lp_, f)
                if it is not None:
                    how = "for loop over finite iterator " + it
            else:
                it = first_stmt_next(lp_)
                if it is not None:
                    how = "every iteration starts by taking the next element of finite iterator " + it
            if how is None and (k, "loop", loop_ordinal(f, lp_)) in reviewed:
                how = "reviewed: " + reviewed[(k, "loop", loop_ordinal(f, lp_))]["reason"]
            C.ob("C02/loop-terminates", "%s :: loop #%d (%s)" % (k, loop_ordinal(f, lp_), lp_.get("src")), how is not None, "loop without termination argument", sp)
    C.extra["loops"] = nloops
    C.floor("C02/loops", nloops, 30, "loops in reachable functions")

    # ---- E3 recursion + degree
    sccs = recursion(g, seen)
    for comp in sccs:
        key = tuple(sorted(comp))
        ok = (key[0], "recursion", 0) in reviewed
        C.ob("C02/no-recursion", " <-> ".join(key)[:300], ok, "recursive cycle reachable from an entry point (stack depth would depend on the input)")
    deg, witness = degree(F, g, seen, loops_checked)
    C.extra["max_loop_nesting_along_call_paths"] = deg
    # reported, not judged: the syntactic nesting depth differs between two spellings of one computation (a `for` loop counts,
    # the same iteration written as `.map(..).collect()` does not), so a threshold on it would fire on a refactoring
    C.note("loop-nesting", "maximum nesting of explicit loops along a call path = %d; witness: %s" % (deg, witness))
    C.assumptions += ["external parsers (regex, url, debversion, chrono) return Result as typed and do not panic",
                      "external std/rowan callees not matching the partial-API patterns are total (listed in the evidence)",
                      "allocation volume is not bounded beyond termination + the loop-nesting degree"]
    return C.finish("Every panic-capable site and every loop of the %d functions reachable from %d text-parsing entry points is enumerated from MIR/HIR and discharged by an all-input "
                    "abstract-interpretation run (parsers/lexers), a lexer table, a syntactic termination argument, or a reviewed-table entry with its reason; recursion and loop-nesting degree are computed on the call graph."
                    % (len(seen), len(roots)))


def loop_ordinal(f, lp_):
    for i, x in enumerate(hir_loops(f)):
        if x is lp_:
            return i
    return -1


FINITE_ITER = re.compile(r"(str::iter::|slice::iter::|vec::into_iter|Lines|Split|Chars|hash::map|hash::set|iter::adapters|Peekable|btree|option::|result::|SyntaxNodeChildren|SyntaxElementChildren|by_ref|impl core::iter|ops::range::Range<)")


def for_iter_source(lp_, f):
    """for loops desugar to match IntoIterator::into_iter(x) { mut iter => loop { match iter.next() ...} }; accept std/rowan iterators"""
    # find the `next` call in the loop body and the type of its receiver
    for x in facts.walk(lp_["body"]):
        if x.get("k") in ("Call", "MCall") and (facts.callee(x) or "").endswith("::next"):
            ty = ""
            if x["k"] == "Call" and x.get("args"):
                ty = x["args"][0].get("ty", "")
            elif x["k"] == "MCall":
                ty = x.get("rty", "")
            if "from_fn" in ty or "Repeat" in ty or "Cycle" in ty or "Successors" in ty:
                return None
            return ty[:80] or "iterator"
    return None


def first_stmt_next(lp_):
    """loop whose first statement / scrutinee takes the next element of a finite std iterator"""
    body = lp_["body"]
    first = None
    if body.get("stmts"):
        first = body["stmts"][0]
    elif "expr" in body:
        e = body["expr"]
        if e.get("k") == "Match":
            first = e["e"]
        elif e.get("k") == "If":
            first = e["c"]
        else:
            first = e
    if first is None:
        return None
    if first.get("k") == "LetStmt":
        first = first.get("init") or {}
        # `let x = if let Some(x) = it.next() { x } else { return/break }`
        if first.get("k") == "If":
            first = first["c"]
        elif first.get("k") == "Match":
            first = first["e"]
    elif first.get("k") in ("Semi", "ExprStmt"):
        first = first["e"]
        if first.get("k") == "Match":
            first = first["e"]
        elif first.get("k") == "If":
            first = first["c"]
    for x in facts.walk(first):
        if x.get("k") == "Closure":
            return None
        if x.get("k") in ("Call", "MCall") and (facts.callee(x) or "").endswith("::next"):
            ty = x["args"][0].get("ty", "") if x["k"] == "Call" and x.get("args") else x.get("rty", "")
            if "from_fn" in ty or "Repeat" in ty or "Cycle" in ty or "Successors" in ty:
                return None
            if FINITE_ITER.search(ty):
                return ty[:80]
    return None


def recursion(g, seen):
    idx, low, onst, st, out = {}, {}, set(), [], []
    import sys
    sys.setrecursionlimit(20000)
    cnt = [0]

    def sc(v):
        idx[v] = low[v] = cnt[0]
        cnt[0] += 1
        st.append(v)
        onst.add(v)
        for w in g.get(v, ()):
            if w not in seen:
                continue
            if w not in idx:
                sc(w)
                low[v] = min(low[v], low[w])
            elif w in onst:
                low[v] = min(low[v], idx[w])
        if low[v] == idx[v]:
            comp = []
            while True:
                w = st.pop()
                onst.discard(w)
                comp.append(w)
                if w == v:
                    break
            if len(comp) > 1 or v in g.get(v, ()):
                out.append(comp)
    for v in sorted(seen):
        if v not in idx:
            sc(v)
    return out


def degree(F, g, seen, cursor_loops=()):
    """max nesting of loops along call paths.  Loops proved to consume a token of the single monotone cursor in every
    iteration are amortised: all of them together iterate at most n times, so they count as one level."""
    cursor_sps = {sp for (_, sp) in cursor_loops}
    local = {}
    calls_at = {}
    for k in seen:
        f = F.fns[k]
        if "body" not in f:
            continue
        res = []

        def walk(n, d):
            if isinstance(n, dict):
                kk = n.get("k")
                if kk == "Loop" and n.get("sp") not in cursor_sps:
                    d += 1
                if kk in ("Call", "MCall"):
                    c = facts.callee(n)
                    if c in F.fns:
                        res.append((c, d))
                local[k] = max(local.get(k, 0), d)
                for v in n.values():
                    if isinstance(v, (dict, list)):
                        walk(v, d)
            elif isinstance(n, list):
                for x in n:
                    walk(x, d)
        walk(f["body"], 0)
        calls_at[k] = res
    memo = {}

    def deg(k, stack=()):
        if k in memo:
            return memo[k]
        if k in stack:
            return (0, [k])
        best = (local.get(k, 0), [k])
        for c, d in calls_at.get(k, ()):
            sub = deg(c, stack + (k,))
            if d + sub[0] > best[0]:
                best = (d + sub[0], [k] + sub[1])
        memo[k] = best
        return best
    best = (0, [])
    for k in seen:
        if k in calls_at:
            b = deg(k)
            if b[0] > best[0]:
                best = b
    return best[0] + (1 if cursor_sps else 0), "1 (amortised token-cursor loops) + " + " -> ".join(x.split("::")[-1] if not x.startswith("<") else x for x in best[1])[:400]
