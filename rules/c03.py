"""C03 - well-formed deb822 documents are accepted and read back exactly as written.

D1a lexer on well-formed lines: every line form of the grammar (field, continuation, comment, blank), over
     its full character sets, is pushed through the extracted lexer table: each lexeme must come out as exactly
     one token of the expected kind, and a line must end in line-start mode.
D1b parser acceptance: product of the parser's token-cursor interpretation with the well-formed token grammar
     (DFA with roles): no syntax error is reachable, every outcome of the strict reader is Ok.
D2  structure: in that product every field name / value line is added under ROOT>PARAGRAPH>ENTRY, one name per
     ENTRY, first field after a blank line opens a new PARAGRAPH, following fields stay in it.
D3  accessors: key/value/get/get_all/keys/items/contains_key/paragraphs are interpreted on all child sequences
     of length <= 3 over a 4-kind alphabet and compared with the list model.
D4  rejection: with exactly one junk line (not field/continuation/comment/blank) every outcome records an error.
"""
import itertools
import facts, hirai, tokcursor, lexer, deb822_parse, rowanmodel, symstr
from hirai import OK, RET, PANIC, OKV, ERRV, SOME, NONE, some, none, unk
from report import Check

STRICT = "<deb822_lossless::lossless::Deb822 as core::str::traits::FromStr>::from_str"
LF, CR = "\n", "\r"
ALL = set(lexer.CHARS)
WS = {" ", "\t"}
PRINT = {chr(i) for i in range(33, 127)}
NAME = PRINT - {":"}
NAME_INIT = NAME - {"-", "#"}
VAL_REST = ALL - {LF, CR}
VAL_FIRST = VAL_REST - WS
CONT_FIRST = VAL_FIRST - {"#"}

# line templates: list of segments (expected kind, first-char set, rest set or None (single char), optional)
TEMPLATES = {
    "field": [("KEY", NAME_INIT, NAME, False), ("COLON", {":"}, None, False), ("WHITESPACE", WS, WS, True), ("VALUE", VAL_FIRST, VAL_REST, True), ("NEWLINE", {LF}, None, True)],
    "continuation": [("INDENT", WS, WS, False), ("VALUE", CONT_FIRST, VAL_REST, False), ("NEWLINE", {LF}, None, True)],
    "comment": [("COMMENT", {"#"}, VAL_REST, False), ("NEWLINE", {LF}, None, True)],
    "blank": [("NEWLINE", {LF}, None, False)],
}


def check_templates(C, tab):
    mv = tab.get("mode_vars", [])
    table = {}
    for c in tab["cells"]:
        if c["char"] is not None:
            table[(c["mode"], c["char"])] = c
    start = tab["inits"].get("lex")
    n = 0
    for lname, segs in TEMPLATES.items():
        # enumerate which optional segments are present
        opts = [i for i, s in enumerate(segs) if s[3]]
        for present in itertools.product([True, False], repeat=len(opts)):
            chosen = [s for i, s in enumerate(segs) if not s[3] or present[opts.index(i)]]
            modes = {start}
            label = "%s line [%s]" % (lname, " ".join(s[0] for s in chosen))
            ok = True
            for idx, (kind, first, rest, _) in enumerate(chosen):
                nxt_first = chosen[idx + 1][1] if idx + 1 < len(chosen) else set()
                newmodes = set()
                for m in modes:
                    for ch in sorted(first):
                        cell = table.get((m, ch))
                        n += 1
                        inst = "%s: %s starting with %s in mode %s" % (label, kind, lexer.cname(ch), lexer.mode_str(mv, m))
                        if cell is None or cell.get("kind") is None:
                            ok = C.ob(RP + "/lexer-wellformed", inst, False, "no lexer cell / no token")
                            continue
                        if cell["kind"] != kind:
                            ok = C.ob(RP + "/lexer-wellformed", inst, False, "lexed as %s, the grammar position requires %s" % (cell["kind"], kind), "src/lex.rs")
                            continue
                        k = cell.get("k") or ("?",)
                        if k[0] in ("bytes", "lenutf8"):
                            if rest is not None and rest:
                                # a single-character token where the lexeme may be longer: the rest would become separate tokens
                                ok = C.ob(RP + "/lexer-wellformed", inst, False, "token %s consumes one character but the lexeme may be longer" % kind, "src/lex.rs")
                                continue
                        elif k[0] == "find":
                            rs = cell.get("runset")
                            if rs is None or (rest is not None and not rest <= rs) or (rest is None and False):
                                ok = C.ob(RP + "/lexer-wellformed", inst, False, "token %s does not extend over the whole lexeme (stops on %s)" % (kind, sorted(lexer.cname(x) for x in (rest or set()) - (rs or set()))[:8]), "src/lex.rs")
                                continue
                            if rs & nxt_first:
                                ok = C.ob(RP + "/lexer-wellformed", inst, False, "token %s runs into the next lexeme (swallows %s)" % (kind, sorted(lexer.cname(x) for x in rs & nxt_first)[:8]), "src/lex.rs")
                                continue
                            if rest is None and (rs & first) - {ch} and kind not in ("NEWLINE",):
                                pass
                        newmodes.add(cell["next"])
                modes = newmodes
            C.ob(RP + "/lexer-wellformed-line", label, ok, "some character class of this line form is not tokenised as the grammar requires (see C03/lexer-wellformed findings)", "src/lex.rs")
            if chosen[-1][0] == "NEWLINE":
                C.ob(RP + "/lexer-line-start", label, modes <= {start} and bool(modes), "after the line's newline the lexer is in mode %s, expected line-start mode" % [lexer.mode_str(mv, m) for m in modes], "src/lex.rs")
            C.sample({"line": label, "lexer_modes_after": [lexer.mode_str(mv, m) for m in modes], "ok": ok})
    # rejection half: a line that starts with a character no field name may start with ('-', ':', control and non-ASCII
    # characters; '#', blanks and LF start other line forms) must not be tokenised as a field name, and a name must
    # not run over characters outside the name alphabet
    for ch in sorted(ALL - NAME_INIT - {"#", LF, CR} - WS):
        cell = table.get((start, ch))
        n += 1
        C.ob(RP + "/lexer-rejects-name-start", "line starting with %s" % lexer.cname(ch), cell is not None and cell.get("kind") != "KEY",
             "a line starting with %s is tokenised as a field name (%s): the strict reader would accept a line that is neither field, continuation, comment nor blank" % (lexer.cname(ch), cell.get("kind") if cell else None), "src/lex.rs")
    for ch in sorted(NAME_INIT):
        cell = table.get((start, ch))
        rs = cell.get("runset") if cell else None
        if cell is not None and cell.get("kind") == "KEY" and isinstance(rs, (set, frozenset)):
            extra = set(rs) - NAME
            C.ob(RP + "/lexer-name-alphabet", "name starting with %s" % lexer.cname(ch), not extra,
                 "a field name may run over %s, which no field name contains" % sorted(lexer.cname(x) for x in extra)[:8], "src/lex.rs")
    return n


def check_lexing(F, C, rule_prefix):
    """the character-level half of 'every well-formed document is accepted': every line form of the grammar, over
    its complete character sets, is tokenised as the token grammar assumes (used by C06 and C08 under their prefix)"""
    global RP
    RP = rule_prefix
    try:
        tab = lexer.extract(F)
        for kind, msg in tab["problems"]:
            C.ob(RP + "/lexer-" + kind, msg[:120], False, msg)
        n = check_templates(C, tab)
        C.floor(RP + "/lexer-template-cells", n, 1500, "lexer cells visited by the line templates")
    finally:
        RP = "C03"


def junk_dfa():
    """well-formed grammar with exactly one junk line (KEY without colon / line starting with ERROR or COLON)"""
    wf = deb822_parse.wellformed_dfa()
    T = {}
    for q, tr in wf.trans.items():
        for k, (nq, role) in tr.items():
            T.setdefault(("a", q), {})[k] = (("a", nq), role)
            T.setdefault(("b", q), {})[k] = (("b", nq), role)
    for q in ("S0", "L", "L2"):
        # junk line forms at a line start
        T[("a", q)]["ERROR"] = (("j", "rest"), "junk")
        T[("a", q)]["COLON"] = (("j", "rest"), "junk")
    # an indented line with text where no field can be continued (document start, after a blank line, after a comment
    # line inside a paragraph) is neither field, continuation, comment nor blank
    for q in ("S0", "L2"):
        T[("a", q)]["INDENT"] = (("j", "ind"), "junk")
    T[("j", "ind")] = {"VALUE": (("j", "rest2"), "junk")}
    # KEY not followed by a colon
    T[("a", "K1")]["NEWLINE"] = (("b", "S0x"), "junk-nl")
    T[("a", "K1")]["WHITESPACE"] = (("j", "rest"), "junk")
    T[("j", "rest")] = {"VALUE": (("j", "rest2"), "junk"), "NEWLINE": (("b", "S0x"), "junk-nl"), "WHITESPACE": (("j", "rest"), "junk")}
    T[("j", "rest2")] = {"NEWLINE": (("b", "S0x"), "junk-nl")}
    # after the junk line: a blank line, then the rest of a well-formed document
    T[("b", "S0x")] = {"NEWLINE": (("b", "S0"), "blank")}
    acc = [("b", q) for q in wf.accepting] + [("b", "S0x"), ("j", "rest"), ("j", "rest2")]
    return tokcursor.Dfa(T, ("a", "S0"), acc, "well-formed deb822 with exactly one junk line")


def run(tier):
    F = facts.Facts()
    hirai.INT_BOUND = 4
    C = Check("C03", "other", tier, "lexer-table x line-grammar inclusion; product of the parser's token-cursor interpretation with a well-formed token grammar (roles); accessor pipelines interpreted on all short child sequences",
              ["rustc HIR/typeck", "rowan child iteration order", "hirai interpreter", "the oracle grammars in rules/deb822_parse.py and rules/c03.py (conservative reading of the property's domain)"])
    tab = lexer.extract(F)
    for kind, msg in tab["problems"]:
        C.ob(RP + "/lexer-" + kind, msg[:120], False, msg)
    n = check_templates(C, tab)
    C.floor(RP + "/lexer-template-cells", n, 1500, "lexer cells visited by the line templates")

    # D1b/D2 product with the well-formed token grammar
    wf = deb822_parse.wellformed_dfa()
    for key in (STRICT, "<deb822_lossless::lossless::Paragraph as core::str::traits::FromStr>::from_str"):
        if not C.ob(RP + "/anchor", key, F.fn(key) is not None, "entry point not found"):
            continue
        try:
            outs, mod, I = deb822_parse.run_entry(F, key, wf, structure=True)
        except hirai.Violation as e:
            C.ob(RP + "/analysis", key, False, "analysis did not converge: %s" % e)
            continue
        short = "Paragraph::from_str" if "Paragraph" in key else "Deb822::from_str"
        for (rule, inst), (r, i, detail, loc) in sorted(mod.findings.items()):
            C.ob(RP + "/" + rule, "%s: %s" % (short, inst), False, detail, loc)
        C.ob(RP + "/O-accept-all-paths", short, not any(k[0].startswith("O-accept") for k in mod.findings), "syntax errors reachable on well-formed input", F.fn(key)["sp"])
        C.ob(RP + "/O-structure-all-paths", short, not any(k[0].startswith("O-structure") for k in mod.findings), "structure violations reachable on well-formed input", F.fn(key)["sp"])
        roles = set(mod.roles_seen)
        need = {"key-first", "key-next", "value", "para-comment", "top-comment", "blank-sep", "indent", "colon-ws"}
        C.ob(RP + "/oracle-coverage", short, need <= roles, "grammar roles never reached by the product: %s" % sorted(need - roles))
        nok = 0
        for ctl, v, s in outs:
            if ctl == OK and v[0] == "enum" and v[1] == OKV:
                nok += 1
            elif ctl == OK and v[0] == "enum" and v[1] == ERRV and "Paragraph" in key and not s.mon.get("err"):
                nok += 1   # "no paragraphs" for an empty document is not a syntax error
            else:
                C.ob(RP + "/strict-accepts", "%s: outcome %s" % (short, str(v)[:80]), False, "strict reader does not return Ok on a well-formed token sequence (control %s)" % ctl)
        C.ob(RP + "/strict-accepts", short, nok >= 1, "no Ok outcome")
        C.note("product-runs", "%s: %d outcomes, %d steps, %d loop-head states; roles %s" % (short, len(outs), I.steps, I.states_seen, sorted(roles)))
        C.extra.setdefault("states", 0)
        C.extra["states"] += I.states_seen

    # Paragraph::from_str returns the first paragraph of the strictly parsed document
    pf = F.fn("<deb822_lossless::lossless::Paragraph as core::str::traits::FromStr>::from_str")
    if pf:
        cs = [facts.callee(c) for c in facts.calls(pf["body"])]
        nexts = [c for c in cs if c.endswith("Iterator>::next") or c == "core::iter::traits::iterator::Iterator::next"]
        C.ob(RP + "/paragraph-from-str-first", "Paragraph::from_str", STRICT in cs and "deb822_lossless::lossless::Deb822::paragraphs" in cs and len(nexts) == 1 and not any(("skip" in c or "last" in c or "nth" in c or "rev" in c) for c in cs),
             "must parse strictly and return paragraphs().next() (calls: %s)" % [c.split("::")[-1] for c in cs], pf["sp"])

    # D4 rejection
    try:
        outs, mod, I = deb822_parse.run_entry(F, STRICT, junk_dfa(), structure=False)
        junk_seen = {"junk", "junk-nl"} & set(mod.roles_seen)
        bad = [(ctl, str(v)[:80]) for ctl, v, s in outs if not (ctl == OK and v[0] == "enum" and v[1] == ERRV)]
        C.ob(RP + "/reject-junk-line", "Deb822::from_str", not bad and bool(junk_seen) and outs, "with one junk line the strict reader still returns %s (junk roles reached: %s)" % (bad[:3], sorted(junk_seen)), F.fn(STRICT)["sp"])
    except hirai.Violation as e:
        C.ob(RP + "/analysis", "junk product", False, str(e))

    check_accessors(F, C)
    C.assumptions += ["well-formed domain read conservatively: LF line ends, whole-line comments in column 0, blank lines empty, continuation lines do not start with '#', names are printable ASCII without ':' not starting with '-'/'#'",
                      "accessor pipelines are uniform iterator chains: validated exhaustively on child sequences of length <= 3 over {KEY, VALUE, NEWLINE, COMMENT} / {ENTRY, other}"]
    return C.finish("Well-formed line templates are pushed through the extracted lexer table over their complete character sets; the parser is explored in product with a role-annotated DFA of well-formed token sequences "
                    "(no error reachable, content tokens under ROOT>PARAGRAPH>ENTRY with correct paragraph/entry boundaries, strict returns Ok); one-junk-line variants always record an error; "
                    "accessor iterator pipelines are interpreted on all short child sequences and compared with the list model.")


# ------------------------------------------------------------------------------------------- accessors
KIND = deb822_parse.KIND
P = "deb822_lossless::lossless::"


def atom(i, what):
    # value texts are 'raw': arbitrary line contents, possibly ending in blanks (the lexer keeps them inside VALUE)
    return symstr.atom("%s%d" % (what, i), "raw" if what == "value" else "line")


RP = "C03"


def check_accessors(F, C, rule_prefix="C03"):
    global RP
    RP = rule_prefix
    try:
        check_accessors_(F, C)
    finally:
        RP = "C03"


def check_accessors_(F, C):
    mod = rowanmodel.RowanMod(F, KIND)
    tok, node, wrap = rowanmodel.tok, rowanmodel.node, rowanmodel.wrap
    n_eval = 0

    def call(fn_key, selfv, extra=()):
        I = hirai.Interp(F, mod)
        st = hirai.State(depth=0)
        st, p = I.newtemp(st, selfv)
        res = I.inline(F.fn(fn_key), [("ref", p)] + list(extra), st)
        return res, I

    def entry_of(kinds):
        ch = []
        for i, k in enumerate(kinds):
            ch.append(tok(k, atom(i, k.lower())))
        return node("ENTRY", ch)

    def wrap_ast(t, n):
        return ("struct", P + t, (("0", n),))

    def collect_iter(I, st, v):
        v = I.deref_val(st, v)
        if v[0] == "abs" and v[1] in ("siter",):
            return list(v[2][v[3]:])
        if v[0] == "abs" and v[1] == "svec":
            return list(v[2])
        return None

    alphabet = ["KEY", "VALUE", "NEWLINE", "COMMENT"]
    for fn in ("Entry::key", "Entry::value", "Paragraph::get", "Paragraph::get_all", "Paragraph::keys", "Paragraph::items", "Paragraph::contains_key", "Paragraph::entries", "Deb822::paragraphs"):
        C.ob(RP + "/anchor", P + fn, F.fn(P + fn) is not None, "accessor not found")
    # Entry::key / Entry::value on all token sequences of length <= 3
    for ln in range(0, 4):
        for ks in itertools.product(alphabet, repeat=ln):
            e = wrap_ast("Entry", entry_of(ks))
            want_key = next((atom(i, "key") for i, k in enumerate(ks) if k == "KEY"), None)
            vals = [atom(i, "value") for i, k in enumerate(ks) if k == "VALUE"]
            res, I = call(P + "Entry::key", e)
            n_eval += 1
            got = {normalize_opt(I, s, v) for ctl, v, s in res if ctl == OK}
            C.ob(RP + "/accessor-key", "Entry::key on %s" % (list(ks),), len(res) == 1 and got == {("some", symstr.show(want_key)) if want_key else ("none",)},
                 "yields %s, expected the text of the first KEY token (%s)" % (sorted(got), symstr.show(want_key) if want_key else None), F.fn(P + "Entry::key")["sp"])
            res, I = call(P + "Entry::value", e)
            n_eval += 1
            want_pieces = []
            for i, v in enumerate(vals):
                if i:
                    want_pieces.append(("lit", "\n"))
                want_pieces.extend(symstr.pieces_of(v))
            want = symstr.show(symstr.mk(want_pieces))
            got = {symstr.show(I.deref_val(s, v)) if I.deref_val(s, v)[0] in ("sstr", "str") else str(v)[:60] for ctl, v, s in res if ctl == OK}
            C.ob(RP + "/accessor-value", "Entry::value on %s" % (list(ks),), len(res) == 1 and got == {want},
                 "yields %s, expected the VALUE token texts joined by newline (%r)" % (sorted(got), want), F.fn(P + "Entry::value")["sp"])
    # a VALUE token may be empty (Entry::new writes one for a value whose first line is empty): it still counts as a line
    for ks, texts, want in ((("KEY", "VALUE", "NEWLINE", "VALUE"), {1: symstr.lit("")}, "\n<value3>"),
                            (("KEY", "VALUE", "VALUE", "VALUE"), {1: symstr.lit(""), 2: symstr.lit("")}, "\n\n<value3>"),
                            (("KEY", "VALUE", "VALUE"), {2: symstr.lit("")}, "<value1>\n")):
        ch = [tok(k, texts.get(i, atom(i, k.lower()))) for i, k in enumerate(ks)]
        res, I = call(P + "Entry::value", wrap_ast("Entry", node("ENTRY", ch)))
        n_eval += 1
        got = {symstr.show(I.deref_val(s, v)) if I.deref_val(s, v)[0] in ("sstr", "str") else str(v)[:60] for ctl, v, s in res if ctl == OK}
        C.ob(RP + "/accessor-value", "Entry::value with empty VALUE tokens at %s of %s" % (sorted(texts), list(ks)), len(res) == 1 and got == {want},
             "yields %s, expected %r (an empty line is still a line)" % (sorted(got), want), F.fn(P + "Entry::value")["sp"])
    # paragraph-level accessors on child sequences over {ENTRY(key=a), ENTRY(key=b), COMMENT token}
    def ent(i, keyname):
        return node("ENTRY", [tok("KEY", symstr.lit(keyname)), tok("COLON", symstr.lit(":")), tok("WHITESPACE", symstr.lit(" ")), tok("VALUE", atom(i, "v")), tok("NEWLINE", symstr.lit("\n"))], i)
    for ln in range(0, 4):
        for shape in itertools.product(["A", "B", "#"], repeat=ln):
            ch = []
            model = []
            for i, sh in enumerate(shape):
                if sh == "#":
                    ch.append(tok("COMMENT", atom(i, "c")))
                else:
                    ch.append(ent(i, sh))
                    model.append((sh, "<v%d>" % i))
            para = wrap_ast("Paragraph", node("PARAGRAPH", ch))
            lbl = list(shape)
            # get("A")
            res, I = call(P + "Paragraph::get", para, [symstr.lit("A")])
            n_eval += 1
            want = next((v for k, v in model if k == "A"), None)
            got = {normalize_opt(I, s, v) for ctl, v, s in res if ctl == OK}
            C.ob(RP + "/accessor-get", "Paragraph::get(\"A\") on %s" % lbl, len(res) == 1 and got == {("some", want) if want else ("none",)},
                 "yields %s, expected the first field named A (%s)" % (sorted(got), want), F.fn(P + "Paragraph::get")["sp"])
            res, I = call(P + "Paragraph::contains_key", para, [symstr.lit("B")])
            n_eval += 1
            got = {v for ctl, v, s in res if ctl == OK}
            C.ob(RP + "/accessor-contains", "Paragraph::contains_key(\"B\") on %s" % lbl, len(res) == 1 and got == {("bool", any(k == "B" for k, _ in model))},
                 "yields %s" % sorted(map(str, got)), F.fn(P + "Paragraph::contains_key")["sp"])
            for fn, wantl in (("keys", [k for k, _ in model]), ("items", [(k, v) for k, v in model])):
                res, I = call(P + "Paragraph::" + fn, para)
                n_eval += 1
                gl = None
                if len(res) == 1 and res[0][0] == OK:
                    items = collect_iter(I, res[0][2], res[0][1])
                    if items is not None:
                        gl = []
                        for it in items:
                            it = I.deref_val(res[0][2], it)
                            if it[0] == "tuple":
                                gl.append(tuple(symstr.show(I.deref_val(res[0][2], x)) for x in it[1]))
                            else:
                                gl.append(symstr.show(it))
                C.ob(RP + "/accessor-" + fn, "Paragraph::%s on %s" % (fn, lbl), gl == wantl, "yields %s, expected %s (file order, duplicates included)" % (gl, wantl), F.fn(P + "Paragraph::" + fn)["sp"])
            res, I = call(P + "Paragraph::get_all", para, [symstr.lit("A")])
            n_eval += 1
            gl = None
            if len(res) == 1 and res[0][0] == OK:
                items = collect_iter(I, res[0][2], res[0][1])
                if items is not None:
                    gl = [symstr.show(I.deref_val(res[0][2], x)) for x in items]
            C.ob(RP + "/accessor-get_all", "Paragraph::get_all(\"A\") on %s" % lbl, gl == [v for k, v in model if k == "A"], "yields %s" % gl, F.fn(P + "Paragraph::get_all")["sp"])
    # Deb822::paragraphs on ROOT child sequences over {PARAGRAPH, EMPTY_LINE}
    for ln in range(0, 4):
        for shape in itertools.product(["P", "E"], repeat=ln):
            ch = [node("PARAGRAPH" if s == "P" else "EMPTY_LINE", [], i) for i, s in enumerate(shape)]
            doc = wrap_ast("Deb822", node("ROOT", ch))
            res, I = call(P + "Deb822::paragraphs", doc)
            n_eval += 1
            gl = None
            if len(res) == 1 and res[0][0] == OK:
                items = collect_iter(I, res[0][2], res[0][1])
                if items is not None:
                    gl = []
                    for it in items:
                        it = I.deref_val(res[0][2], it)
                        inner = it[2][0] if it[0] == "enum" else dict(it[2]).get("0") if it[0] == "struct" else it
                        inner = I.deref_val(res[0][2], inner)
                        gl.append(inner[4] if inner[0] == "abs" and inner[1] == "node" else "?")
            C.ob(RP + "/accessor-paragraphs", "Deb822::paragraphs on %s" % list(shape), gl == [i for i, s in enumerate(shape) if s == "P"], "yields children %s" % gl, F.fn(P + "Deb822::paragraphs")["sp"])
    C.floor(RP + "/accessor-evaluations", n_eval, 385, "accessor evaluations")


def normalize_opt(I, s, v):
    v = I.deref_val(s, v)
    if v[0] == "enum" and v[1] == SOME:
        x = I.deref_val(s, v[2][0])
        return ("some", symstr.show(x) if x[0] in ("sstr", "str") else str(x)[:60])
    if v[0] == "enum" and v[1] == NONE:
        return ("none",)
    return ("?", str(v)[:60])
