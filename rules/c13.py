"""C13 - relation wrap-and-sort yields a canonical, sorted, meaning-preserving form.

Fields are generated from structured models (as C10) in several whitespace layouts, the repository's parser is
interpreted on them, and Relations::wrap_and_sort is interpreted on the resulting tree (rowan model; Vec::sort is a
stable insertion sort driven by the repository's own Ord impls, which are interpreted too).  Checks on the result:
  - single line; tokenised with the extracted lexer table it is accepted by the reference grammar, and printing what
    the reference reader reads in canonical style gives exactly the same text (', ' / ' | ' / single blanks),
  - the multiset of entries (each a multiset of alternatives with all parts) and the substvars equal the input's,
  - names are non-decreasing over entries (first alternative) and inside each entry; adjacent entries/alternatives are
    not in descending order under the repository's own comparator,
  - the lossless parser interpreted on the output accepts it strictly,
  - wrap_and_sort interpreted on the returned tree again prints identical text,
  - comparator laws for Relation/Entry Ord on all pairs of the generated relations (antisymmetry, reflexivity)."""
import itertools
import facts, hirai, symstr, treemodel, docbuild as db, relspec, roundtrip, relations_parse as rp, c10, c14
from relspec import rel
from hirai import OK, PANIC, SOME, NONE, OKV, ERRV, some, none, unk
from report import Check

PFX = c10.PFX
WS_RELS = PFX + "Relations::wrap_and_sort"
ORD = "core::cmp::Ordering::"


def deb_order(c):
    if c == "~":
        return -1
    if c == "" or c.isdigit():
        return 0
    if c.isalpha():
        return ord(c)
    return ord(c) + 256


def deb_cmp_part(a, b):
    i = j = 0
    while i < len(a) or j < len(b):
        # non-digit prefix
        while (i < len(a) and not a[i].isdigit()) or (j < len(b) and not b[j].isdigit()):
            ca = a[i] if i < len(a) and not a[i].isdigit() else ""
            cb = b[j] if j < len(b) and not b[j].isdigit() else ""
            oa, ob = deb_order(ca), deb_order(cb)
            if oa != ob:
                return -1 if oa < ob else 1
            if ca != "":
                i += 1
            if cb != "":
                j += 1
        na = nb = ""
        while i < len(a) and a[i].isdigit():
            na += a[i]
            i += 1
        while j < len(b) and b[j].isdigit():
            nb += b[j]
            j += 1
        va, vb = int(na or "0"), int(nb or "0")
        if va != vb:
            return -1 if va < vb else 1
    return 0


def deb_version_cmp(a, b):
    def split(v):
        e = 0
        if ":" in v:
            x, v = v.split(":", 1)
            e = int(x)
        if "-" in v:
            u, r = v.rsplit("-", 1)
        else:
            u, r = v, ""
        return e, u, r
    ea, ua, ra = split(a)
    eb, ub, rb = split(b)
    if ea != eb:
        return -1 if ea < eb else 1
    c = deb_cmp_part(ua, ub)
    if c:
        return c
    return deb_cmp_part(ra, rb)


def ordering(c):
    return ("enum", ORD + ("Less" if c < 0 else "Greater" if c > 0 else "Equal"), ())


class SortMod(c10.AccMod):
    def intrinsic(self, I, callee, args, st, n):
        if callee in ("<alloc::string::String as core::cmp::Ord>::cmp", "<str as core::cmp::Ord>::cmp"):
            a, b = I.deref_val(st, args[0]), I.deref_val(st, args[1])
            if a[0] in ("sstr", "str") and b[0] in ("sstr", "str"):
                pa, pb = symstr.pieces_of(a), symstr.pieces_of(b)
                if symstr.is_concrete(pa) and symstr.is_concrete(pb):
                    x, y = symstr.show(a).encode(), symstr.show(b).encode()
                    return [(OK, ordering(-1 if x < y else 1 if x > y else 0), st)]
        if callee == "<debversion::Version as core::cmp::Ord>::cmp":
            a, b = I.deref_val(st, args[0]), I.deref_val(st, args[1])
            if a[0] in ("sstr", "str") and b[0] in ("sstr", "str"):
                return [(OK, ordering(deb_version_cmp(symstr.show(a), symstr.show(b))), st)]
        if callee.endswith(" as core::cmp::Ord>::cmp") and self.facts.fns.get(callee, {}).get("x", "").startswith("m:Derive"):
            a, b = I.deref_val(st, args[0]), I.deref_val(st, args[1])
            if a[0] == "enum" and b[0] == "enum" and not a[2] and not b[2]:
                adt = self.facts.adts.get(a[1].rsplit("::", 1)[0])
                if adt:
                    names = [v["name"] for v in adt["variants"]]
                    ia, ib = names.index(a[1].rsplit("::", 1)[1]), names.index(b[1].rsplit("::", 1)[1])
                    return [(OK, ordering(ia - ib), st)]
        if callee in ("alloc::slice::<impl [T]>::sort", "core::slice::<impl [T]>::sort") and args and args[0][0] == "ref":
            cur = I.deref_val(st, args[0])
            if cur[0] == "abs" and cur[1] == "svec":
                if not cur[2]:
                    return [(OK, hirai.UNIT, st)]
                t = self.type_of_value(I.deref_val(st, cur[2][0]))
                key = "<%s as core::cmp::Ord>::cmp" % t
                if key in self.facts.fns:
                    return super().intrinsic(I, "alloc::slice::<impl [T]>::sort_by", [args[0], ("fnref", key)], st, n)
        return super().intrinsic(I, callee, args, st, n)


def node_text(tm, s, v):
    h = treemodel.heap_get(s)
    nid = v[2][0][2]
    return symstr.show(symstr.mk(tm.text_of(h, nid))) if nid in h else None


def key_entry(e):
    return tuple(sorted(repr(r) for r in e))


def norm_arch_order(r):
    return r


SORT_RELS = [
    rel("zlib"), rel("alpha"), rel("alpha", version=(">=", "1:2.0")), rel("alpha", version=("<<", "3.0~rc1")), rel("alpha", version=(">=", "1.0")),
    rel("mid", archqual="any"), rel("mid", archs=[(True, "amd64")]), rel("beta", profiles=[[(True, "nocheck")]]),
]


def fields(tier):
    out = list(c10.FIELDS)
    out += [
        ([[SORT_RELS[0]], [SORT_RELS[1]]], False, ()),
        ([[SORT_RELS[2]], [SORT_RELS[1]]], False, ()),                       # same name: versioned before unversioned
        ([[SORT_RELS[2], SORT_RELS[1]]], False, ()),                         # same, as alternatives
        ([[SORT_RELS[4]], [SORT_RELS[3]], [SORT_RELS[2]]], True, ()),        # same name, different constraints / versions
        ([[SORT_RELS[0], SORT_RELS[1]], [SORT_RELS[5]], [SORT_RELS[7], SORT_RELS[6]]], False, ("misc:Depends",)),
        ([[SORT_RELS[2]], [SORT_RELS[7]], [SORT_RELS[2]]], False, ()),       # the same entry twice
        ([[SORT_RELS[0]], [], [SORT_RELS[1]], []], True, ("shlibs:Depends", "misc:Depends")),
        ([[SORT_RELS[5], SORT_RELS[1]], [SORT_RELS[5]]], False, ()),         # one entry is a prefix of the other
        ([], True, ("shlibs:Depends", "misc:Depends")),                       # substvars only
        ([[]], False, ("misc:Depends",)),                                     # an empty entry, then a substvar
        ([[rel("gcc-doc", profiles=[[(True, "nodoc")], [(False, "cross"), (True, "stage1")]])], [rel("aa", archs=[(True, "s390x"), (True, "armel")])]], False, ()),
    ]
    combos = c10.combo_fields(tier)
    out += combos if tier == "thorough" else combos[::9]
    return out


ALLOWED_UNKNOWN = set()      # external callees without a model that are known not to touch the entry list (none needed today)

STYLES = ["canonical", "tight", "loose", "newlines", "wrapped", "tabs"]


def run(tier):
    F = facts.Facts()
    hirai.INT_BOUND = 64
    C = Check("C13", "other", tier, "abstract interpretation of Relations/Entry/Relation::wrap_and_sort (with the repository's Ord impls driving a stable sort) on trees obtained by interpreting the parser on generated fields; output re-tokenised with the extracted lexer table and compared with the structured model",
              ["rustc HIR/typeck", "hirai", "rowan model (rules/treemodel.py)", "reference grammar (rules/relspec.py)", "Debian version ordering re-implemented in rules/c13.py for debversion::Version::cmp", "slice::sort is a stable sort"])
    for k in (WS_RELS, PFX + "Entry::wrap_and_sort", PFX + "Relation::wrap_and_sort", "<%sRelation as core::cmp::Ord>::cmp" % PFX, "<%sEntry as core::cmp::Ord>::cmp" % PFX):
        C.ob("C13/anchor", k, F.fn(k) is not None, "not found")
    rtab = rp.lexer_table(F)
    cells = {c["char"]: c["outs"] for c in rtab["cells"]}
    n = 0
    all_rels = {}
    for fi, (entries, trailing, svars) in enumerate(fields(tier)):
        styles = STYLES if tier == "thorough" or fi < 20 and fi % 3 == 0 else [STYLES[fi % len(STYLES)], STYLES[(fi + 4) % len(STYLES)]]
        for style in styles:
            toks = relspec.field_tokens(entries, style, trailing, svars)
            text = db.text_of_tokens(toks)
            label = "field %d (%s): %r" % (fi, style, text)
            want_entries = [e for e in entries if e]
            for e in want_entries:
                for r in e:
                    all_rels[repr(r)] = r
            rels, errs, st, mod = db.parse_relations(F, toks, allow_substvar=bool(svars))
            if rels is None or errs != ("abs", "strvec", 0):
                C.ob("C13/input-parses", label, False, "the generated field does not parse cleanly (that is C10)")
                continue
            n += 1
            tm = SortMod(F, rp.KIND)
            tm.immutable_mutations = []
            I = hirai.Interp(F, tm, max_depth=20)
            I.max_recursion = 8
            s0 = hirai.State({}, dict(st.mon), 0)
            sp = F.fn(WS_RELS)["sp"]
            try:
                res = I.inline(F.fn(WS_RELS), [rels], s0)
            except hirai.Violation as e:
                C.ob("C13/decidable", label, False, "analysis: %s" % e, sp)
                continue
            if not C.ob("C13/decidable", label, len(res) == 1 and res[0][0] == OK and I.deref_val(res[0][2], res[0][1])[0] == "enum",
                        "wrap_and_sort has outcomes %s; unknown calls %s" % ([(ctl, str(v)[:100]) for ctl, v, s in res], dict(I.unknown_calls)), sp):
                continue
            unknown = {k: v for k, v in I.unknown_calls.items() if k not in ALLOWED_UNKNOWN}
            if not C.ob("C13/no-unmodelled-calls", label, not unknown, "wrap_and_sort reaches calls the analysis has no model for (their effect on the entry list is unknown): %s" % unknown, sp):
                continue
            s1 = res[0][2]
            out = I.deref_val(s1, res[0][1])
            t1 = node_text(tm, s1, out)
            C.ob("C13/single-line", label, t1 is not None and "\n" not in t1 and "\t" not in t1, "output %r is not a single line" % t1, sp)
            otoks = c14.lex_text(t1 or "", cells)
            try:
                e1, sv1 = relspec.read_field(otoks) if otoks is not None else (None, None)
                err = None
            except relspec.NotWellFormed as e:
                e1, sv1, err = None, None, str(e)
            if not C.ob("C13/output-wellformed", label, e1 is not None, "output %r is not a well-formed field: %s" % (t1, err), sp):
                continue
            canon = db.text_of_tokens(relspec.field_tokens(e1, "canonical", False, sv1))
            C.ob("C13/canonical-text", label, canon == t1, "output %r is not in canonical form (canonical print of what it denotes: %r)" % (t1, canon), sp)
            C.ob("C13/same-entries", label, sorted(map(key_entry, e1)) == sorted(map(key_entry, want_entries)),
                 "output %r denotes %s, the input denoted %s" % (t1, e1, want_entries), sp)
            C.ob("C13/same-substvars", label, sorted(sv1) == sorted(svars), "output %r has substvars %s, the input %s" % (t1, sv1, list(svars)), sp)
            names = [e[0]["name"] for e in e1]
            C.ob("C13/entries-sorted", label, names == sorted(names), "entries of %r are not sorted by name: %s" % (t1, names), sp)
            for e in e1:
                an = [r["name"] for r in e]
                C.ob("C13/alternatives-sorted", label, an == sorted(an), "alternatives of %r are not sorted by name: %s" % (t1, an), F.fn(PFX + "Entry::wrap_and_sort")["sp"])
            # strict re-parse
            rels2, errs2, st2, mod2 = db.parse_relations(F, otoks, allow_substvar=bool(svars))
            C.ob("C13/output-parses", label, rels2 is not None and errs2 == ("abs", "strvec", 0), "the lossless reader rejects the output %r" % t1, F.fn(rp.PARSE_FN)["sp"])
            # second application on the returned tree
            try:
                res2 = I.inline(F.fn(WS_RELS), [out], s1)
            except hirai.Violation as e:
                res2 = []
            t2 = [node_text(tm, s, I.deref_val(s, v)) if ctl == OK else "%s %s" % (ctl, str(v)[:80]) for ctl, v, s in res2]
            C.ob("C13/idempotent", label, t2 == [t1], "normalising the result again prints %s instead of %r" % (t2, t1), sp)
            # and on the re-parsed output
            if rels2 is not None and errs2 == ("abs", "strvec", 0):
                s3 = hirai.State({}, dict(st2.mon), 0)
                try:
                    res3 = I.inline(F.fn(WS_RELS), [rels2], s3)
                except hirai.Violation as e:
                    res3 = []
                t3 = [node_text(tm, s, I.deref_val(s, v)) if ctl == OK else "%s %s" % (ctl, str(v)[:80]) for ctl, v, s in res3]
                C.ob("C13/idempotent-reparsed", label, t3 == [t1], "normalising the re-read result prints %s instead of %r" % (t3, t1), sp)
            if tm.immutable_mutations:
                C.ob("C13/mutable", label, False, "mutation of an immutable tree: %s" % (tm.immutable_mutations[:2],), sp)
            if len(C.samples) < 8:
                C.sample({"input": text, "output": t1})
    C.note("counts", "%d fields normalised" % n)
    C.floor("C13/fields", n, 60, "fields normalised")
    check_comparator_laws(F, C, list(all_rels.values()), tier)
    check_entry_comparator(F, C, tier)
    check_order_independent(F, C, tier)
    C.assumptions += ["bounded generator; component strings concrete", "debversion::Version ordering = Debian Policy 5.6.12 as re-implemented here", "slice::sort is stable and only consults Ord::cmp"]
    return C.finish("wrap_and_sort is interpreted on parser-built trees of generated fields in six layouts; canonical single-line form, multiset preservation of entries/alternatives/substvars, sortedness, strict re-parse, idempotence (on the returned tree and on its re-read text) and comparator laws are checked.")


def check_comparator_laws(F, C, rels, tier):
    """Relation::cmp on all ordered pairs: reflexive Equal, antisymmetric; Entry::cmp on a few pairs"""
    key = "<%sRelation as core::cmp::Ord>::cmp" % PFX
    f = F.fn(key)
    if f is None:
        return
    rels = (rels[:40] if tier == "thorough" else rels[:14]) + SORT_RELS
    uniq = {}
    for r in rels:
        uniq[repr(r)] = r
    rels = list(uniq.values())
    # build each relation by parsing its canonical tokens
    vals = []
    for r in rels:
        toks = relspec.field_tokens([[r]], "canonical")
        rv, errs, st, mod = db.parse_relations(F, toks)
        if rv is None:
            continue
        h = treemodel.heap_get(hirai.State({}, dict(st.mon), 0))
        root = rv[2][0][2]
        ent = [c for c in h[root][3] if h[c][2] == "ENTRY"][0]
        rid = [c for c in h[ent][3] if h[c][2] == "RELATION"][0]
        vals.append((r, st, ("enum", PFX + "Relation", (("abs", "nref", rid),))))
    res = {}
    n = 0
    tm = SortMod(F, rp.KIND)
    I = hirai.Interp(F, tm, max_depth=20)

    def cmp(i, j):
        ri, sti, vi = vals[i]
        rj, stj, vj = vals[j]
        # two separate trees: merge heaps by re-parsing both into one state is not needed - accessors only read their own tree;
        # put both heaps in one state (ids are disjoint only within a parse) -> parse the pair as one field instead
        toks = relspec.field_tokens([[ri], [rj]], "canonical")
        rv, errs, st, mod = db.parse_relations(F, toks)
        s = hirai.State({}, dict(st.mon), 0)
        h = treemodel.heap_get(s)
        root = rv[2][0][2]
        ents = [c for c in h[root][3] if h[c][2] == "ENTRY"]
        a = ("enum", PFX + "Relation", (("abs", "nref", [c for c in h[ents[0]][3] if h[c][2] == "RELATION"][0]),))
        b = ("enum", PFX + "Relation", (("abs", "nref", [c for c in h[ents[1]][3] if h[c][2] == "RELATION"][0]),))
        s, pa = I.newtemp(s, a)
        s, pb = I.newtemp(s, b)
        out = I.inline(f, [("ref", pa), ("ref", pb)], s)
        if len(out) == 1 and out[0][0] == OK:
            v = I.deref_val(out[0][2], out[0][1])
            if v[0] == "enum" and v[1].startswith(ORD):
                return v[1][len(ORD):]
        return "undecided:%s" % [(ctl, str(v)[:60]) for ctl, v, s_ in out]
    for i in range(len(vals)):
        for j in range(i, len(vals)):
            a, b = cmp(i, j), cmp(j, i)
            n += 1
            li, lj = db.text_of_tokens(relspec.rel_tokens(vals[i][0], "canonical")), db.text_of_tokens(relspec.rel_tokens(vals[j][0], "canonical"))
            flip = {"Less": "Greater", "Greater": "Less", "Equal": "Equal"}
            if i == j:
                C.ob("C13/cmp-reflexive", li, a == "Equal", "cmp(x, x) = %s" % a, f["sp"])
            else:
                C.ob("C13/cmp-antisymmetric", "%s  vs  %s" % (li, lj), flip.get(a) == b, "cmp(a,b) = %s but cmp(b,a) = %s" % (a, b), f["sp"])
                if vals[i][0]["name"] != vals[j][0]["name"]:
                    want = "Less" if vals[i][0]["name"].encode() < vals[j][0]["name"].encode() else "Greater"
                    C.ob("C13/cmp-name-first", "%s  vs  %s" % (li, lj), a == want, "cmp = %s although the names order as %s" % (a, want), f["sp"])
    C.floor("C13/cmp-pairs", n, 100, "relation pairs compared")


ENTRY_SET = [
    [rel("a")], [rel("a"), rel("b")], [rel("a"), rel("b"), rel("c")], [rel("a"), rel("c")], [rel("b")],
    [rel("a", version=(">=", "1.0"))], [rel("a", version=(">=", "1.0")), rel("b")], [rel("a"), rel("b"), rel("c"), rel("d")],
]


def check_entry_comparator(F, C, tier):
    """Entry::cmp on all ordered pairs of a set of entries in which some are proper prefixes of others (one, two and
    three alternatives more): reflexive, cmp(y,x) is the reverse of cmp(x,y), Equal only for entries with the same
    alternatives, and transitive over all triples - without these 'sorted' is not defined and a stable sort's result
    depends on the input order."""
    key = "<%sEntry as core::cmp::Ord>::cmp" % PFX
    f = F.fn(key)
    if f is None:
        return
    tm = SortMod(F, rp.KIND)
    I = hirai.Interp(F, tm, max_depth=20)
    ents = ENTRY_SET
    txt = [db.text_of_tokens(relspec.field_tokens([e], "canonical")) for e in ents]

    def cmp(i, j):
        toks = relspec.field_tokens([ents[i], ents[j]], "canonical")
        rv, errs, st, mod = db.parse_relations(F, toks)
        if rv is None:
            return "undecided:parse"
        s = hirai.State({}, dict(st.mon), 0)
        h = treemodel.heap_get(s)
        root = rv[2][0][2]
        en = [c for c in h[root][3] if h[c][2] == "ENTRY"]
        a = ("enum", PFX + "Entry", (("abs", "nref", en[0]),))
        b = ("enum", PFX + "Entry", (("abs", "nref", en[1]),))
        s, pa = I.newtemp(s, a)
        s, pb = I.newtemp(s, b)
        try:
            out = I.inline(f, [("ref", pa), ("ref", pb)], s)
        except hirai.Violation as e:
            return "undecided:%s" % e
        if len(out) == 1 and out[0][0] == OK:
            v = I.deref_val(out[0][2], out[0][1])
            if v[0] == "enum" and v[1].startswith(ORD):
                return v[1][len(ORD):]
        return "undecided:%s" % [(ctl, str(v)[:60]) for ctl, v, s_ in out]
    n = len(ents)
    M = [[cmp(i, j) for j in range(n)] for i in range(n)]
    flip = {"Less": "Greater", "Greater": "Less", "Equal": "Equal"}
    cnt = 0
    for i in range(n):
        C.ob("C13/entry-cmp-reflexive", txt[i], M[i][i] == "Equal", "cmp(x, x) = %s" % M[i][i], f["sp"])
        for j in range(n):
            if i == j:
                continue
            cnt += 1
            if i < j:
                C.ob("C13/entry-cmp-antisymmetric", "%s  vs  %s" % (txt[i], txt[j]), flip.get(M[i][j]) == M[j][i], "cmp(a,b) = %s but cmp(b,a) = %s" % (M[i][j], M[j][i]), f["sp"])
            C.ob("C13/entry-cmp-equal-means-same", "%s  vs  %s" % (txt[i], txt[j]), M[i][j] != "Equal",
                 "two entries with different alternatives compare Equal: a stable sort keeps them in input order, so the normalised text depends on the order of the input", f["sp"])
    le = lambda x: x in ("Less", "Equal")
    for i in range(n):
        for j in range(n):
            for k in range(n):
                if len({i, j, k}) == 3 and le(M[i][j]) and le(M[j][k]):
                    strict = M[i][j] == "Less" or M[j][k] == "Less"
                    ok = M[i][k] == "Less" if strict else le(M[i][k])
                    C.ob("C13/entry-cmp-transitive", "%s ; %s ; %s" % (txt[i], txt[j], txt[k]), ok,
                         "cmp(x,y) = %s and cmp(y,z) = %s but cmp(x,z) = %s" % (M[i][j], M[j][k], M[i][k]), f["sp"])
    C.floor("C13/entry-cmp-pairs", cnt, 56, "ordered entry pairs compared")


ORDER_FIELDS = [
    [[rel("a"), rel("b"), rel("c")], [rel("a"), rel("b")], [rel("a")]],
    [[rel("a"), rel("b")], [rel("a")]],
    [[rel("zlib")], [rel("alpha", version=(">=", "1.0"))], [rel("alpha")], [rel("alpha"), rel("beta")]],
    [[rel("a", version=(">=", "1.0")), rel("b")], [rel("a", version=(">=", "1.0"))], [rel("a", version=("<<", "2.0"))]],
]


def check_order_independent(F, C, tier):
    """the same entries given in every order normalise to one text (what 'sorted' means for a list of distinct entries)"""
    sp = F.fn(WS_RELS)["sp"]
    n = 0
    for fi, entries in enumerate(ORDER_FIELDS):
        perms = list(itertools.permutations(entries))
        if tier != "thorough":
            perms = [perms[0], perms[-1]] + perms[1:3]
        outs = {}
        for perm in perms:
            toks = relspec.field_tokens(list(perm), "canonical")
            text = db.text_of_tokens(toks)
            rels, errs, st, mod = db.parse_relations(F, toks)
            if rels is None:
                continue
            tm = SortMod(F, rp.KIND)
            tm.immutable_mutations = []
            I = hirai.Interp(F, tm, max_depth=20)
            I.max_recursion = 8
            try:
                res = I.inline(F.fn(WS_RELS), [rels], hirai.State({}, dict(st.mon), 0))
            except hirai.Violation as e:
                res = []
            t = [node_text(tm, s, I.deref_val(s, v)) if ctl == OK else "%s %s" % (ctl, str(v)[:80]) for ctl, v, s in res]
            outs[text] = t
            n += 1
        distinct = sorted({repr(v) for v in outs.values()})
        C.ob("C13/order-independent", "entries %s in %d orders" % (db.text_of_tokens(relspec.field_tokens(entries, "canonical")), len(outs)), len(distinct) == 1 and all(len(v) == 1 for v in outs.values()),
             "the same entries normalise to different texts depending on their input order: %s" % dict(list(outs.items())[:4]), sp)
    C.floor("C13/order-runs", n, 12, "orderings normalised")
