"""Fact loading: runs the factgen driver over /repo's current working tree (cached by a
content hash of the tree) and offers indexes / walkers over the dumped program."""
import fcntl, hashlib, json, os, shutil, subprocess, sys, time

VERIF = os.path.dirname(os.path.dirname(os.path.abspath(__file__)))
REPO = os.environ.get("VERIF_REPO", "/repo")
CACHE = os.path.join(VERIF, ".cache")
DRIVER = os.path.join(VERIF, "factgen", "target", "debug", "factgen")
EXPECTED_CRATES = ["deb822_lossless", "deb822_derive", "debian_control", "debian_copyright", "dep3", "apt_sources"]

CONFIGS = {
    # name -> extra cargo args (feature configurations that change analysed code)
    "default": [],
    "dc-lossy-only": ["--no-default-features", "-p", "debian-control"],
    "copyright-lossy-only": ["--no-default-features", "-p", "debian-copyright"],
    "dep3-lossy-only": ["--no-default-features", "-p", "dep3"],
}


def tree_hash(repo=REPO):
    h = hashlib.sha256()
    for root, dirs, files in os.walk(repo):
        dirs[:] = sorted(d for d in dirs if d not in ("target", ".git"))
        for f in sorted(files):
            p = os.path.join(root, f)
            if not (f.endswith(".rs") or f.endswith(".toml") or f == "Cargo.lock" or f.endswith(".md")):
                continue
            h.update(os.path.relpath(p, repo).encode())
            h.update(b"\0")
            try:
                with open(p, "rb") as fh:
                    h.update(fh.read())
            except OSError:
                pass
            h.update(b"\0")
    try:
        with open(DRIVER, "rb") as fh:
            h.update(hashlib.sha256(fh.read()).digest())
    except OSError:
        pass
    return h.hexdigest()[:24]


def ensure_driver():
    if not os.path.exists(DRIVER):
        subprocess.run(["cargo", "build", "--offline"], cwd=os.path.join(VERIF, "factgen"), check=True,
                       stdout=subprocess.DEVNULL, stderr=subprocess.DEVNULL)


def ensure_facts(config="default"):
    """Return directory with <crate>.json facts for the current /repo tree."""
    ensure_driver()
    os.makedirs(os.path.join(CACHE, "facts"), exist_ok=True)
    h = tree_hash()
    # one lock per tree state: checks of the same tree share one generation, different trees generate in parallel
    lock = open(os.path.join(CACHE, "facts-%s-%s.lock" % (h, config)), "w")
    fcntl.flock(lock, fcntl.LOCK_EX)
    try:
        d = os.path.join(CACHE, "facts", h + "-" + config)
        if os.path.exists(os.path.join(d, "OK")):
            return d
        if os.path.exists(d):
            shutil.rmtree(d)
        # keep the cache small: drop older entries
        base = os.path.join(CACHE, "facts")
        olds = sorted((os.path.getmtime(os.path.join(base, x)), x) for x in os.listdir(base))
        for mt, x in olds[:-24]:
            # never an entry another run may still be reading (many trees analysed at once: self-test runners)
            if not x.endswith(".tmp") and time.time() - mt > 2700:
                shutil.rmtree(os.path.join(base, x), ignore_errors=True)
        for lf in os.listdir(CACHE):
            if lf.startswith("facts-") and lf.endswith(".lock") and time.time() - os.path.getmtime(os.path.join(CACHE, lf)) > 3600:
                try:
                    os.remove(os.path.join(CACHE, lf))
                except OSError:
                    pass
        tmp = d + ".tmp"
        if os.path.exists(tmp):
            shutil.rmtree(tmp)
        os.makedirs(tmp)
        env = dict(os.environ)
        env["VERIF_REPO"] = REPO
        args = CONFIGS[config]
        cmd = [os.path.join(VERIF, "factgen", "run.sh"), tmp]
        if args:
            cmd += ["--"] + args
        r = subprocess.run(cmd, env=env, stdout=subprocess.PIPE, stderr=subprocess.STDOUT, text=True)
        if r.returncode != 0:
            sys.stderr.write("factgen: /repo does not compile under the analysis build (config %s):\n%s\n" % (config, r.stdout[-4000:]))
            shutil.rmtree(tmp, ignore_errors=True)
            sys.exit(2)
        os.rename(tmp, d)
        open(os.path.join(d, "OK"), "w").write(str(time.time()))
        return d
    finally:
        fcntl.flock(lock, fcntl.LOCK_UN)
        lock.close()


class Facts:
    def __init__(self, config="default"):
        self.dir = ensure_facts(config)
        self.config = config
        self.crates = {}
        self.fns = {}
        self.adts = {}
        self.impls = []
        for fn in sorted(os.listdir(self.dir)):
            if not fn.endswith(".json"):
                continue
            with open(os.path.join(self.dir, fn)) as fh:
                c = json.load(fh)
            self.crates[c["crate"]] = c
            for f in c["fns"]:
                f["crate"] = c["crate"]
                self.fns[f["key"]] = f
            for a in c["adts"]:
                self.adts[a["key"]] = a
            for i in c["impls"]:
                i["crate"] = c["crate"]
                self.impls.append(i)
        if config == "default":
            missing = [c for c in EXPECTED_CRATES if c not in self.crates]
            if missing:
                sys.stderr.write("factgen: no facts for crates %s (anchor lost)\n" % missing)
                sys.exit(2)

    # ---- lookup ----
    def fn(self, key):
        return self.fns.get(key)

    def fns_matching(self, pred):
        return [f for k, f in sorted(self.fns.items()) if pred(f)]

    def impl_methods(self, trait_suffix, method):
        """all fns that implement `method` of a trait whose path ends with trait_suffix"""
        out = []
        for k, f in sorted(self.fns.items()):
            if f.get("trait", "").endswith(trait_suffix) and f.get("name") == method:
                out.append(f)
        return out


# ---- tree walking -----------------------------------------------------------------

def children(n):
    """yield child expression/pattern/stmt nodes (dicts) of a node"""
    if isinstance(n, dict):
        for k, v in n.items():
            if isinstance(v, dict):
                yield v
            elif isinstance(v, list):
                for x in v:
                    if isinstance(x, dict):
                        yield x


def walk(n):
    """pre-order over all dict nodes"""
    stack = [n]
    while stack:
        x = stack.pop()
        if isinstance(x, dict):
            yield x
            ch = list(children(x))
            stack.extend(reversed(ch))


def exprs(n, kind=None):
    for x in walk(n):
        if "k" in x and (kind is None or x["k"] == kind or (isinstance(kind, (tuple, set, list)) and x["k"] in kind)):
            yield x


def callee(n):
    """resolved callee of a Call / MCall node: concrete instance if known else the declared def"""
    if n.get("k") in ("Call", "MCall"):
        return n.get("inst") or n.get("def") or (("ctor:" + n["ctor"]) if "ctor" in n else None)
    return None


def calls(n):
    for x in walk(n):
        if x.get("k") in ("Call", "MCall") and callee(x):
            yield x


def str_lits(n):
    return [x["v"] for x in walk(n) if x.get("k") == "Lit" and x.get("t") == "str"]


def peel(n):
    """strip reference/deref/Use/Cast wrappers and single-expression blocks"""
    while isinstance(n, dict):
        k = n.get("k")
        if k in ("AddrOf", "Use", "Type") or (k == "Unary" and n.get("op") == "*" and "def" not in n):
            n = n["e"]
        elif k == "Block" and not n.get("stmts") and "expr" in n:
            n = n["expr"]
        else:
            break
    return n


def is_local(n, name=None):
    n = peel(n)
    return isinstance(n, dict) and n.get("k") == "Path" and n["res"].get("k") == "Local" and (name is None or n["res"]["name"] == name)


def path_def(n):
    """def path for a Path expr / pattern path dict resolving to a Def"""
    n = peel(n) if "k" in n else n
    if n.get("k") == "Path":
        r = n["res"]
    else:
        r = n
    if r.get("k") in ("Def", "SelfTy"):
        return r.get("def")
    return None


def loc(n):
    return n.get("sp", "?") if isinstance(n, dict) else "?"


# ---- call graph -------------------------------------------------------------------

def mir_callees(f):
    out = []
    for b in f.get("mir", []) or []:
        if b.get("t") == "Call" and not b.get("cleanup"):
            out.append(b)
    return out


def build_callgraph(facts):
    """edges fn-key -> set(fn-key) over workspace functions, from MIR call terminators.
    Closures are attached to their parent (a closure defined in f is considered called by f).
    Calls through a trait method on a type parameter fan out to all workspace impls."""
    g = {k: set() for k in facts.fns}
    trait_impls = {}
    for k, f in facts.fns.items():
        if "trait" in f and f.get("name"):
            trait_impls.setdefault(f["trait"] + "::" + f["name"], set()).add(k)
    for k, f in facts.fns.items():
        if f["dk"] == "Closure" and f.get("parent") in g:
            # parent "calls" closure (conservative)
            pk = k.rsplit("::{closure#", 1)[0]
            if pk in g:
                g[pk].add(k)
            else:
                g[f["parent"]].add(k)
        for b in mir_callees(f):
            d = b.get("inst") or b.get("def")
            if d in g:
                g[k].add(d)
            elif b.get("def") in trait_impls and "inst" not in b:
                g[k] |= trait_impls[b["def"]]
    return g


def reachable(g, roots):
    seen = set()
    stack = [r for r in roots if r in g]
    parent = {}
    while stack:
        x = stack.pop()
        if x in seen:
            continue
        seen.add(x)
        for y in sorted(g.get(x, ())):
            if y not in seen:
                parent.setdefault(y, x)
                stack.append(y)
    return seen, parent


def call_path(parent, roots, target):
    p = [target]
    while p[-1] not in roots and p[-1] in parent:
        p.append(parent[p[-1]])
    return list(reversed(p))
