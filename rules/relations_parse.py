"""analysis of the relationship-field lexer (debian-control/src/relations.rs) and lossless parser
(debian-control/src/lossless/relations.rs parse()) with the token-cursor interpreter; used by C02, C09, C10."""
import itertools
import facts, hirai, tokcursor, lexer
from hirai import OK, RET, PANIC, OKV, ERRV, SOME, NONE, some, none, unk, UNIT
from tokcursor import EOF

KIND = "debian_control::relations::SyntaxKind"
LEX_FN = "debian_control::relations::lex"
NEXT_TOKEN = "debian_control::relations::Lexer::<'a>::next_token"
PARSE_FN = "debian_control::lossless::relations::parse"
PEEK_PAST_WS = "debian_control::lossless::relations::parse::Parser::peek_past_ws"
COMPOSITE = ["ROOT", "ENTRY", "RELATION", "ARCHQUAL", "VERSION", "CONSTRAINT", "ARCHITECTURES", "PROFILES", "SUBSTVAR"]


# ----------------------------------------------------------------------------- lexer table
class RelLexMod:
    """abstract char stream: ('abs','pk', n) with n chars consumed (0, 1, 'many'); head char known"""

    def __init__(self, facts, ch):
        self.facts = facts
        self.ch = ch
        self.problems = []

    def intrinsic(self, I, callee, args, st, n):
        c = callee
        a0 = I.deref_val(st, args[0]) if args else None
        sp = n.get("sp", "") if isinstance(n, dict) else ""
        if a0 is not None and a0[0] == "abs" and a0[1] == "pk":
            cnt = a0[2]
            place = args[0][1] if args[0][0] == "ref" else None
            if c == "core::iter::adapters::peekable::Peekable::<I>::peek":
                if cnt == 0:
                    if self.ch is None:
                        return [(OK, none(), st)]
                    return [(OK, some(("char", self.ch)), st.setmon("cur", "head"))]
                return [(OK, none(), st), (OK, some(("abs", "uchar")), st.setmon("cur", "later"))]
            if c.endswith("as core::iter::traits::iterator::Iterator>::next"):
                ncnt = 1 if cnt == 0 else "many"
                s2 = I.write(st, place, ("abs", "pk", ncnt)) if place else st
                # conservation inside read_while-style loops: the consumed char must have been pushed
                if s2.mon.get("collecting") is not None:
                    if not s2.mon.get("pushed"):
                        self.problems.append(("lexer-conserve", "a character is consumed inside a collecting loop without being appended to the token text", sp))
                    s2 = s2.setmon("pushed", False)
                v = ("char", self.ch) if cnt == 0 and self.ch is not None else ("abs", "uchar")
                if cnt == 0 and self.ch is None:
                    return [(OK, none(), s2)]
                return [(OK, some(v), s2)]
            if c == "core::iter::adapters::peekable::Peekable::<I>::next_if":
                # look at the head, take it iff the predicate holds; inside a collecting loop the taken character is
                # owed to the token text (it must be appended before the next one is taken and before returning)
                if cnt == 0 and self.ch is None:
                    return [(OK, none(), st)]
                heads = [(("char", self.ch), "head")] if cnt == 0 else [(("abs", "uchar"), "later")]
                out = [(OK, none(), st)] if cnt != 0 else []
                for hv, which in heads:
                    for ctl, r, s2 in I.apply(args[1], [hv], st, n):
                        if ctl != OK:
                            out.append((ctl, r, s2))
                            continue
                        for taken in ([True] if r == ("bool", True) else [False] if r == ("bool", False) else [True, False]):
                            if not taken:
                                out.append((OK, none(), s2))
                                continue
                            s3 = I.write(s2, place, ("abs", "pk", 1 if cnt == 0 else "many")) if place else s2
                            if s3.mon.get("collecting") is not None:
                                if s3.mon.get("owed"):
                                    self.problems.append(("lexer-conserve", "a character is consumed inside a collecting loop without being appended to the token text", sp))
                                s3 = s3.setmon("owed", True)
                            out.append((OK, some(hv), s3.setmon("cur", which)))
                return out
        if c == "core::iter::sources::from_fn::from_fn":
            return [(OK, ("abs", "fromfn", args[0]), st)]
        if a0 is not None and a0[0] == "abs" and a0[1] == "fromfn" and c.endswith("::collect") and isinstance(n, dict) and n.get("ty") == "alloc::string::String":
            # `from_fn(|| input.next_if(..)).collect::<String>()`: the closure is called until it yields None and every
            # character it yields is appended - the same discipline as an explicit push loop
            root = ("T", "collectbuf")
            s0 = st.setmon("collecting", True).setmon("pushed", False).setroot(root, ("abs", "run", "empty"))
            out, seen, work = [], set(), [s0]
            while work:
                s = work.pop()
                fz = s.freeze()
                if fz in seen:
                    continue
                seen.add(fz)
                if len(seen) > 2000:
                    self.problems.append(("lexer-run", "collect over from_fn does not converge", sp))
                    break
                for ctl, r, s2 in I.apply(a0[2], [], s, n):
                    if ctl != OK:
                        out.append((ctl, r, s2))
                        continue
                    r = I.deref_val(s2, r)
                    if r[0] == "enum" and r[1] == NONE:
                        buf = s2.store.get(root)
                        s3 = s2.copy()
                        s3.store.pop(root, None)
                        out.append((OK, buf, s3))
                    elif r[0] == "enum" and r[1] == SOME:
                        for ctl3, _, s4 in self.intrinsic(I, "alloc::string::String::push", [("ref", (root,)), r[2][0]], s2, n) or []:
                            work.append(s4)
                    else:
                        self.problems.append(("lexer-run", "from_fn closure yields an undetermined value %s" % (str(r)[:60],), sp))
            return I.dedupe(out)
        if c == "alloc::string::String::new":
            return [(OK, ("abs", "run", "empty"), st.setmon("collecting", True).setmon("pushed", False))]
        if c == "alloc::string::String::push":
            tgt = args[0]
            cur = I.deref_val(st, tgt)
            if cur[0] == "abs" and cur[1] == "run":
                chv = I.deref_val(st, args[1])
                owed = bool(st.mon.get("owed"))
                if st.mon.get("pushed"):
                    self.problems.append(("lexer-conserve", "two characters appended for one consumed character", sp))
                which = st.mon.get("cur")
                ok = (chv == ("char", self.ch) and which == "head") or (chv == ("abs", "uchar") and which == "later")
                if not ok:
                    self.problems.append(("lexer-conserve", "appended character %s is not the character just peeked" % (chv,), sp))
                newrun = "head.." if cur[2] == "empty" and which == "head" else ("run" if cur[2] != "empty" else "nohead")
                s2 = I.write(st, tgt[1], ("abs", "run", newrun)) if tgt[0] == "ref" else st
                if owed:
                    return [(OK, UNIT, s2.setmon("owed", False))]     # the character taken by next_if is now part of the text
                return [(OK, UNIT, s2.setmon("pushed", True))]
        if a0 is not None and a0[0] == "char":
            tbl = {"is_ascii_alphanumeric": lambda x: x.isascii() and x.isalnum(), "is_ascii_digit": lambda x: x.isascii() and x.isdigit(),
                   "is_ascii_alphabetic": lambda x: x.isascii() and x.isalpha(), "is_whitespace": lambda x: x.isspace(),
                   "is_ascii_whitespace": lambda x: x in " \t\n\r\x0c", "is_ascii_graphic": lambda x: 33 <= ord(x) <= 126,
                   "is_alphanumeric": lambda x: x.isalnum(), "is_ascii_punctuation": lambda x: x.isascii() and not x.isalnum() and 33 <= ord(x) <= 126}
            m = c.rsplit("::", 1)[-1]
            if c.startswith("core::char::methods::<impl char>::") and m in tbl:
                return [(OK, ("bool", tbl[m](a0[1])), st)]
            if c in ("<T as alloc::string::ToString>::to_string", "alloc::string::ToString::to_string", "<char as alloc::string::ToString>::to_string"):
                return [(OK, ("str", a0[1]), st)]
        if a0 is not None and a0 == ("abs", "uchar"):
            if c.startswith("core::char::methods::<impl char>::"):
                return [(OK, ("bool", True), st), (OK, ("bool", False), st)]
        return None

    def binary(self, I, n, l, r, st):
        if l == ("abs", "uchar") or r == ("abs", "uchar"):
            return [(OK, ("bool", True), st), (OK, ("bool", False), st)]
        return None

    def match_abs(self, I, p, v, st):
        if v == ("abs", "uchar"):
            return [(True, st), (False, st)]
        return None


def lexer_table(F):
    """per character class: set of (kind, consumption, text form); problems"""
    f = F.fn(NEXT_TOKEN)
    res = {"cells": [], "problems": []}
    if f is None:
        res["problems"].append(("anchor", "Lexer::next_token not found", ""))
        return res
    for ch in lexer.CHARS + [None]:
        mod = RelLexMod(F, ch)
        I = hirai.Interp(F, mod)
        st = hirai.State(depth=0)
        st = st.setroot(("T", "lexer"), ("struct", "debian_control::relations::Lexer", (("input", ("abs", "pk", 0)),)))
        outs = I.inline(f, [("ref", (("T", "lexer"),))], st)
        cell = {"char": ch, "outs": set()}
        for ctl, v, s in outs:
            if ctl != OK:
                cell["outs"].add(("ctl", ctl, str(v)[:80]))
                continue
            cnt = dict(s.store[("T", "lexer")][2])["input"][2]
            if v[0] == "enum" and v[1] == NONE:
                cell["outs"].add(("none", cnt))
                continue
            if v[0] == "enum" and v[1] == SOME and v[2][0][0] == "tuple":
                kind, text = v[2][0][1]
                kn = kind[1].rsplit("::", 1)[-1] if kind[0] == "enum" else str(kind)
                if text[0] == "str":
                    tf = ("lit", text[1])
                elif text[0] == "abs" and text[1] == "run":
                    tf = ("run", text[2])
                else:
                    tf = ("?", str(text)[:40])
                pending = bool(s.mon.get("pushed"))
                if s.mon.get("owed"):
                    mod.problems.append(("lexer-conserve", "a character taken from the input is not part of the token text when the token is returned", f["sp"]))
                cell["outs"].add(("tok", kn, cnt, tf, pending))
            else:
                cell["outs"].add(("?", str(v)[:60]))
        for pr in mod.problems:
            res["problems"].append(pr)
        res["cells"].append(cell)
    return res


def lexer_kinds(tab):
    ks = set()
    for c in tab["cells"]:
        for o in c["outs"]:
            if o[0] == "tok":
                ks.add(o[1])
    return sorted(ks)


# ----------------------------------------------------------------------------- parser
class Mod(tokcursor.BuilderMixin, tokcursor.CursorMod):
    def __init__(self, facts, oracle, structure=False, summaries=None):
        tokcursor.CursorMod.__init__(self, facts, oracle, KIND, {LEX_FN: "vecfwd"}, COMPOSITE, summaries=summaries or {})
        self.structure = structure
        self.on_error = self._on_error
        self.on_token = self._on_token
        self.on_start = self._on_start
        self.on_finish = self._on_finish
        self.lexed = []
        self.parsed = []

    def intrinsic(self, I, callee, args, st, n):
        if callee == LEX_FN:
            self.lexed.append(I.deref_val(st, args[0]))
        if callee == PARSE_FN:
            self.parsed.append(tuple(I.deref_val(st, a) for a in args))
        return tokcursor.CursorMod.intrinsic(self, I, callee, args, st, n)

    def extra_intrinsic(self, I, c, args, st, n):
        r = self.builder_intrinsic(I, c, args, st, n)
        if r is not None:
            return r
        if c == "rowan::api::SyntaxNode::<L>::new_root_mut":
            g = I.deref_val(st, args[0])
            return [(OK, ("abs", "syntax-mut", g, st.mon.get("rootkind")), st)]
        if c == "rowan::api::SyntaxNode::<L>::new_root":
            g = I.deref_val(st, args[0])
            return [(OK, ("abs", "syntax-immutable", g, st.mon.get("rootkind")), st)]
        if c == "rowan::api::SyntaxNode::<L>::kind":
            v = I.deref_val(st, args[0])
            if v[0] == "abs" and v[1].startswith("syntax") and v[3]:
                return [(OK, self.kind_val(v[3]), st)]
        if c in ("<rowan::green::node::GreenNode as core::clone::Clone>::clone",):
            return [(OK, I.deref_val(st, args[0]), st)]
        if c == "alloc::fmt::format":
            return [(OK, ("abs", "string"), st)]
        return None

    def _on_start(self, mod, I, st, k, sp):
        if len(st.mon.get("stack", ())) == 1:
            st = st.setmon("rootkind", k)
        if self.structure and self.hook_start:
            st = self.hook_start(self, I, st, k, sp)
        return st

    def _on_finish(self, mod, I, st, k, sp):
        if self.structure and self.hook_finish:
            st = self.hook_finish(self, I, st, k, sp)
        return st

    def _on_error(self, mod, I, st, sp):
        if self.structure:
            self.report("O-accept/error", "the parser reports a syntax error on a well-formed token sequence (error raised in %s)" % (I.callstack[-1].split("::")[-1] if I.callstack else "?"),
                        "state: %s" % tokcursor.short_state(st), sp)
        return st

    def _on_token(self, mod, I, st, k, role, stack, sp):
        if self.structure and self.hook_token:
            st = self.hook_token(self, I, st, k, role, stack, sp)
        return st

    hook_start = None
    hook_finish = None
    hook_token = None


def validate_peek_past_ws(F, kinds):
    """bounded validation of the helper's summary: returns (skip set S, problems).
    The helper is interpreted on concrete token vectors (kinds only) up to length 3."""
    f = F.fn(PEEK_PAST_WS)
    if f is None:
        return None, ["peek_past_ws not found"]
    probs = []
    old_bound = hirai.INT_BOUND
    hirai.INT_BOUND = 6

    class VM:
        def __init__(self, vec):
            self.vec = vec

        def intrinsic(self, I, callee, args, st, n):
            a0 = I.deref_val(st, args[0]) if args else None
            if a0 == ("abs", "cvec"):
                if callee in ("alloc::vec::Vec::<T, A>::len", "core::slice::<impl [T]>::len"):
                    return [(OK, hirai.mkint(len(self.vec)), st)]
                if callee in ("alloc::vec::Vec::<T, A>::is_empty", "core::slice::<impl [T]>::is_empty"):
                    return [(OK, ("bool", not self.vec), st)]
                if callee in ("core::slice::<impl [T]>::iter",) or callee.endswith("IntoIterator>::into_iter") or callee == "core::iter::traits::collect::IntoIterator::into_iter":
                    return [(OK, ("abs", "siter", tuple(("tuple", (("enum", KIND + "::" + k, ()), ("abs", "toktext", k))) for k in self.vec), 0), st)]
                if callee in ("core::slice::<impl [T]>::last", "core::slice::<impl [T]>::first"):
                    if not self.vec:
                        return [(OK, none(), st)]
                    k = self.vec[-1 if callee.endswith("last") else 0]
                    return [(OK, some(("tuple", (("enum", KIND + "::" + k, ()), ("abs", "toktext", k)))), st)]
                if callee.endswith("Deref>::deref"):
                    return [(OK, args[0], st)]
            if a0 is not None and a0[0] == "abs" and a0[1] == "siter":
                if callee.endswith("Iterator>::next") or callee == "core::iter::traits::iterator::Iterator::next":
                    if a0[3] < len(a0[2]):
                        s2 = I.write(st, args[0][1], ("abs", "siter", a0[2], a0[3] + 1)) if args[0][0] == "ref" else st
                        return [(OK, some(a0[2][a0[3]]), s2)]
                    return [(OK, none(), st)]
                import siterlib
                return siterlib.siter_intrinsic(I, callee, args, st, n)
            return None

        def index(self, I, n, base, idx, st):
            b = I.deref_val(st, base)
            i = I.deref_val(st, idx)
            if b == ("abs", "cvec") and i[0] == "int" and isinstance(i[1], int):
                if 0 <= i[1] < len(self.vec):
                    return [(OK, ("tuple", (("enum", KIND + "::" + self.vec[i[1]], ()), ("abs", "toktext", self.vec[i[1]]))), st)]
                return [(PANIC, ("index out of bounds", n.get("sp")), st)]
            return None

    def run(vec):
        mod = VM(vec)
        I = hirai.Interp(F, mod)
        st = hirai.State(depth=0).setroot(("T", "p"), ("struct", "Parser", (("tokens", ("abs", "cvec")),)))
        outs = I.inline(f, [("ref", (("T", "p"),))], st)
        vals = set()
        for ctl, v, s in outs:
            if ctl != OK:
                vals.add(("ctl", ctl))
            elif v[0] == "enum" and v[1] == NONE:
                vals.add(None)
            elif v[0] == "enum" and v[1] == SOME and v[2][0][0] == "enum":
                vals.add(v[2][0][1].rsplit("::", 1)[-1])
            else:
                vals.add(("?", str(v)[:50]))
        return vals
    try:
        S = set()
        for k in kinds:
            r = run(["R_CURLY" if k != "R_CURLY" else "IDENT", k])  # vector is reversed: last element is the next token
            base = "R_CURLY" if k != "R_CURLY" else "IDENT"
            if r == {base}:
                S.add(k)
            elif r != {k}:
                probs.append("peek_past_ws on [.., %s] yields %s" % (k, r))
        nonS = [k for k in kinds if k not in S][:2]
        alphabet = sorted(S)[:2] + nonS
        n = 0
        for ln in range(0, 4):
            for vec in itertools.product(alphabet, repeat=ln):
                want = None
                for k in reversed(vec):
                    if k not in S:
                        want = k
                        break
                got = run(list(vec))
                n += 1
                if got != {want}:
                    probs.append("peek_past_ws(%s) = %s, summary 'first kind outside %s from the top' gives %s" % (list(vec), got, sorted(S), want))
        return (frozenset(S), n), probs
    finally:
        hirai.INT_BOUND = old_bound


def run_entry(F, key, oracle, args, structure=False, shared=None, hooks=None):
    tab = None
    if shared is not None and "I" in shared:
        I = shared["I"]
        mod = I.module
    else:
        tab_kinds = shared.get("kinds") if shared else None
        (S, nval), probs = shared.get("summary") if shared and "summary" in shared else validate_peek_past_ws(F, tab_kinds or [])
        mod = Mod(F, oracle, structure, summaries={PEEK_PAST_WS: ("peek_skipping", S, "tokens")})
        if hooks:
            for k, v in hooks.items():
                setattr(mod, k, v)
        I = tokcursor.LoopProgressInterp(F, mod, max_depth=14)
        if shared is not None:
            shared["I"] = I
    mod.lexed = []
    mod.parsed = []
    I.steps = 0
    outs = I.inline(F.fn(key), args, hirai.State(depth=0))
    return outs, mod, I
