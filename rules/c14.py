"""C14 - lossy relations round-trip through text and convert faithfully to lossless.

Lossy Relation values are assembled from the same structured models as C10 (every combination of optional parts,
0..n architectures with negations, 0..n profile groups of 1..n terms).  For every value, inside the interpreter:
  - the lossy Display impl is interpreted -> text; the text is tokenised with the extracted relation lexer table;
    the lossy reader interpreted on these tokens must return exactly the value; the lossless parser interpreted on
    them must accept, and its accessors must report the same structure,
  - From<lossy::Relation> for lossless::Relation (RelationBuilder path) is interpreted with the rowan model; the tree
    must print the same text as the lossy value; From<lossless::Relation> for lossy::Relation interpreted on that tree
    must return the original value,
  - Entry <-> Vec<lossy::Relation> and lossy Relations Display/readers likewise for 1..2 alternatives / entries."""
import facts, hirai, symstr, treemodel, docbuild as db, relspec, roundtrip, lossyrel_parse as lr, relations_parse as rp, tokcursor, c10
from relspec import rel
from hirai import OK, PANIC, SOME, NONE, OKV, ERRV, some, none, unk
from report import Check

LOSSY = "debian_control::lossy::relations::"
PFX = c10.PFX
TO_LOSSLESS = "<debian_control::lossless::relations::Relation as core::convert::From<debian_control::lossy::relations::Relation>>::from"
TO_LOSSY = "debian_control::lossless::relations::<impl core::convert::From<debian_control::lossless::relations::Relation> for debian_control::lossy::relations::Relation>::from"
ENTRY_FROM_LOSSY = "<debian_control::lossless::relations::Entry as core::convert::From<alloc::vec::Vec<debian_control::lossy::relations::Relation>>>::from"
ENTRY_TO_LOSSY = "debian_control::lossless::relations::<impl core::convert::From<debian_control::lossless::relations::Entry> for alloc::vec::Vec<debian_control::lossy::relations::Relation>>::from"
DISPLAY_REL = "<debian_control::lossy::relations::Relation as core::fmt::Display>::fmt"
DISPLAY_RELS = "<debian_control::lossy::relations::Relations as core::fmt::Display>::fmt"


SYM = True      # component strings are atoms (arbitrary IDENT-class words); '!' and ':' stay literal


def S(x):
    if not SYM:
        return symstr.lit(x)
    neg = x.startswith("!")
    ps = [("lit", "!")] if neg else []
    for i, part in enumerate((x[1:] if neg else x).split(":")):
        if i:
            ps.append(("lit", ":"))
        ps.append(("atom", part, "word"))
    return symstr.mk(ps)


def M(r):
    """the model as it reads back when component strings are atoms"""
    return c10.symrel(r) if SYM else r


def lossy_value(r):
    """model dict -> lossy::Relation value of the interpreter's domain"""
    ver = none()
    if r["version"]:
        ver = some(("tuple", (("enum", c10.VCP + relspec.VC[r["version"][0]], ()), S(r["version"][1]))))
    archs = none()
    if r["archs"] is not None:
        archs = some(("abs", "svec", tuple(S(("!" if neg else "") + a) for neg, a in r["archs"])))
    profs = ("abs", "svec", tuple(("abs", "svec", tuple(("enum", c10.BP + ("Disabled" if neg else "Enabled"), (S(p),)) for neg, p in g)) for g in r["profiles"]))
    return ("struct", LOSSY + "Relation", (("name", S(r["name"])), ("archqual", some(S(r["archqual"])) if r["archqual"] else none()),
                                           ("architectures", archs), ("version", ver), ("profiles", profs)))


def lex_text(text, cells):
    """tokenise text with the extracted relation lexer table: list of (kind, sstr).  `text` is a python string or a
    symbolic string value; atoms of class word stand for arbitrary non-empty IDENT-character strings"""
    if isinstance(text, str):
        pieces = [("lit", text)]
    else:
        pieces = list(symstr.pieces_of(text) or ())
    units = []          # ('c', char) | ('a', atom piece)
    for p in pieces:
        if p[0] == "lit":
            units += [("c", ch) for ch in p[1]]
        elif p[0] == "atom" and p[2] == "word":
            units.append(("a", p))
        else:
            return None

    def kind_of(u):
        if u[0] == "a":
            return "IDENT", True
        outs = cells.get(u[1])
        kinds = {o[1] for o in (outs or ()) if o[0] == "tok"}
        if len(kinds) != 1:
            return None, False
        return next(iter(kinds)), any(o[0] == "tok" and o[2] == "many" for o in outs)
    out = []
    i = 0
    while i < len(units):
        k, run = kind_of(units[i])
        if k is None:
            return None
        j = i + 1
        if run:
            while j < len(units) and kind_of(units[j]) == (k, True):
                j += 1
        ps = []
        for u in units[i:j]:
            ps.append(("lit", u[1]) if u[0] == "c" else u[1])
        out.append((k, symstr.mk(ps)))
        i = j
    return out


def models(tier):
    quals = [None, "any"]
    vers = [None] + [(op, v) for op in relspec.OPS for v in ("1.0", "2:1.0~rc1+b1-1")]
    archs = [None, [(False, "amd64")], [(True, "amd64"), (True, "i386")], [(False, "linux-any"), (True, "any-i386"), (False, "hurd-i386"), (False, "any-arm64")]]
    profs = [(), ([(False, "cross")],), ([(True, "nocheck")],), ([(False, "cross"), (True, "nodoc")],), ([(True, "a"), (True, "b"), (False, "c")], [(False, "stage1")]), ([(True, "x")], [(True, "y")], [(False, "z")])]
    out = []
    i = 0
    for q in quals:
        for v in vers:
            for a in archs:
                for p in profs:
                    i += 1
                    if tier != "thorough" and not (i % 4 == 0 or (v and a and p and i % 2) or (not v and (a or p))):
                        continue
                    out.append(rel("p%d" % (i % 5), archqual=q, version=v, archs=a, profiles=p))
    return out


def run(tier):
    F = facts.Facts()
    hirai.INT_BOUND = 64
    C = Check("C14", "other", tier, "abstract interpretation of the lossy Display impls, both relation readers and the lossy<->lossless conversions on lossy values generated from structured models (all combinations of optional parts); texts are tokenised with the extracted lexer table",
              ["rustc HIR/typeck", "hirai", "rowan model (rules/treemodel.py)", "extracted relation lexer table", "debversion::Version prints the text it was parsed from"])
    for k in (TO_LOSSLESS, TO_LOSSY, ENTRY_FROM_LOSSY, ENTRY_TO_LOSSY, DISPLAY_REL, DISPLAY_RELS, lr.ENTRY_KEY, lr.RELS_KEY):
        C.ob("C14/anchor", k, F.fn(k) is not None, "not found")
    rtab = rp.lexer_table(F)
    cells = {c["char"]: c["outs"] for c in rtab["cells"]}
    lit_text = {}
    for cell in rtab["cells"]:
        for o in cell["outs"]:
            if o[0] == "tok" and o[3][0] == "lit" and o[1] not in ("ERROR",):
                lit_text[o[1]] = o[3][1]
    ms = models(tier)
    n = 0
    for r in ms:
        n += 1
        val = lossy_value(r)
        label = "%s" % db.text_of_tokens(relspec.rel_tokens(r, "canonical"))
        tm = c10.AccMod(F, rp.KIND)
        I = hirai.Interp(F, tm, max_depth=18)
        I.max_recursion = 8
        s0 = hirai.State(depth=0)
        # --- print
        rs = tm.render(I, s0, val, {})
        texts = [symstr.show(v) if ctl == OK and v[0] in ("sstr", "str") else None for ctl, v, s in rs]
        sp = F.fn(DISPLAY_REL)["sp"]
        if not C.ob("C14/print-decidable", label, len(texts) == 1 and texts[0] is not None, "Display has outcomes %s" % [(ctl, str(v)[:60]) for ctl, v, s in rs], sp):
            continue
        text = texts[0]
        r = M(r)
        toks = lex_text(rs[0][1], cells)
        if not C.ob("C14/print-lexes", label, toks is not None and all(k != "ERROR" for k, t in toks), "printed text %r contains characters outside the relation token classes" % text, sp):
            continue
        # --- lossy reader on the printed text
        lmod = lr.Mod(F, db.seq_dfa([k for k, t in toks]), lit_text=lit_text, vec_cap=8)
        lmod.tokens = toks
        LI = tokcursor.LoopProgressInterp(F, lmod, max_depth=16)
        res = LI.inline(F.fn(lr.ENTRY_KEY), [("abs", "text")], hirai.State(depth=0))
        outs = []
        for ctl, v, s in res:
            if ctl == OK and v[0] == "enum" and v[1] == OKV:
                outs.append(c10.lossy_model(LI, s, v[2][0]))
            else:
                outs.append("%s %s" % (ctl, roundtrip.show_value(LI.deref_val(s, v))[:100]))
        C.ob("C14/lossy-reads-own-text", label, outs == [r], "prints %r, which the lossy reader turns into %s (value was %s)" % (text, outs, r), F.fn(lr.ENTRY_KEY)["sp"])
        # --- lossless reader on the printed text
        rels, errs, st, mod = db.parse_relations(F, toks)
        okp = rels is not None and errs == ("abs", "strvec", 0)
        C.ob("C14/lossless-accepts-text", label, okp, "prints %r, which the lossless reader rejects / cannot decide" % text, F.fn(rp.PARSE_FN)["sp"])
        if okp:
            tm2 = c10.AccMod(F, rp.KIND)
            I2 = hirai.Interp(F, tm2, max_depth=18)
            I2.max_recursion = 8
            s2 = hirai.State({}, dict(st.mon), 0)
            h = treemodel.heap_get(s2)
            root = rels[2][0][2]
            got = []
            for e in h[root][3]:
                if h[e][1] == "N" and h[e][2] == "ENTRY":
                    for c in h[e][3]:
                        if h[c][1] == "N" and h[c][2] == "RELATION":
                            got.append(c10.read_relation_via_accessors(F, I2, tm2, s2, ("enum", PFX + "Relation", (("abs", "nref", c),))))
            C.ob("C14/lossless-reads-text", label, got == [r], "prints %r, which the lossless reader reads as %s (value was %s)" % (text, got, r), F.fn(PFX + "Relation::profiles")["sp"])
        # --- conversion lossy -> lossless -> lossy
        res = I.inline(F.fn(TO_LOSSLESS), [val], s0)
        sp2 = F.fn(TO_LOSSLESS)["sp"]
        if not C.ob("C14/convert-decidable", label, len(res) == 1 and res[0][0] == OK, "From<lossy::Relation> has outcomes %s" % [(ctl, str(v)[:100]) for ctl, v, s in res], sp2):
            continue
        s3 = res[0][2]
        lv = I.deref_val(s3, res[0][1])
        nid = tm.unwrap(I, s3, lv[2][0])[2] if lv[0] == "enum" and lv[2] else None
        h3 = treemodel.heap_get(s3)
        ltext = symstr.show(symstr.mk(tm.text_of(h3, nid))) if nid in h3 else None
        C.ob("C14/convert-same-text", label, ltext == text, "the lossless form prints %r, the lossy value %r" % (ltext, text), sp2)
        back = I.inline(F.fn(TO_LOSSY), [lv], s3)
        outs = [c10.lossy_model(I, s, v) if ctl == OK else "%s %s" % (ctl, str(v)[:100]) for ctl, v, s in back]
        C.ob("C14/convert-back", label, outs == [r], "lossy -> lossless -> lossy gives %s (value was %s)" % (outs, r), F.fn(TO_LOSSY)["sp"])
        if tm.immutable_mutations:
            C.ob("C14/convert-mutable", label, False, "the conversion mutates an immutable tree: %s" % (tm.immutable_mutations[:2],), sp2)
        if len(C.samples) < 6:
            C.sample({"value": str(r), "printed": text})
    # the zero-architectures edge: Some(vec![]) prints "name []" and must come back as Some([]) from the lossy reader
    for r0 in (rel("p0", archs=[]), rel("p1", version=(">=", "1.0"), archs=[], profiles=[[(True, "nocheck")]])):
        val = lossy_value(r0)
        tm = c10.AccMod(F, rp.KIND)
        I = hirai.Interp(F, tm, max_depth=18)
        rs = tm.render(I, hirai.State(depth=0), val, {})
        lab = "%s with an empty architecture list" % r0["name"]
        if not C.ob("C14/print-decidable", lab, len(rs) == 1 and rs[0][0] == OK and rs[0][1][0] in ("sstr", "str"), "Display undecidable", F.fn(DISPLAY_REL)["sp"]):
            continue
        toks = lex_text(rs[0][1], cells)
        lmod = lr.Mod(F, db.seq_dfa([k for k, t in toks]), lit_text=lit_text, vec_cap=8)
        lmod.tokens = toks
        LI = tokcursor.LoopProgressInterp(F, lmod, max_depth=16)
        res = LI.inline(F.fn(lr.ENTRY_KEY), [("abs", "text")], hirai.State(depth=0))
        outs = [c10.lossy_model(LI, s, v[2][0]) if ctl == OK and v[0] == "enum" and v[1] == OKV else "%s %s" % (ctl, str(v)[:80]) for ctl, v, s in res]
        C.ob("C14/lossy-reads-own-text", lab, outs == [M(r0)], "prints %r, which the lossy reader turns into %s (value was %s)" % (symstr.show(rs[0][1]), outs, M(r0)), F.fn(lr.ENTRY_KEY)["sp"])
    n_multi = check_entries_and_fields(F, C, ms, cells, lit_text, tier)
    C.note("counts", "%d lossy relation values, %d entries/fields" % (n, n_multi))
    C.floor("C14/entries", n_multi, 20, "generated lossy entries / fields")
    C.floor("C14/values", n, 100, "generated lossy relation values")
    C.assumptions += ["component strings are concrete representatives (names, versions with epoch/tilde, architectures, profiles)", "debversion::Version::to_string returns the text it was parsed from (canonical versions)"]
    return C.finish("Lossy relation values over all combinations of optional parts are printed, re-read by both readers and converted to the lossless form and back inside the interpreter; every step is compared with the generating model.")


def check_entries_and_fields(F, C, ms, cells, lit_text, tier):
    """Entry <-> Vec<lossy::Relation>; lossy Relations Display against both field readers"""
    step = 1 if tier == "thorough" else 5
    picks = ms[::step]
    n = 0
    for i in range(0, len(picks) - 2, 2):
        alts = [picks[i], picks[i + 1]] if i % 4 == 0 else [picks[i]]
        if i % 6 == 0:
            alts.append(picks[i + 2])
        n += 1
        label = " | ".join(db.text_of_tokens(relspec.rel_tokens(r, "canonical")) for r in alts)
        want_text = " | ".join(db.text_of_tokens(relspec.rel_tokens(r, "canonical", SYM)) for r in alts)
        tm = c10.AccMod(F, rp.KIND)
        I = hirai.Interp(F, tm, max_depth=18)
        I.max_recursion = 8
        s0 = hirai.State(depth=0)
        vec = ("abs", "svec", tuple(lossy_value(r) for r in alts))
        # expected text: the alternatives' own Display joined by " | "
        res = I.inline(F.fn(ENTRY_FROM_LOSSY), [vec], s0)
        sp = F.fn(ENTRY_FROM_LOSSY)["sp"]
        if not C.ob("C14/entry-convert-decidable", label, len(res) == 1 and res[0][0] == OK, "From<Vec<lossy::Relation>> for Entry has outcomes %s" % [(ctl, str(v)[:100]) for ctl, v, s in res], sp):
            continue
        s1 = res[0][2]
        ev = I.deref_val(s1, res[0][1])
        nid = tm.unwrap(I, s1, ev[2][0])[2] if ev[0] == "enum" and ev[2] else None
        h = treemodel.heap_get(s1)
        etext = symstr.show(symstr.mk(tm.text_of(h, nid))) if nid in h else None
        C.ob("C14/entry-text", label, etext == want_text, "the lossless entry prints %r, expected %r" % (etext, want_text), sp)
        back = I.inline(F.fn(ENTRY_TO_LOSSY), [ev], s1)
        outs = []
        for ctl, v, s in back:
            v = I.deref_val(s, v)
            if ctl == OK and v[0] == "abs" and v[1] in ("svec", "siter"):
                items = v[2] if v[1] == "svec" else v[2][v[3]:]
                outs.append([c10.lossy_model(I, s, x) for x in items])
            elif ctl == OK and v[0] == "abs":
                d = tm.drain(I, s, v, {})
                outs.append([c10.lossy_model(I, d[0][1], x) for x in d[0][0]] if len(d) == 1 and d[0][0] is not None else str(v)[:80])
            else:
                outs.append("%s %s" % (ctl, str(v)[:80]))
        C.ob("C14/entry-back", label, outs == [[M(r) for r in alts]], "Vec<lossy> -> Entry -> Vec<lossy> gives %s" % (outs,), F.fn(ENTRY_TO_LOSSY)["sp"])
    # lossy Relations Display: entries joined by ", ", alternatives by " | "; both field readers on the printed text
    for i in range(0, len(picks) - 3, 3):
        entries = [[picks[i]], [picks[i + 1], picks[i + 2]]] if i % 2 == 0 else [[picks[i], picks[i + 1]], [picks[i + 2]], [picks[i + 3]]]
        n += 1
        val = ("struct", LOSSY + "Relations", (("0", ("abs", "svec", tuple(("abs", "svec", tuple(lossy_value(r) for r in e)) for e in entries))),))
        tm = c10.AccMod(F, rp.KIND)
        I = hirai.Interp(F, tm, max_depth=18)
        rs = tm.render(I, hirai.State(depth=0), val, {})
        texts = [symstr.show(v) if ctl == OK and v[0] in ("sstr", "str") else None for ctl, v, s in rs]
        want = ", ".join(" | ".join(db.text_of_tokens(relspec.rel_tokens(r, "canonical", SYM)) for r in e) for e in entries)
        sp = F.fn(DISPLAY_RELS)["sp"]
        if not C.ob("C14/field-print", want, texts == [want], "lossy Relations prints %s" % (texts,), sp):
            continue
        toks = lex_text(rs[0][1], cells)
        try:
            ref_entries, _ = relspec.read_field(toks)
        except relspec.NotWellFormed as e:
            ref_entries = str(e)
        C.ob("C14/field-wellformed", want, ref_entries == [[M(r) for r in e] for e in entries], "the printed field reads (reference grammar) as %s" % (ref_entries,), sp)
        rels, errs, st, mod = db.parse_relations(F, toks)
        C.ob("C14/field-lossless-accepts", want, rels is not None and errs == ("abs", "strvec", 0), "the lossless reader rejects the printed field %r" % texts[0], F.fn(rp.PARSE_FN)["sp"])
    return n
