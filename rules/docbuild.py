"""build abstract rowan trees by interpreting the repository's own parsers on chosen token sequences
(token kinds concrete, texts symbolic), and provide the combined cursor + tree module."""
import hirai, tokcursor, treemodel, symstr, deb822_parse, relations_parse as rp
from hirai import OK, SOME, NONE, some, none, unk


def seq_dfa(kinds):
    T = {}
    for i, k in enumerate(kinds):
        T[i] = {k: (i + 1, i)}
    return tokcursor.Dfa(T, 0, [len(kinds)], "fixed token sequence")


class DocMod(tokcursor.CursorMod):
    mon_conserve = False
    keep_pending = True

    def __init__(self, facts, tokens, kind_enum, lex_fns, composite):
        tokcursor.CursorMod.__init__(self, facts, seq_dfa([k for k, t in tokens]), kind_enum, lex_fns, composite)
        self.tokens = tokens
        self.tree = treemodel.TreeMod(facts, kind_enum)

    def intrinsic(self, I, callee, args, st, n):
        r = tokcursor.CursorMod.intrinsic(self, I, callee, args, st, n)
        if r is None:
            return None
        out = []
        for ctl, v, s in r:
            out.append((ctl, self.retext(v, s), s))
        return out

    def retext(self, v, s):
        if isinstance(v, tuple) and v and v[0] == "enum" and v[1] == SOME and v[2] and isinstance(v[2][0], tuple) and v[2][0][0] == "tuple" and len(v[2][0][1]) == 2:
            kv, tv = v[2][0][1]
            if tv[0] == "abs" and tv[1] in ("toktext", "toktext-peek"):
                idx = None
                if tv[1] == "toktext":
                    idx = (s.mon.get("pending") or (None, None))[1]
                else:
                    for rec in s.store.values():
                        if isinstance(rec, tuple) and len(rec) > 4 and rec[0] == "abs" and rec[1] == "cursor" and rec[4]:
                            idx = rec[4][1]
                if isinstance(idx, int) and idx < len(self.tokens):
                    return ("enum", SOME, (("tuple", (kv, self.tokens[idx][1])),))
        return v

    def extra_intrinsic(self, I, c, args, st, n):
        if c == "alloc::vec::Vec::<T>::new" and n.get("ty") == "alloc::vec::Vec<alloc::string::String>":
            return [(OK, ("abs", "strvec", 0), st)]
        if args:
            v = I.deref_val(st, args[0])
            if v[0] == "abs" and v[1] == "strvec":
                if c == "alloc::vec::Vec::<T, A>::push":
                    return [(OK, hirai.UNIT, I.write(st, args[0][1], ("abs", "strvec", "many")) if args[0][0] == "ref" else st)]
                if c == "alloc::vec::Vec::<T, A>::is_empty":
                    return [(OK, ("bool", v[2] == 0), st)]
        if c == "alloc::fmt::format":
            return [(OK, ("abs", "string"), st)]
        return self.tree.intrinsic(I, c, args, st, n)

    def abs_equal(self, I, a, b):
        return self.tree.abs_equal(I, a, b)


def parse_deb822(F, tokens, st=None):
    """interpret Deb822::from_str_relaxed on the token sequence; returns (doc value, errors?, state, module)"""
    mod = DocMod(F, tokens, deb822_parse.KIND, {"deb822_lossless::lex::lex": "fwd"}, deb822_parse.COMPOSITE)
    I = hirai.Interp(F, mod, max_depth=16)
    I.max_recursion = 6
    res = I.inline(F.fn("deb822_lossless::lossless::Deb822::from_str_relaxed"), [("abs", "text")], st or hirai.State(depth=0))
    if len(res) != 1 or res[0][0] != OK:
        return None, None, None, mod
    v = res[0][1]
    doc, errs = v[1]
    s = res[0][2]
    # drop cursor leftovers
    return doc, errs, s, mod


def T(kind, text):
    return (kind, text)


def field_tokens(name, lines, idx, final_newline=True, ws=" "):
    """tokens of a field: KEY COLON WS VALUE NEWLINE (INDENT VALUE NEWLINE)*; lines = list of symbolic line names"""
    out = [("KEY", symstr.lit(name)), ("COLON", symstr.lit(":"))]
    if ws:
        out.append(("WHITESPACE", symstr.lit(ws)))
    for i, ln in enumerate(lines):
        if i > 0:
            out.append(("INDENT", symstr.lit(" ")))
        out.append(("VALUE", ln if isinstance(ln, tuple) else symstr.atom(ln, "line")))
        if i < len(lines) - 1 or final_newline:
            out.append(("NEWLINE", symstr.lit("\n")))
    return out


def comment(name):
    return [("COMMENT", symstr.mk([("lit", "#"), ("atom", name, "line")])), ("NEWLINE", symstr.lit("\n"))]


BLANK = [("NEWLINE", symstr.lit("\n"))]


def text_of_tokens(tokens):
    p = ()
    for k, t in tokens:
        p += symstr.pieces_of(t)
    return symstr.show(symstr.mk(p))


# ----------------------------------------------------------------------------- relationship fields
_REL_SUMMARY = {}


def parse_relations(F, tokens, allow_substvar=False, st=None):
    """interpret Relations::parse_relaxed on a token sequence; returns (Relations value, errors, state, module)"""
    if "S" not in _REL_SUMMARY:
        tab = rp.lexer_table(F)
        kinds = rp.lexer_kinds(tab)
        (S, n), probs = rp.validate_peek_past_ws(F, kinds)
        _REL_SUMMARY["S"] = S if not probs else None
    S = _REL_SUMMARY["S"]
    mod = DocMod(F, tokens, rp.KIND, {rp.LEX_FN: "vecfwd"}, rp.COMPOSITE)
    mod.summaries = {rp.PEEK_PAST_WS: ("peek_skipping", S or frozenset(), "tokens")}
    I = hirai.Interp(F, mod, max_depth=16)
    I.max_recursion = 8
    res = I.inline(F.fn("debian_control::lossless::relations::Relations::parse_relaxed"), [("abs", "text"), ("bool", allow_substvar)], st or hirai.State(depth=0))
    if len(res) != 1 or res[0][0] != OK:
        return None, None, None, mod
    v = res[0][1]
    rels, errs = v[1]
    return rels, errs, res[0][2], mod


REL_LIT = {"COLON": ":", "PIPE": "|", "COMMA": ",", "L_PARENS": "(", "R_PARENS": ")", "L_BRACKET": "[", "R_BRACKET": "]", "NOT": "!", "L_ANGLE": "<", "R_ANGLE": ">",
           "EQUAL": "=", "DOLLAR": "$", "L_CURLY": "{", "R_CURLY": "}", "NEWLINE": "\n"}


def rt(kind, text=None):
    if text is None:
        text = REL_LIT[kind]
    return (kind, symstr.lit(text) if isinstance(text, str) else text)


def ident(name, symbolic=False):
    return ("IDENT", symstr.atom(name, "word") if symbolic else symstr.lit(name))


def ws(text=" "):
    return ("WHITESPACE", symstr.lit(text))
