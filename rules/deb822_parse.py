"""analysis of the deb822 lossless parser (src/lossless.rs parse()) and its entry points with the
token-cursor interpreter; used by C01, C02, C03."""
import hirai, tokcursor, lexer
from hirai import OK, RET, PANIC, OKV, ERRV, some, none, unk, UNIT
from tokcursor import EOF

KIND = "deb822_lossless::lex::SyntaxKind"
TOKEN_KINDS = ["KEY", "VALUE", "COLON", "INDENT", "NEWLINE", "WHITESPACE", "COMMENT", "ERROR"]
COMPOSITE = ["ROOT", "PARAGRAPH", "ENTRY", "EMPTY_LINE"]


def wellformed_dfa():
    """token grammar of well-formed deb822 documents (conservative, see DESIGN section 3) with roles"""
    T = {}

    def t(q, k, nq, role):
        T.setdefault(q, {})[k] = (nq, role)
    # S0: no paragraph open, at start of a line
    t("S0", "NEWLINE", "S0", "blank")
    t("S0", "COMMENT", "S0c", "top-comment")
    t("S0", "KEY", "K1", "key-first")
    t("S0c", "NEWLINE", "S0", "top-comment-nl")
    # field
    t("K1", "COLON", "C1", "colon")
    t("C1", "WHITESPACE", "C2", "colon-ws")
    t("C1", "VALUE", "V", "value")
    t("C1", "NEWLINE", "L", "field-nl")
    t("C2", "VALUE", "V", "value")
    t("C2", "NEWLINE", "L", "field-nl")
    t("V", "NEWLINE", "L", "field-nl")
    # L: start of a line inside a paragraph, directly after a field line
    t("L", "INDENT", "I", "indent")
    t("L", "KEY", "K1", "key-next")
    t("L", "COMMENT", "PC", "para-comment")
    t("L", "NEWLINE", "S0", "blank-sep")
    t("I", "VALUE", "V", "value")
    t("I", "NEWLINE", "L", "blank-cont")        # a continuation line holding only blanks (kept inside the value, invisible to value())
    t("PC", "NEWLINE", "L2", "para-comment-nl")
    # L2: after a comment line inside a paragraph: no continuation line may follow
    t("L2", "KEY", "K1", "key-next")
    t("L2", "COMMENT", "PC", "para-comment")
    t("L2", "NEWLINE", "S0", "blank-sep")
    acc = ["S0", "S0c", "C1", "C2", "V", "L", "PC", "L2"]
    return tokcursor.Dfa(T, "S0", acc, "well-formed deb822 token grammar")


class Mod(tokcursor.BuilderMixin, tokcursor.CursorMod):
    def __init__(self, facts, oracle, structure=False):
        tokcursor.CursorMod.__init__(self, facts, oracle, KIND,
                                     {"deb822_lossless::lex::lex": "fwd", "deb822_lossless::lex::lex_inline": "fwd"}, COMPOSITE)
        self.structure = structure
        self.on_token = self._on_token
        self.on_start = self._on_start
        self.on_error = self._on_error

    def extra_intrinsic(self, I, c, args, st, n):
        r = self.builder_intrinsic(I, c, args, st, n)
        if r is not None:
            return r
        if c.endswith("SyntaxNode::<L>::new_root_mut") or c == "rowan::api::SyntaxNode::<L>::new_root_mut":
            return [(OK, ("abs", "syntax-mut", I.deref_val(st, args[0])), st)]
        if c.endswith("SyntaxNode::<L>::new_root") or c == "rowan::api::SyntaxNode::<L>::new_root":
            return [(OK, ("abs", "syntax-immutable", I.deref_val(st, args[0])), st)]
        if c.endswith("::cast") and c.startswith("deb822_lossless::lossless::"):
            v = I.deref_val(st, args[0])
            return [(OK, some(("abs", "astnode", c.split("::")[-2], v)), st)]
        if c == "alloc::fmt::format":
            return [(OK, ("abs", "string"), st)]
        return None

    def _on_start(self, mod, I, st, k, sp):
        if not self.structure:
            return st
        if k == "PARAGRAPH":
            st = st.setmon("para_keys", 0)
        if k == "ENTRY":
            st = st.setmon("entry_key", False)
        return st

    def _on_error(self, mod, I, st, sp):
        if self.structure:
            self.report("O-accept/error", "the parser reports a syntax error on a well-formed token sequence (error site in %s)" % (I.callstack[-1] if I.callstack else "?"),
                        "state: %s" % tokcursor.short_state(st), sp)
        return st

    def _on_token(self, mod, I, st, k, role, stack, sp):
        if not self.structure or role is None:
            return st
        want = ("ROOT", "PARAGRAPH", "ENTRY")
        if role in ("key-first", "key-next"):
            pk = st.mon.get("para_keys", 0)
            if tuple(stack) != want:
                self.report("O-structure/key", "field name of a well-formed field is added under %s, expected ROOT>PARAGRAPH>ENTRY (role %s)" % (list(stack), role), "", sp)
            elif st.mon.get("entry_key"):
                self.report("O-structure/key", "two field names in one ENTRY (role %s)" % role, "", sp)
            elif role == "key-first" and pk != 0:
                self.report("O-structure/paragraph", "first field after a blank line joins the previous PARAGRAPH", "", sp)
            elif role == "key-next" and pk == 0:
                self.report("O-structure/paragraph", "a following field of the same paragraph starts a new PARAGRAPH", "", sp)
            st = st.setmon("para_keys", 1).setmon("entry_key", True)
        elif role == "value":
            if tuple(stack) != want or not st.mon.get("entry_key"):
                self.report("O-structure/value", "value line of a well-formed field is added under %s (entry has key: %s), expected inside the field's ENTRY" % (list(stack), st.mon.get("entry_key")), "", sp)
        else:
            # non-content tokens must not be classified as content by the accessors: they are not KEY/VALUE kinds by construction
            pass
        return st


def run_entry(F, key, oracle, structure=False, args=None):
    """interpret an entry point (fn key) taking a text; returns (outcomes, mod, interp)"""
    f = F.fn(key)
    mod = Mod(F, oracle, structure)
    I = tokcursor.LoopProgressInterp(F, mod, max_depth=14)
    st = hirai.State(depth=0)
    outs = I.inline(f, args if args is not None else [("abs", "text")], st)
    return outs, mod, I


def lexer_kinds(F):
    tab = lexer.extract(F)
    kinds = sorted({c["kind"] for c in tab["cells"] if c.get("kind")})
    return tab, kinds
