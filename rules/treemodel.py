"""mutable rowan tree model for hirai: concrete shapes, symbolic token texts, rowan 0.16 semantics.

heap (state.mon['heap']): tuple of entries sorted by id
   node : (id, 'N', kind, children_ids_tuple, parent_id|None, mutable: bool)
   token: (id, 'T', kind, text_sstr, parent_id|None, mutable)
handles: ('abs','nref', id)  ('abs','tref', id)      element wrappers as in rowanmodel (NodeOrToken)
green  : ('abs','green', id)   (root id of a freshly built tree)
builders: ('abs','tbuilder', bid) with state.mon[('b', bid)] = tuple of open node ids
live child iterators (rowan 0.16: the next element is computed from the PREVIOUSLY yielded one at the next call):
   ('abs','liveiter', parent_id, what ('nodes'|'elems'), prev_id|None, started: bool)
lazy adapters: ('abs','lazy', base_iter_value, op, fn_value)
"""
import hirai, symstr, roundtrip, rowanmodel
from hirai import OK, PANIC, SOME, NONE, some, none, unk, UNIT
from rowanmodel import NOT_NODE, NOT_TOK


def heap_get(st):
    return dict((e[0], e) for e in st.mon.get("heap", ()))


def heap_put(st, h):
    return st.setmon("heap", tuple(h[k] for k in sorted(h)))


def new_id(h):
    return (max(h) + 1) if h else 1


class TreeMod(roundtrip.RTMod):
    def __init__(self, facts, kind_enum):
        super().__init__(facts)
        self.kind_enum = kind_enum
        self.invalidations = []
        self.immutable_mutations = []

    def display_into(self, I, st, fref, v, n, ty=None):
        x = self.unwrap(I, st, v)
        if x[0] == "abs" and x[1] in ("nref", "tref"):
            h = heap_get(st)
            if x[2] in h:
                return [(OK, ("enum", hirai.OKV, (UNIT,)), self.out_append(I, st, fref, self.text_of(h, x[2])))]
        return super().display_into(I, st, fref, v, n, ty)

    # ---- helpers
    def kval(self, k):
        return ("enum", self.kind_enum + "::" + k, ())

    def kname(self, I, st, v):
        v = I.deref_val(st, v)
        if v[0] == "enum" and v[1].startswith(self.kind_enum + "::"):
            return v[1].rsplit("::", 1)[-1]
        return None

    def handle(self, e):
        return ("abs", "nref" if e[1] == "N" else "tref", e[0])

    def wrap(self, e):
        return ("enum", NOT_NODE if e[1] == "N" else NOT_TOK, (self.handle(e),))

    def unwrap(self, I, st, v):
        v = I.deref_val(st, v)
        if v[0] == "enum" and v[1] in (NOT_NODE, NOT_TOK):
            return I.deref_val(st, v[2][0])
        return v

    def text_of(self, h, i):
        e = h[i]
        if e[1] == "T":
            return symstr.pieces_of(e[3]) or ()
        out = ()
        for c in e[3]:
            out += self.text_of(h, c)
        return out

    def root_of(self, h, i):
        while h[i][4] is not None:
            i = h[i][4]
        return i

    def detach(self, h, i):
        e = h[i]
        p = e[4]
        if p is not None:
            pe = h[p]
            if i in pe[3]:
                # rowan keeps the index cell of a detached node at its last value
                h[-i] = (-i, "S", pe[3].index(i), (), None, False)
            h[p] = (pe[0], pe[1], pe[2], tuple(c for c in pe[3] if c != i), pe[4], pe[5])
            h[i] = (e[0], e[1], e[2], e[3], None, e[5])

    def mark_mutable(self, h, i, flag):
        e = h[i]
        h[i] = (e[0], e[1], e[2], e[3], e[4], flag)
        if e[1] == "N":
            for c in e[3]:
                self.mark_mutable(h, c, flag)

    def next_sibling(self, h, i, nodes_only):
        p = h[i][4]
        if p is None:
            return None
        ch = h[p][3]
        try:
            k = ch.index(i)
        except ValueError:
            return None
        for c in ch[k + 1:]:
            if not nodes_only or h[c][1] == "N":
                return c
        return None

    # ---- green snapshots: a green value is ('abs','green', root_id) of a detached, never-mutated copy
    def copy_subtree(self, h, i, parent=None, mutable=True):
        e = h[i]
        nid = new_id(h)
        if e[1] == "T":
            h[nid] = (nid, "T", e[2], e[3], parent, mutable)
            return nid
        h[nid] = (nid, "N", e[2], (), parent, mutable)
        kids = tuple(self.copy_subtree(h, c, nid, mutable) for c in e[3])
        h[nid] = (nid, "N", e[2], kids, parent, mutable)
        return nid

    def green_elem_to_tree(self, I, st, h, x, parent, mutable):
        """x: ('abs','green',id) | ('abs','gtok',kind,text) (possibly wrapped in NodeOrToken) -> new id in h"""
        x = self.unwrap(I, st, x)
        if x[0] == "abs" and x[1] == "green":
            return self.copy_subtree(h, x[2], parent, mutable)
        if x[0] == "abs" and x[1] == "gtok":
            nid = new_id(h)
            h[nid] = (nid, "T", x[2], x[3], parent, mutable)
            return nid
        return None

    # ---- building trees directly (for specs)
    def build(self, st, spec, mutable=True):
        """spec: (kind, [children]) | ('tok', kind, text_sstr) ; returns (state, root id)"""
        h = heap_get(st)

        def go(s, parent):
            i = new_id(h)
            if s[0] == "tok":
                h[i] = (i, "T", s[1], s[2], parent, mutable)
                return i
            h[i] = (i, "N", s[0], (), parent, mutable)
            kids = tuple(go(c, i) for c in s[1])
            h[i] = (i, "N", s[0], kids, parent, mutable)
            return i
        r = go(spec, None)
        return heap_put(st, h), r

    # ---- iteration
    def live_next(self, I, st, it):
        """returns (element id | None, new iterator value)"""
        _, _, parent, what, prev, started = it
        h = heap_get(st)
        nodes_only = what == "nodes"
        if not started:
            ch = [c for c in h[parent][3] if not nodes_only or h[c][1] == "N"]
            nxt = ch[0] if ch else None
        elif prev is None:
            nxt = None
        else:
            nxt = self.next_sibling(h, prev, nodes_only)
            if h[prev][4] != parent:
                # the previously yielded child is no longer a child of this parent: rowan continues from it
                self.invalidations.append((parent, prev))
        return nxt, ("abs", "liveiter", parent, what, nxt, True)

    def iter_next(self, I, st, ref, n):
        """generic next() on live iterators, lazy adapters and plain siters; returns list of results"""
        if ref[0] != "ref":
            return None
        it = I.read(st, ref[1])
        res = self.pull(I, st, it, n)
        if res is None:
            return super().iter_next(I, st, ref, n)
        out = []
        for ctl, v, nit, s in res:
            s2 = I.write(s, ref[1], nit)
            out.append((ctl, v, s2))
        return out

    def pull(self, I, st, it, n):
        """returns list of (ctl, Option value, new iterator, state) or None if not one of ours"""
        if it[0] != "abs":
            return None
        if it[1] == "liveiter":
            nxt, nit = self.live_next(I, st, it)
            if nxt is None:
                return [(OK, none(), nit, st)]
            h = heap_get(st)
            e = h[nxt]
            v = self.handle(e) if it[3] == "nodes" else self.wrap(e)
            return [(OK, some(v), nit, st)]
        if it[1] == "siter":
            items, i = it[2], it[3]
            if i < len(items):
                return [(OK, some(items[i]), ("abs", "siter", items, i + 1), st)]
            return [(OK, none(), it, st)]
        if it[1] == "lazy":
            base, op, fn = it[2], it[3], it[4]
            out = []
            if op == "skip":
                # Iterator::skip is lazy: the first `next` advances past the skipped elements, later ones pass through
                if fn <= 0:
                    return [(ctl, v, ("abs", "lazy", nbase, "skip", 0), s) for ctl, v, nbase, s in self.pull(I, st, base, n) or []]
                for ctl, v, nbase, s in self.pull(I, st, base, n) or []:
                    if ctl != OK or not (v[0] == "enum" and v[1] == SOME):
                        out.append((ctl, v, ("abs", "lazy", nbase, "skip", 0), s))
                    else:
                        out.extend(self.pull(I, s, ("abs", "lazy", nbase, "skip", fn - 1), n))
                return out
            if op == "take":
                if fn <= 0:
                    return [(OK, none(), it, st)]
                return [(ctl, v, ("abs", "lazy", nbase, "take", fn - 1), s) for ctl, v, nbase, s in self.pull(I, st, base, n) or []]
            for ctl, v, nbase, s in self.pull(I, st, base, n) or []:
                nit = ("abs", "lazy", nbase, op, fn)
                if ctl != OK or not (v[0] == "enum" and v[1] == SOME):
                    out.append((ctl, v, nit, s))
                    continue
                x = v[2][0]
                arg = x
                s1 = s
                if op in ("filter", "skip_while"):
                    s1, p = I.newtemp(s, x)
                    arg = ("ref", p)
                if op == "enumerate":
                    cnt = fn
                    out.append((OK, some(("tuple", (hirai.mkint(cnt), x))), ("abs", "lazy", nbase, op, cnt + 1), s))
                    continue
                for c2, r, s2 in I.apply(fn, [arg], s1, n):
                    if c2 != OK:
                        out.append((c2, r, nit, s2))
                        continue
                    r = I.deref_val(s2, r)
                    if op == "map":
                        out.append((OK, some(r), nit, s2))
                    elif op == "filter_map":
                        if r[0] == "enum" and r[1] == SOME:
                            out.append((OK, r, nit, s2))
                        elif r[0] == "enum" and r[1] == NONE:
                            out.extend(self.pull(I, s2, nit, n))
                        else:
                            out.append((OK, unk("filter_map"), nit, s2))
                    elif op == "filter":
                        if r == ("bool", True):
                            out.append((OK, some(x), nit, s2))
                        elif r == ("bool", False):
                            out.extend(self.pull(I, s2, nit, n))
                        else:
                            out.append((OK, unk("filter"), nit, s2))
                    elif op == "skip_while":
                        if r == ("bool", True):
                            out.extend(self.pull(I, s2, nit, n))
                        elif r == ("bool", False):
                            out.append((OK, some(x), ("abs", "lazy", nbase, "map", ("fnref", "__identity__")), s2))
                        else:
                            out.append((OK, unk("skip_while"), nit, s2))
            return out
        return None

    def drain(self, I, st, it, n, limit=64):
        """pull everything: list of (items, state)"""
        results = []

        def go(it, acc, s, k):
            if k > limit:
                results.append((None, s))
                return
            r = self.pull(I, s, it, n)
            if r is None:
                results.append((None, s))
                return
            for ctl, v, nit, s2 in r:
                if ctl != OK:
                    results.append((None, s2))
                elif v[0] == "enum" and v[1] == NONE:
                    results.append((acc, s2))
                elif v[0] == "enum" and v[1] == SOME:
                    go(nit, acc + [v[2][0]], s2, k + 1)
                else:
                    results.append((None, s2))
        go(it, [], st, 0)
        return results

    # ---- lazily returned iterators whose closures capture locals of the returning frame are forced at return
    def captures_frame(self, I, v, depth):
        if not isinstance(v, tuple) or not v:
            return False
        if v[0] == "abs" and v[1] == "lazy":
            fn = v[4]
            if isinstance(fn, tuple) and fn and fn[0] == "closure" and fn[2] == depth:
                import lexer
                node = I.closures.get(fn[1])
                if node is not None and lexer.capture_vars(node):
                    return True
            return self.captures_frame(I, v[2], depth)
        if v[0] == "enum":
            return any(self.captures_frame(I, x, depth) for x in v[2])
        return False

    def force(self, I, st, v, n):
        """replace lazy iterators inside v by drained sequences: list of (v', state)"""
        if v[0] == "abs" and v[1] == "lazy":
            out = []
            for items, s in self.drain(I, st, v, n):
                out.append((("abs", "siter", tuple(items), 0) if items is not None else unk("force"), s))
            return out
        if v[0] == "enum" and len(v[2]) == 1:
            return [(("enum", v[1], (x,)), s) for x, s in self.force(I, st, v[2][0], n)]
        return [(v, st)]

    def on_return(self, I, f, v, st):
        if isinstance(v, tuple) and self.captures_frame(I, v, st.depth):
            return self.force(I, st, v, {})
        return [(v, st)]

    # ---- intrinsics
    def intrinsic(self, I, callee, args, st, n):
        c = callee
        sp = n.get("sp", "") if isinstance(n, dict) else ""
        raw0 = I.deref_val(st, args[0]) if args else None
        a0 = self.unwrap(I, st, args[0]) if args else None
        isn = a0 is not None and a0[0] == "abs" and a0[1] == "nref"
        ist = a0 is not None and a0[0] == "abs" and a0[1] == "tref"
        m = c.rsplit("::", 1)[-1]
        if c == "__identity__":
            return [(OK, args[0], st)]
        # ---------------- builders
        if c == "rowan::green::builder::GreenNodeBuilder::<'_>::new":
            bid = st.mon.get("nbuilders", 0) + 1
            return [(OK, ("abs", "tbuilder", bid), st.setmon("nbuilders", bid).setmon(("b", bid), ()))]
        if raw0 is not None and raw0[0] == "abs" and raw0[1] == "tbuilder":
            bid = raw0[2]
            stack = st.mon.get(("b", bid), ())
            h = heap_get(st)
            if m == "start_node":
                k = self.kname(I, st, args[1]) or "?"
                i = new_id(h)
                parent = stack[-1] if stack else None
                h[i] = (i, "N", k, (), parent, True)
                if parent is not None:
                    pe = h[parent]
                    h[parent] = (pe[0], pe[1], pe[2], pe[3] + (i,), pe[4], pe[5])
                else:
                    st = st.setmon(("broot", bid), i)
                return [(OK, UNIT, heap_put(st, h).setmon(("b", bid), stack + (i,)))]
            if m == "finish_node":
                if not stack:
                    return [(PANIC, ("finish_node without open node", sp), st)]
                return [(OK, UNIT, st.setmon(("b", bid), stack[:-1]))]
            if m == "token":
                k = self.kname(I, st, args[1]) or "?"
                text = roundtrip.normalize(I.deref_val(st, args[2]))
                if not stack:
                    return [(PANIC, ("token without open node", sp), st)]
                i = new_id(h)
                h[i] = (i, "T", k, text, stack[-1], True)
                pe = h[stack[-1]]
                h[stack[-1]] = (pe[0], pe[1], pe[2], pe[3] + (i,), pe[4], pe[5])
                return [(OK, UNIT, heap_put(st, h))]
            if m == "finish":
                root = st.mon.get(("broot", bid))
                if stack or root is None:
                    return [(PANIC, ("builder.finish() with open nodes / no root", sp), st)]
                s2 = st.copy()
                s2.mon.pop(("b", bid), None)
                s2.mon.pop(("broot", bid), None)
                return [(OK, ("abs", "green", root), s2)]
        if c == "rowan::green::token::GreenToken::new":
            k = self.kname(I, st, args[0]) or "?"
            return [(OK, ("abs", "gtok", k, roundtrip.normalize(I.deref_val(st, args[1]))), st)]
        if raw0 is not None and raw0[0] == "abs" and raw0[1] in ("green", "gtok") and c in ("<T as core::convert::Into<U>>::into", "core::convert::Into::into"):
            return [(OK, ("enum", NOT_NODE if raw0[1] == "green" else NOT_TOK, (raw0,)), st)]
        if raw0 is not None and raw0[0] == "abs" and raw0[1] == "green":
            if c in ("rowan::api::SyntaxNode::<L>::new_root_mut", "rowan::api::SyntaxNode::<L>::new_root"):
                h = heap_get(st)
                # a green tree is immutable and may be shared: every root made from it is an independent copy
                nid = self.copy_subtree(h, raw0[2], None, c.endswith("new_root_mut"))
                return [(OK, ("abs", "nref", nid), heap_put(st, h))]
            if c.endswith("as core::clone::Clone>::clone") or c.endswith("Deref>::deref") or c.endswith("::to_owned") or c.endswith("::into_owned"):
                return [(OK, raw0, st)]
            if c == "rowan::green::node::GreenNodeData::splice_children":
                h = heap_get(st)
                rng = I.deref_val(st, args[1])
                new = I.deref_val(st, args[2])
                d = dict(rng[2]) if rng[0] == "struct" else {}
                lo, hi = d.get("start"), d.get("end")
                items = list(new[2]) if new[0] == "abs" and new[1] == "svec" else (list(new[1]) if new[0] == "tuple" else None)
                if items is None or not (lo and hi and isinstance(lo[1], int) and isinstance(hi[1], int)):
                    return [(OK, unk("green-splice"), st)]
                nid = self.copy_subtree(h, raw0[2], None, True)
                ch = list(h[nid][3])
                if hi[1] > len(ch) or lo[1] > hi[1]:
                    return [(PANIC, ("GreenNodeData::splice_children range %d..%d out of bounds (%d children)" % (lo[1], hi[1], len(ch)), sp), st)]
                newids = []
                for it in items:
                    x = self.green_elem_to_tree(I, st, h, it, nid, True)
                    if x is None:
                        return [(OK, unk("green-splice-elem"), st)]
                    newids.append(x)
                ch[lo[1]:hi[1]] = newids
                e2 = h[nid]
                h[nid] = (e2[0], e2[1], e2[2], tuple(ch), None, True)
                return [(OK, ("abs", "green", nid), heap_put(st, h))]
        if c in ("core::mem::take", "core::mem::replace") and args and args[0][0] == "ref":
            cur = I.read(st, args[0][1])
            if c.endswith("take"):
                dflt = ("bool", False) if cur[0] == "bool" else (symstr.lit("") if cur[0] in ("sstr", "str") else (("abs", "svec", ()) if cur[0] == "abs" and cur[1] == "svec" else None))
                if dflt is not None:
                    return [(OK, cur, I.write(st, args[0][1], dflt))]
            else:
                return [(OK, cur, I.write(st, args[0][1], args[1]))]
        if raw0 is not None and raw0[0] == "abs" and raw0[1] == "svec" and c == "alloc::slice::<impl [T]>::concat":
            ps = [symstr.pieces_of(I.deref_val(st, x)) for x in raw0[2]]
            if all(p is not None for p in ps):
                out = ()
                for p in ps:
                    out += tuple(p)
                return [(OK, symstr.mk(out), st)]
        # ---------------- nodes
        if isn or ist:
            h = heap_get(st)
            e = h.get(a0[2])
            if e is None:
                return [(OK, unk("dangling"), st)]
            if c in ("<T as alloc::string::ToString>::to_string", "alloc::string::ToString::to_string"):
                return [(OK, symstr.mk(self.text_of(h, e[0])), st)]
            if c.endswith("as core::clone::Clone>::clone"):
                return [(OK, I.deref_val(st, args[0]), st)]
            if m == "kind" and ("rowan::api" in c):
                return [(OK, self.kval(e[2]), st)]
            if m == "text" and isn:
                return [(OK, symstr.mk(self.text_of(h, e[0])), st)]
            if m == "text" and ist:
                return [(OK, e[3], st)]
            if m == "to_string" or c.endswith("as core::fmt::Display>::fmt") and False:
                return [(OK, symstr.mk(self.text_of(h, e[0])), st)]
            if m == "index" and "rowan::api" in c:
                p = e[4]
                if p is None:
                    stale = h.get(-e[0])
                    return [(OK, hirai.mkint(stale[2] if stale else 0), st)]
                return [(OK, hirai.mkint(h[p][3].index(e[0])), st)]
            if m == "parent" and "rowan::api" in c:
                return [(OK, some(("abs", "nref", e[4])) if e[4] is not None else none(), st)]
            if isn and m == "children" and "rowan::api::SyntaxNode" in c:
                return [(OK, ("abs", "liveiter", e[0], "nodes", None, False), st)]
            if isn and m == "children_with_tokens":
                return [(OK, ("abs", "liveiter", e[0], "elems", None, False), st)]
            if isn and m in ("first_token", "last_token"):
                def ft(i, first):
                    x = h[i]
                    if x[1] == "T":
                        return i
                    seq = x[3] if first else tuple(reversed(x[3]))
                    for cc in seq:
                        r = ft(cc, first)
                        if r is not None:
                            return r
                    return None
                r = ft(e[0], m == "first_token")
                return [(OK, some(("abs", "tref", r)) if r is not None else none(), st)]
            if isn and m == "green" and "rowan::api::SyntaxNode" in c:
                nid = self.copy_subtree(h, e[0], None, True)
                return [(OK, ("abs", "green", nid), heap_put(st, h))]
            if isn and m == "replace_with":
                g = I.deref_val(st, args[1])
                if not (g[0] == "abs" and g[1] == "green"):
                    return [(OK, unk("replace_with"), st)]
                if h[g[2]][2] != e[2]:
                    return [(PANIC, ("replace_with: kind mismatch %s vs %s" % (e[2], h[g[2]][2]), sp), st)]
                # rowan: returns the green node of the ROOT of self's tree with self replaced
                cur, repl = e[0], g[2]
                while h[cur][4] is not None:
                    p = h[cur][4]
                    pcopy = self.copy_subtree(h, p, None, True)
                    idx = h[p][3].index(cur)
                    ch = list(h[pcopy][3])
                    rcopy = self.copy_subtree(h, repl, pcopy, True)
                    ch[idx] = rcopy
                    pe = h[pcopy]
                    h[pcopy] = (pe[0], pe[1], pe[2], tuple(ch), None, True)
                    cur, repl = p, pcopy
                return [(OK, ("abs", "green", repl), heap_put(st, h))]
            if m in ("next_sibling_or_token", "prev_sibling_or_token", "next_sibling", "prev_sibling") and "rowan::api" in c:
                p = e[4]
                if p is None:
                    return [(OK, none(), st)]
                ch = h[p][3]
                k = ch.index(e[0])
                seq = ch[k + 1:] if m.startswith("next") else tuple(reversed(ch[:k]))
                for x in seq:
                    if m.endswith("or_token") or h[x][1] == "N":
                        return [(OK, some(self.wrap(h[x]) if m.endswith("or_token") else self.handle(h[x])), st)]
                return [(OK, none(), st)]
            if isn and m in ("first_child_or_token", "last_child_or_token"):
                if not e[3]:
                    return [(OK, none(), st)]
                return [(OK, some(self.wrap(h[e[3][0 if m.startswith("first") else -1]])), st)]
            if isn and m == "siblings":
                d = I.deref_val(st, args[1])
                p = e[4]
                if p is None:
                    return [(OK, ("abs", "siter", (self.handle(e),), 0), st)]
                ch = [x for x in h[p][3] if h[x][1] == "N"]
                k = ch.index(e[0])
                seq = ch[k:] if (d[0] == "enum" and d[1].endswith("Next")) else list(reversed(ch[:k + 1]))
                return [(OK, ("abs", "siter", tuple(self.handle(h[x]) for x in seq), 0), st)]
            if isn and m in ("first_child", "last_child"):
                ns = [x for x in e[3] if h[x][1] == "N"]
                return [(OK, some(("abs", "nref", ns[0 if m == "first_child" else -1])) if ns else none(), st)]
            if m == "detach" and "rowan::api" in c:
                if not e[5]:
                    self.immutable_mutations.append(("detach", sp))
                    return [(PANIC, ("detach on an immutable tree", sp), st)]
                self.detach(h, e[0])
                return [(OK, UNIT, heap_put(st, h))]
            if isn and m == "splice_children":
                rng = I.deref_val(st, args[1])
                new = I.deref_val(st, args[2])
                if not e[5]:
                    self.immutable_mutations.append(("splice_children", sp))
                    return [(PANIC, ("splice_children on an immutable tree", sp), st)]
                lo = hi = None
                if rng[0] == "struct" and rng[1].endswith("Range"):
                    d = dict(rng[2])
                    lo, hi = d.get("start"), d.get("end")
                if not (lo and hi and lo[0] == "int" and hi[0] == "int" and isinstance(lo[1], int) and isinstance(hi[1], int)):
                    return [(OK, unk("splice-range"), st)]
                lo, hi = lo[1], hi[1]
                items = None
                if new[0] == "abs" and new[1] in ("svec",):
                    items = list(new[2])
                elif new[0] == "tuple":
                    items = list(new[1])
                elif new[0] == "abs" and new[1] == "siter":
                    items = list(new[2][new[3]:])
                if items is None:
                    return [(OK, unk("splice-items"), st)]
                ch = list(e[3])
                # rowan detaches the children whose position lies in the range (a range reaching past the end is harmless),
                # then attaches the new elements starting at range.start (which must be a valid position)
                hi = min(hi, len(ch))
                if lo > len(ch):
                    return [(PANIC, ("splice_children insert position %d beyond %d children" % (lo, len(ch)), sp), st)]
                if lo > hi:
                    hi = lo
                removed = ch[lo:hi]
                ids = []
                for it in items:
                    x = self.unwrap(I, st, it)
                    if not (x[0] == "abs" and x[1] in ("nref", "tref")):
                        return [(OK, unk("splice-elem"), st)]
                    xe = h[x[2]]
                    if not xe[5]:
                        self.immutable_mutations.append(("splice_children inserts an element of an immutable tree", sp))
                        return [(PANIC, ("inserting an element of an immutable tree", sp), st)]
                    ids.append(x[2])
                for r in removed:
                    re_ = h[r]
                    h[r] = (re_[0], re_[1], re_[2], re_[3], None, re_[5])
                    h[-r] = (-r, "S", lo, (), None, False)       # each is detached in turn: its index cell ends at `lo`
                ch[lo:hi] = []
                h[e[0]] = (e[0], e[1], e[2], tuple(ch), e[4], e[5])
                for k, i in enumerate(ids):
                    self.detach(h, i)
                    pe = h[e[0]]
                    cur = list(pe[3])
                    cur.insert(lo + k, i)
                    h[e[0]] = (pe[0], pe[1], pe[2], tuple(cur), pe[4], pe[5])
                    xe = h[i]
                    h[i] = (xe[0], xe[1], xe[2], xe[3], e[0], xe[5])
                return [(OK, UNIT, heap_put(st, h))]
        # ---------------- element wrappers
        if raw0 is not None and raw0[0] == "enum" and raw0[1] in (NOT_NODE, NOT_TOK) and c.startswith("rowan::utility_types::NodeOrToken::<"):
            if m in ("into_token", "as_token"):
                return [(OK, some(raw0[2][0]) if raw0[1] == NOT_TOK else none(), st)]
            if m in ("into_node", "as_node"):
                return [(OK, some(raw0[2][0]) if raw0[1] == NOT_NODE else none(), st)]
        if raw0 is not None and raw0[0] == "abs" and raw0[1] in ("nref", "tref") and c in ("<T as core::convert::Into<U>>::into", "core::convert::Into::into") and "NodeOrToken" in (n.get("ty", "") if isinstance(n, dict) else ""):
            return [(OK, ("enum", NOT_NODE if raw0[1] == "nref" else NOT_TOK, (raw0,)), st)]
        if raw0 is not None and raw0[0] == "abs" and raw0[1] in ("nref", "tref") and c.startswith("rowan::api::<impl core::convert::From<rowan::api::Syntax") and "for rowan::utility_types::NodeOrToken<" in c and c.endswith(">::from"):
            return [(OK, ("enum", NOT_NODE if raw0[1] == "nref" else NOT_TOK, (raw0,)), st)]      # SyntaxElement::from(node | token)
        # ---------------- iterators
        if raw0 is not None and raw0[0] == "abs" and raw0[1] in ("liveiter", "lazy"):
            if m == "next" and "Iterator" in c:
                r = self.iter_next(I, st, args[0], n)
                if r is not None:
                    return r
            if "Iterator" in c and m in ("filter_map", "map", "filter", "skip_while"):
                return [(OK, ("abs", "lazy", raw0, m, args[1]), st)]
            if "Iterator" in c and m == "enumerate":
                return [(OK, ("abs", "lazy", raw0, "enumerate", 0), st)]
            if "Iterator" in c and m in ("skip", "take"):
                k = I.deref_val(st, args[1])
                if k[0] == "int" and isinstance(k[1], int):
                    return [(OK, ("abs", "lazy", raw0, m, k[1]), st)]
            if m in ("into_iter", "by_ref"):
                return [(OK, args[0] if m == "by_ref" else raw0, st)]
            if "Iterator" in c and m in ("count", "collect", "find", "any", "all", "last", "nth", "find_map", "position", "next"):
                out = []
                for items, s in self.drain(I, st, raw0, n):
                    if items is None:
                        out.append((OK, unk("drain"), s))
                        continue
                    if m == "collect" and isinstance(n, dict) and n.get("ty") == "alloc::string::String":
                        out.extend(super().intrinsic(I, c, [("abs", "siter", tuple(items), 0)] + list(args[1:]), s, n) or [(OK, unk("collect-string"), s)])
                        continue
                    if m == "count":
                        out.append((OK, hirai.mkint(len(items)), s))
                    elif m == "collect":
                        out.append((OK, ("abs", "svec", tuple(items)), s))
                    elif m == "last":
                        out.append((OK, some(items[-1]) if items else none(), s))
                    elif m == "next":
                        out.append((OK, some(items[0]) if items else none(), s))
                    else:
                        sub = rowanmodel.RowanMod.adapter(self, I, s, m, items, args, n)
                        out.extend(sub)
                return out
        if raw0 is not None and raw0[0] == "abs" and raw0[1] in ("siter", "liveiter", "lazy") and c in ("core::iter::traits::iterator::Iterator::cmp", "core::iter::traits::iterator::Iterator::partial_cmp", "core::iter::traits::iterator::Iterator::eq"):
            # lexicographic comparison of two sequences by the element type's own Ord / PartialEq
            ORD_ = "core::cmp::Ordering::"
            other = I.deref_val(st, args[1])
            outs = []
            for xs, s1 in ([(list(raw0[2][raw0[3]:]), st)] if raw0[1] == "siter" else self.drain(I, st, raw0, n)):
                for ys, s2 in ([(list(other[2][other[3]:]), s1)] if other[0] == "abs" and other[1] == "siter" else ([(list(other[2]), s1)] if other[0] == "abs" and other[1] == "svec" else self.drain(I, s1, other, n))):
                    if xs is None or ys is None:
                        outs.append((OK, unk("iter-cmp"), s2))
                        continue

                    def go(i, s):
                        if i == len(xs) or i == len(ys):
                            o = "Equal" if len(xs) == len(ys) else ("Less" if len(xs) < len(ys) else "Greater")
                            return [(OK, o, s)]
                        ty = self.type_of_value(I.deref_val(s, xs[i]))
                        key = "<%s as core::cmp::Ord>::cmp" % ty
                        if key not in self.facts.fns:
                            return [(OK, None, s)]
                        sa, pa = I.newtemp(s, xs[i])
                        sb, pb = I.newtemp(sa, ys[i])
                        res = []
                        for ctl, r, s3 in I.call(key, [("ref", pa), ("ref", pb)], sb, n):
                            r = I.deref_val(s3, r) if ctl == OK else r
                            if ctl != OK:
                                res.append((ctl, r, s3))
                            elif r[0] == "enum" and r[1] == ORD_ + "Equal":
                                res.extend(go(i + 1, s3))
                            elif r[0] == "enum" and r[1].startswith(ORD_):
                                res.append((OK, r[1][len(ORD_):], s3))
                            else:
                                res.append((OK, None, s3))
                        return res
                    for ctl, o, s3 in go(0, s2):
                        if ctl != OK:
                            outs.append((ctl, o, s3))
                        elif o is None:
                            outs.append((OK, unk("iter-cmp"), s3))
                        elif m == "eq":
                            outs.append((OK, ("bool", o == "Equal"), s3))
                        elif m == "partial_cmp":
                            outs.append((OK, some(("enum", ORD_ + o, ())), s3))
                        else:
                            outs.append((OK, ("enum", ORD_ + o, ()), s3))
            return outs
        if raw0 is not None and raw0[0] == "abs" and raw0[1] in ("siter", "liveiter", "lazy", "svec") and "Iterator" in c and m in ("skip", "chain", "rev", "take", "flatten"):
            outs = []
            srcs = [(list(raw0[2][raw0[3]:]), st)] if raw0[1] == "siter" else ([(list(raw0[2]), st)] if raw0[1] == "svec" else self.drain(I, st, raw0, n))
            for items, s in srcs:
                if items is None:
                    outs.append((OK, unk(m), s))
                    continue
                if m == "skip" or m == "take":
                    k = I.deref_val(s, args[1])
                    if not (k[0] == "int" and isinstance(k[1], int)):
                        outs.append((OK, unk(m), s))
                        continue
                    outs.append((OK, ("abs", "siter", tuple(items[k[1]:] if m == "skip" else items[:k[1]]), 0), s))
                elif m == "rev":
                    outs.append((OK, ("abs", "siter", tuple(reversed(items)), 0), s))
                elif m == "flatten":
                    flat, ok_ = [], True
                    for it in items:
                        it = I.deref_val(s, it)
                        if it[0] == "abs" and it[1] == "svec":
                            flat += list(it[2])
                        elif it[0] == "abs" and it[1] == "siter":
                            flat += list(it[2][it[3]:])
                        elif it[0] == "enum" and it[1] == SOME:
                            flat.append(it[2][0])
                        elif it[0] == "enum" and it[1] == NONE:
                            pass
                        else:
                            ok_ = False
                    outs.append((OK, ("abs", "siter", tuple(flat), 0) if ok_ else unk("flatten"), s))
                else:
                    other = I.deref_val(s, args[1])
                    if other[0] == "abs" and other[1] == "siter":
                        outs.append((OK, ("abs", "siter", tuple(items) + tuple(other[2][other[3]:]), 0), s))
                    elif other[0] == "abs" and other[1] == "svec":
                        outs.append((OK, ("abs", "siter", tuple(items) + tuple(other[2]), 0), s))
                    elif other[0] == "enum" and other[1] in (SOME, NONE):       # Option as IntoIterator
                        outs.append((OK, ("abs", "siter", tuple(items) + (tuple(other[2][:1]) if other[1] == SOME else ()), 0), s))
                    elif other[0] == "tuple" and isinstance(n, dict) and "; " in str((n.get("args") or [{}])[0].get("ty", "")):
                        outs.append((OK, ("abs", "siter", tuple(items) + tuple(other[1]), 0), s))      # an array
                    elif other[0] == "abs" and other[1] in ("lazy", "liveiter"):
                        for more, s2 in self.drain(I, s, other, n):
                            outs.append((OK, ("abs", "siter", tuple(items) + tuple(more), 0) if more is not None else unk("chain"), s2))
                    else:
                        outs.append((OK, unk("chain"), s))
            return outs
        if raw0 is not None and raw0[0] == "abs" and raw0[1] == "siter" and "Iterator" in c and m in ("filter_map", "filter", "find", "find_map", "any", "all", "position", "skip_while", "take_while", "count", "last", "nth", "enumerate"):
            return rowanmodel.RowanMod.adapter(self, I, st, m, list(raw0[2][raw0[3]:]), args, n)
        return super().intrinsic(I, c, args, st, n)
