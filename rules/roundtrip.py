"""symbolic print/parse round trips on top of hirai + symstr (static: abstract interpretation only)"""
import re
import hirai, symstr
from hirai import OK, RET, PANIC, SOME, NONE, OKV, ERRV, some, none, unk


class RTMod(symstr.SymStr):
    vec_cap = 64

    def __init__(self, facts):
        super().__init__(facts)
        self.tostring_impls = {}
        for k, f in facts.fns.items():
            if f.get("trait") == "alloc::string::ToString" and f.get("name") == "to_string":
                self.tostring_impls[f["self_ty"].lstrip("&")] = k

    def intrinsic(self, I, callee, args, st, n):
        # HashMap modelled as insertion-ordered vector of pairs
        if callee.startswith("std::collections::hash::map::HashMap::<K, V>::new") or callee.startswith("std::collections::hash::set::HashSet::<T>::new") or callee == "alloc::vec::Vec::<T>::new":
            return [(OK, ("abs", "svec", ()), st)]
        if callee.startswith("std::collections::hash::map::HashMap::<K, V, S, A>::insert") or callee.startswith("std::collections::hash::map::HashMap::<K, V, S>::insert"):
            tgt = args[0]
            if tgt[0] == "ref":
                cur = I.read(st, tgt[1])
                if cur[0] == "abs" and cur[1] == "svec":
                    return [(OK, none(), I.write(st, tgt[1], ("abs", "svec", cur[2] + (("tuple", (args[1], args[2])),))))]
            return [(OK, unk("insert"), st)]
        if callee == "alloc::vec::Vec::<T, A>::push":
            tgt = args[0]
            if tgt[0] == "ref":
                cur = I.read(st, tgt[1])
                if cur[0] == "abs" and cur[1] == "svec":
                    if len(cur[2]) >= self.vec_cap:
                        return [(OK, hirai.UNIT, st)]      # saturate: longer vectors are represented by their first elements
                    return [(OK, hirai.UNIT, I.write(st, tgt[1], ("abs", "svec", cur[2] + (args[1],))))]
            return [(OK, hirai.UNIT, st)]
        a0 = I.deref_val(st, args[0]) if args else None
        if a0 is not None and a0[0] == "abs" and a0[1] == "svec" and args[0][0] == "ref":
            m_ = callee.rsplit("::", 1)[-1]
            place = args[0][1]
            vv = I.read(st, place)
            while vv[0] == "ref":
                place = vv[1]
                vv = I.read(st, place)
            items = list(a0[2])
            if callee == "core::slice::<impl [T]>::swap":
                i, j = I.deref_val(st, args[1]), I.deref_val(st, args[2])
                if i[0] == "int" and j[0] == "int" and isinstance(i[1], int) and isinstance(j[1], int):
                    if max(i[1], j[1]) >= len(items):
                        return [(hirai.PANIC, ("swap out of bounds", n.get("sp") if isinstance(n, dict) else ""), st)]
                    items[i[1]], items[j[1]] = items[j[1]], items[i[1]]
                    return [(OK, hirai.UNIT, I.write(st, place, ("abs", "svec", tuple(items))))]
            if callee == "core::slice::<impl [T]>::reverse":
                return [(OK, hirai.UNIT, I.write(st, place, ("abs", "svec", tuple(reversed(items)))))]
            if callee == "alloc::vec::Vec::<T, A>::pop":
                if not items:
                    return [(OK, none(), st)]
                return [(OK, hirai.some(items[-1]), I.write(st, place, ("abs", "svec", tuple(items[:-1]))))]
            if callee == "alloc::vec::Vec::<T, A>::insert":
                i = I.deref_val(st, args[1])
                if i[0] == "int" and isinstance(i[1], int) and i[1] <= len(items):
                    items.insert(i[1], args[2])
                    return [(OK, hirai.UNIT, I.write(st, place, ("abs", "svec", tuple(items))))]
            if callee == "alloc::vec::Vec::<T, A>::remove":
                i = I.deref_val(st, args[1])
                if i[0] == "int" and isinstance(i[1], int):
                    if i[1] >= len(items):
                        return [(hirai.PANIC, ("Vec::remove out of bounds", n.get("sp") if isinstance(n, dict) else ""), st)]
                    x = items.pop(i[1])
                    return [(OK, x, I.write(st, place, ("abs", "svec", tuple(items))))]
            if callee in ("alloc::slice::<impl [T]>::sort_by", "core::slice::<impl [T]>::sort_by"):
                # stable insertion sort driven by the comparator closure
                LESS = "core::cmp::Ordering::Less"

                def ins(sorted_items, rest, s):
                    if not rest:
                        return [(OK, hirai.UNIT, I.write(s, place, ("abs", "svec", tuple(sorted_items))))]
                    x = rest[0]

                    def place_at(pos, s2):
                        # find first position (from the right) where x is not less than the element before it
                        if pos == 0:
                            return ins([x] + sorted_items, rest[1:], s2)
                        s3, pa = I.newtemp(s2, x)
                        s3, pb = I.newtemp(s3, sorted_items[pos - 1])
                        out = []
                        for ctl, r, s4 in I.apply(args[1], [("ref", pa), ("ref", pb)], s3, n):
                            r = I.deref_val(s4, r)
                            if ctl != OK or r[0] != "enum":
                                out.append((OK, hirai.unk("sort"), s4))
                            elif r[1] == LESS:
                                out.extend(place_at(pos - 1, s4))
                            else:
                                out.extend(ins(sorted_items[:pos] + [x] + sorted_items[pos:], rest[1:], s4))
                        return out
                    return place_at(len(sorted_items), s)
                return ins([], items, st)
            if callee in ("<alloc::vec::Vec<T, A> as core::iter::traits::collect::Extend<T>>::extend", "core::iter::traits::collect::Extend::extend"):
                src = I.deref_val(st, args[1])
                if src[0] == "abs" and src[1] in ("siter", "svec"):
                    more = list(src[2][src[3]:]) if src[1] == "siter" else list(src[2])
                    return [(OK, hirai.UNIT, I.write(st, place, ("abs", "svec", tuple(items + more))))]
                if hasattr(self, "drain") and src[0] == "abs":
                    out = []
                    for more, s2 in self.drain(I, st, src, n):
                        if more is None:
                            out.append((OK, hirai.unk("extend"), s2))
                        else:
                            out.append((OK, hirai.UNIT, I.write(s2, place, ("abs", "svec", tuple(items + more)))))
                    return out
            if callee in ("core::slice::<impl [T]>::first", "core::slice::<impl [T]>::last"):
                if not items:
                    return [(OK, none(), st)]
                return [(OK, hirai.some(items[0 if callee.endswith("first") else -1]), st)]
            if callee.endswith("Deref>::deref") or callee.endswith("DerefMut>::deref_mut"):
                return [(OK, args[0], st)]
        if a0 is not None and a0[0] == "abs" and a0[1] == "svec":
            if callee.endswith("IntoIterator>::into_iter") or callee == "core::iter::traits::collect::IntoIterator::into_iter" or callee.endswith("::iter") or callee.endswith("::into_iter"):
                return [(OK, ("abs", "siter", a0[2], 0), st)]
            if callee.endswith("::is_empty"):
                return [(OK, ("bool", len(a0[2]) == 0), st)]
            if callee.endswith("::len"):
                return [(OK, hirai.mkint(len(a0[2])), st)]
        if a0 is not None and a0[0] == "abs" and a0[1] == "siter" and callee == "core::iter::traits::iterator::Iterator::enumerate":
            return [(OK, ("abs", "siter", tuple(("tuple", (hirai.mkint(i), x)) for i, x in enumerate(a0[2][a0[3]:])), 0), st)]
        if a0 is not None and a0[0] == "abs" and a0[1] == "siter" and callee == "core::iter::traits::iterator::Iterator::unzip":
            items = [I.deref_val(st, x) for x in a0[2][a0[3]:]]
            if all(x[0] == "tuple" and len(x[1]) == 2 for x in items):
                return [(OK, ("tuple", (("abs", "svec", tuple(x[1][0] for x in items)), ("abs", "svec", tuple(x[1][1] for x in items)))), st)]
        if a0 is not None and a0[0] == "abs" and a0[1] == "siter" and callee == "core::iter::traits::iterator::Iterator::zip" and len(args) > 1:
            b = I.deref_val(st, args[1])
            if b[0] == "abs" and b[1] in ("siter", "svec"):
                bi = list(b[2][b[3]:]) if b[1] == "siter" else list(b[2])
                ai = list(a0[2][a0[3]:])
                return [(OK, ("abs", "siter", tuple(("tuple", (x, y)) for x, y in zip(ai, bi)), 0), st)]
        if a0 is not None and a0[0] == "abs" and a0[1] == "siter" and callee == "core::iter::traits::iterator::Iterator::map":
            items = a0[2][a0[3]:]

            def go(i, acc, s):
                if i == len(items):
                    return [(OK, ("abs", "siter", tuple(acc), 0), s)]
                out = []
                for ctl, r, s2 in I.apply(args[1], [items[i]], s, n):
                    if ctl != OK:
                        out.append((ctl, r, s2))
                    else:
                        out.extend(go(i + 1, acc + [r], s2))
                return out
            return go(0, [], st)
        if callee in ("<T as alloc::string::ToString>::to_string", "alloc::string::ToString::to_string") or callee.endswith("as alloc::string::ToString>::to_string"):
            t = self.type_of_value(a0) if a0 is not None else None
            if t in self.tostring_impls and self.tostring_impls[t] != callee:
                f = self.facts.fns[self.tostring_impls[t]]
                s2, p2 = I.newtemp(st, a0)
                return I.inline(f, [("ref", p2)], s2)
        r = super().intrinsic(I, callee, args, st, n)
        if r is not None:
            return r
        if callee in ("<T as core::convert::Into<U>>::into", "core::convert::Into::into"):
            # dispatch to a workspace From impl when there is one for the value's type
            t = self.type_of_value(a0) if a0 is not None else None
            tgt = n.get("ty", "")
            if t is not None:
                crate = t.split("::")[0]
                for cand in ("<%s as core::convert::From<&%s>>::from" % (tgt, t), "<%s as core::convert::From<%s>>::from" % (tgt, t),
                             "%s::<impl core::convert::From<&%s> for %s>::from" % (crate, t, tgt), "%s::<impl core::convert::From<%s> for %s>::from" % (crate, t, tgt)):
                    if cand in self.facts.fns:
                        arg = args[0]
                        if "From<&" in cand and arg[0] != "ref":
                            st, p = I.newtemp(st, a0)
                            arg = ("ref", p)
                        return I.inline(self.facts.fns[cand], [arg], st)
        return None

    def abs_equal(self, I, a, b):
        if a[1] == "svec" and b[1] == "svec":
            if len(a[2]) != len(b[2]):
                return False
            res = True
            for x, y in zip(a[2], b[2]):
                e = I.values_equal(x, y)
                if e is False:
                    return False
                if e is None:
                    res = None
            return res
        if a == b:
            return True
        return None


def printer_of(mod, ty):
    if ty in mod.display_impls:
        return mod.display_impls[ty]
    if ty in mod.tostring_impls:
        return mod.tostring_impls[ty]
    return None


def render_value(F, mod, v):
    """all possible renderings of value v: set of sstr/unk values"""
    I = hirai.Interp(F, mod)
    st = hirai.State(depth=1)
    t = mod.type_of_value(v)
    outs = []
    if t in mod.display_impls:
        res = mod.render(I, st, v, {})
    elif t in mod.tostring_impls:
        f = F.fns[mod.tostring_impls[t]]
        s2, p2 = I.newtemp(st, v)
        res = I.inline(f, [("ref", p2)], s2)
    else:
        res = [(OK, unk("no-printer"), st)]
    for ctl, r, s in res:
        outs.append((ctl, r))
    return outs, I


def parse_value(F, mod, ty, sv, key=None):
    I = hirai.Interp(F, mod)
    st = hirai.State(depth=1)
    k = key or mod.fromstr_impls.get(ty)
    if k is None:
        return [(OK, unk("no-parser"))], I
    res = I.inline(F.fns[k], [sv], st)
    return [(ctl, I.deref_val(s, r) if isinstance(r, tuple) and r and r[0] == "ref" else r) for ctl, r, s in res], I


def gen_values(F, ty, fieldname="v", depth=0, overrides=None):
    """enumerate representative symbolic values of a workspace type / std type"""
    overrides = overrides or {}
    if (ty, fieldname) in overrides:
        return overrides[(ty, fieldname)]
    if ty in overrides:
        return overrides[ty]
    if ty in ("alloc::string::String", "&str", "std::path::PathBuf", "url::Url", "debversion::Version"):
        return [symstr.atom(fieldname, "word")]
    if re.fullmatch(r"(u|i)(8|16|32|64|128|size)", ty):
        return [symstr.atom(fieldname, "int")]
    if ty == "bool":
        return [("bool", True), ("bool", False)]
    m = re.fullmatch(r"core::option::Option<(.*)>", ty)
    if m:
        return [none()] + [some(x) for x in gen_values(F, m.group(1), fieldname, depth + 1, overrides)]
    if ty.startswith("std::collections::hash::map::HashMap<"):
        return [("abs", "svec", ()), ("abs", "svec", (("tuple", (symstr.atom(fieldname + "_k"), symstr.atom(fieldname + "_v"))),))]
    a = F.adts.get(ty)
    if a is None:
        return [unk("gen:" + ty)]
    out = []
    if a["kind"] == "Enum":
        for v in a["variants"]:
            combos = [[]]
            for i, fld in enumerate(v["fields"]):
                nm = fld["name"] if not fld["name"].isdigit() else (v["name"].lower() + fld["name"])
                vals = gen_values(F, fld["ty"], nm, depth + 1, overrides)
                combos = [c + [x] for c in combos for x in vals]
            named = v["fields"] and not v["fields"][0]["name"].isdigit()
            for c in combos:
                if named:
                    out.append(("struct", ty + "::" + v["name"], tuple((fld["name"], x) for fld, x in zip(v["fields"], c))))
                else:
                    out.append(("enum", ty + "::" + v["name"], tuple(c)))
    else:
        v = a["variants"][0]
        combos = [[]]
        for fld in v["fields"]:
            vals = gen_values(F, fld["ty"], fld["name"], depth + 1, overrides)
            combos = [c + [x] for c in combos for x in vals]
        for c in combos:
            out.append(("struct", ty, tuple((fld["name"], x) for fld, x in zip(v["fields"], c))))
    return out


def show_value(v):
    if not isinstance(v, tuple) or not v:
        return str(v)
    if v[0] in ("sstr", "str", "char"):
        return repr(symstr.show(v))
    if v[0] == "enum":
        name = v[1].split("::")[-1]
        return name + ("(" + ", ".join(show_value(x) for x in v[2]) + ")" if v[2] else "")
    if v[0] == "struct":
        return v[1].split("::")[-1] + "{" + ", ".join("%s: %s" % (k, show_value(x)) for k, x in v[2]) + "}"
    if v[0] == "tuple":
        return "(" + ", ".join(show_value(x) for x in v[1]) + ")"
    if v[0] == "abs" and v[1] == "svec":
        return "[" + ", ".join(show_value(x) for x in v[2]) + "]"
    return str(v)


def normalize(v):
    """canonical form for comparing values: str literals become sstr"""
    if not isinstance(v, tuple) or not v:
        return v
    if v[0] in ("str", "char"):
        return symstr.mk([("lit", v[1])])
    if v[0] == "enum":
        return ("enum", v[1], tuple(normalize(x) for x in v[2]))
    if v[0] == "struct":
        return ("struct", v[1], tuple(sorted((k, normalize(x)) for k, x in v[2])))
    if v[0] == "tuple":
        return ("tuple", tuple(normalize(x) for x in v[1]))
    if v[0] == "abs" and v[1] == "svec":
        return ("abs", "svec", tuple(normalize(x) for x in v[2]))
    return v
