"""C04 - field edits act like list edits, touch nothing else, and survive a re-read.

Engine: the repository's own parser is interpreted on symbolic documents (token kinds concrete, texts symbolic)
to obtain the syntax tree it builds; Paragraph::{set,insert,remove,rename} (and Entry::new underneath) are then
interpreted on that tree with a model of rowan 0.16's mutable-tree API (splice_children, detach, index, lazy child
iterators that continue from the previously yielded node).  The printed result must equal the list model applied
to the document's line records: only the touched field changes, it is re-rendered as 'Name: l0 LF ( l_i LF)*',
appends go after the paragraph's last line (which is terminated first), removals delete every field of the name.
Structural rules: every tree handed out is created by new_root_mut; nothing but the editing API mutates trees.
"""
import itertools
import facts, hirai, symstr, treemodel, docbuild as db
from hirai import OK, PANIC, SOME, NONE, some, none, unk
from report import Check

P = "deb822_lossless::lossless::"


def A(name):
    return symstr.atom(name, "line")


# ---- document model: list of paragraphs; paragraph = list of records
def F_(key, lines, final_newline=True, ws=" ", indent=" "):
    toks = db.field_tokens(key, lines, 0, final_newline, ws)
    if indent != " ":
        toks = [(k, symstr.lit(indent)) if k == "INDENT" else (k, t) for k, t in toks]
    return {"type": "field", "key": key, "lines": [l if isinstance(l, tuple) else A(l) for l in lines], "tokens": toks}


def Cm(name):
    return {"type": "comment", "tokens": db.comment(name)}


def canonical(key, lines):
    if not lines:     # a field without value is rendered "Key: " + LF
        return {"type": "field", "key": key, "lines": [], "tokens": [("KEY", symstr.lit(key)), ("COLON", symstr.lit(":")), ("WHITESPACE", symstr.lit(" ")), ("NEWLINE", symstr.lit("\n"))]}
    return {"type": "field", "key": key, "lines": lines, "tokens": db.field_tokens(key, lines, 0, True, " ")}


def render(doc):
    toks = []
    for i, para in enumerate(doc):
        if i > 0:
            toks += db.BLANK
        for r in para:
            toks += r["tokens"]
    return toks


def ensure_nl(para):
    """terminate the paragraph's last line"""
    if para:
        last = para[-1]
        if last["tokens"] and last["tokens"][-1][0] != "NEWLINE":
            last = dict(last)
            last["tokens"] = last["tokens"] + [("NEWLINE", symstr.lit("\n"))]
            para[-1] = last


def model_apply(doc, pi, op):
    doc = [list(p) for p in doc]
    para = doc[pi]
    kind = op[0]
    if kind == "set":
        _, key, lines = op
        for i, r in enumerate(para):
            if r["type"] == "field" and r["key"] == key:
                para[i] = canonical(key, lines)
                return doc
        ensure_nl(para)
        para.append(canonical(key, lines))
    elif kind == "insert":
        _, key, lines = op
        ensure_nl(para)
        para.append(canonical(key, lines))
    elif kind == "remove":
        doc[pi] = [r for r in para if not (r["type"] == "field" and r["key"] == op[1])]
    elif kind == "rename":
        _, old, new = op
        for i, r in enumerate(para):
            if r["type"] == "field" and r["key"] == old:
                para[i] = canonical(new, r["lines"])
                return doc
    return doc


def items_of(para):
    out = []
    for r in para:
        if r["type"] == "field":
            p = []
            for i, l in enumerate(r["lines"]):
                if i:
                    p.append(("lit", "\n"))
                p.extend(symstr.pieces_of(l))
            out.append((r["key"], symstr.show(symstr.mk(p))))
    return out


LAYOUTS = {
    "three fields": [[F_("A", ["a"]), F_("B", ["b"]), F_("C", ["c"])]],
    "comment, multi-line value, duplicate name, second paragraph": [[F_("A", ["a"]), Cm("cm"), F_("B", ["b1", "b2"], indent="\t  "), F_("A", ["a2"], ws="   ")], [F_("Z", ["z"])]],
    "no final newline": [[F_("A", ["a"]), F_("B", ["b"], final_newline=False)]],
    "trailing comment in paragraph, then another paragraph": [[F_("A", ["a"]), F_("B", ["b"]), Cm("tail")], [F_("Z", ["z"])]],
    "single field without final newline": [[F_("A", ["a"], final_newline=False)]],
    "no final newline, last line is a comment": [[F_("A", ["a"]), F_("B", ["b"]), {"type": "comment", "tokens": [("COMMENT", symstr.mk([("lit", "#"), ("atom", "note", "line")]))]}]],
    "no final newline, last field has no value": [[F_("A", ["a"]), {"type": "field", "key": "B", "lines": [], "tokens": [("KEY", symstr.lit("B")), ("COLON", symstr.lit(":"))]}]],
}
OPS = [
    ("set", "A", [A("n")]), ("set", "B", [A("n")]), ("set", "B", [A("n1"), A("n2")]), ("set", "N", [A("n")]), ("set", "N", [A("n1"), A("n2")]),
    ("insert", "N", [A("n")]), ("insert", "A", [A("n")]),
    ("remove", "A"), ("remove", "B"), ("remove", "N"),
    ("rename", "A", "R"), ("rename", "B", "R"), ("rename", "N", "R"),
    # value lines whose text starts with ':' (must still be value lines when the document is read again)
    ("set", "B", [symstr.mk([("lit", ":"), ("atom", "c1", "line")]), symstr.mk([("lit", ":"), ("atom", "c2", "line")])]),
    ("insert", "N", [A("n"), symstr.mk([("lit", "::")])]),
]


HISTORIES = [
    [("insert", "N", [A("n")]), ("set", "B", [A("m")])],
    [("insert", "N", [A("n")]), ("rename", "B", "R")],
    [("set", "N", [A("n1"), A("n2")]), ("set", "A", [A("m")])],
    [("insert", "N", [A("n")]), ("remove", "B")],
    [("remove", "A"), ("insert", "A", [A("n")])],
    [("set", "B", [A("n")]), ("set", "B", [A("m1"), A("m2")])],
    [("insert", "N", [A("n")]), ("insert", "M", [A("m")])],
    [("rename", "A", "R"), ("set", "R", [A("n")])],
    [("insert", "N", [A("n")]), ("set", "A", [A("m")]), ("remove", "N")],
]


def join_lines(lines):
    p = []
    for i, l in enumerate(lines):
        if i:
            p.append(("lit", "\n"))
        p.extend(symstr.pieces_of(l))
    return symstr.mk(p)


def run(tier):
    F = facts.Facts()
    hirai.INT_BOUND = 64
    C = Check("C04", "other", tier, "abstract interpretation of the editing API on syntax trees obtained by interpreting the repository's parser on symbolic documents, against a list model; rowan mutable-tree API modelled (0.16 semantics); ownership rules on the call graph",
              ["rustc HIR/typeck", "hirai", "model of rowan 0.16 (splice_children, detach, index, lazy child iteration, new_root_mut) in rules/treemodel.py", "the parser builds these trees (C01/C03 decide the parser)"])
    for fn in ("Paragraph::set", "Paragraph::insert", "Paragraph::remove", "Paragraph::rename", "Entry::new", "Paragraph::items"):
        C.ob("C04/anchor", P + fn, F.fn(P + fn) is not None, "not found")
    n = 0
    for lname, doc in LAYOUTS.items():
        toks = render(doc)
        hists = [[op] for op in OPS] + HISTORIES
        if tier == "thorough" or lname in ("comment, multi-line value, duplicate name, second paragraph", "no final newline"):
            # every ordered pair of operations (the second acts on what the first left behind)
            hists += [[a, b] for a in OPS for b in OPS if [a, b] not in HISTORIES]
        for hist in hists:
            op = hist[0]
            n += 1
            label = "%s :: %s" % (lname, " ; ".join(op_str(o) for o in hist))
            pdoc, errs, st, mod = db.parse_deb822(F, toks)
            if pdoc is None or errs != ("abs", "strvec", 0):
                C.ob("C04/parse", label, False, "the symbolic document does not parse cleanly (%s)" % (errs,))
                continue
            tm = mod.tree
            tm.invalidations, tm.immutable_mutations = [], []
            h = treemodel.heap_get(st)
            root = pdoc[2][0][2]
            paras = [c for c in h[root][3] if h[c][2] == "PARAGRAPH"]
            para_v = ("enum", P + "Paragraph", (("abs", "nref", paras[0]),))
            I = hirai.Interp(F, tm, max_depth=16)
            I.max_recursion = 6
            s0 = hirai.State({}, dict(st.mon), 0).setroot(("T", "para"), para_v)
            def call_op(o, state):
                args = [("ref", (("T", "para"),))]
                if o[0] in ("set", "insert"):
                    args += [symstr.lit(o[1]), join_lines(o[2])]
                elif o[0] == "remove":
                    args += [symstr.lit(o[1])]
                else:
                    args += [symstr.lit(o[1]), symstr.lit(o[2])]
                return I.inline(F.fn(P + "Paragraph::" + o[0]), args, state)
            try:
                res = [(OK, None, s0)]
                for o in hist:
                    nxt = []
                    for ctl, v, s in res:
                        if ctl != OK:
                            nxt.append((ctl, v, s))
                        else:
                            nxt.extend(call_op(o, s))
                    res = nxt
            except hirai.Violation as e:
                C.ob("C04/analysis", label, False, str(e))
                continue
            want_doc = doc
            for o in hist:
                want_doc = model_apply(want_doc, 0, o)
            want = db.text_of_tokens(render(want_doc))
            got = []
            for ctl, v, s in res:
                if ctl != OK:
                    got.append("<%s %s>" % (ctl, str(v)[:80]))
                else:
                    hh = treemodel.heap_get(s)
                    got.append(symstr.show(symstr.mk(tm.text_of(hh, root))))
            ok = got == [want]
            C.ob("C04/edit-text", label, ok, "document after the edit prints %r, the list model gives %r" % (got, want), F.fn(P + "Paragraph::" + hist[-1][0])["sp"])
            if tm.invalidations:
                C.ob("C04/iterator-invalidation", label, False, "a child iterator is advanced after the node it last yielded was detached/replaced (rowan continues from that node: iteration stops early)", F.fn(P + "Paragraph::" + op[0])["sp"])
            if len(hist) == 1 and op[0] == "rename" and len(res) == 1 and res[0][0] == OK:
                existed = any(r["type"] == "field" and r["key"] == op[1] for r in doc[0])
                C.ob("C04/rename-result", label, res[0][1] == ("bool", existed), "rename returns %s, expected %s" % (res[0][1], existed))
            # the printed document re-lexes (extracted lexer table) into well-formed lines that read as the model
            if ok and len(res) == 1:
                import c05, c07
                flat = []
                c05.flatten(tm, treemodel.heap_get(res[0][2]), root, flat)
                re_toks = c07.relex(F, flat)
                paras, err = c05.split_by_dfa(re_toks) if re_toks is not None else (None, "the printed text cannot be re-lexed")
                want_paras = [items_of(p) for p in want_doc if items_of(p)]
                C.ob("C04/reread", label, err is None and paras == want_paras,
                     "the printed document %r re-reads as %s (%s); the list model has %s" % (want, paras, err, want_paras), F.fn(P + "Paragraph::" + hist[-1][0])["sp"])
            # live object reports the same content
            if ok and len(res) == 1:
                s = res[0][2]
                I2 = hirai.Interp(F, tm, max_depth=16)
                I2.max_recursion = 6
                r2 = I2.inline(F.fn(P + "Paragraph::items"), [("ref", (("T", "para"),))], s)
                live = None
                if len(r2) == 1 and r2[0][0] == OK:
                    for items, s3 in tm.drain(I2, r2[0][2], r2[0][1], {}):
                        if items is not None:
                            live = [(symstr.show(I2.deref_val(s3, x[1][0])), symstr.show(I2.deref_val(s3, x[1][1]))) for x in (I2.deref_val(s3, y) for y in items)]
                C.ob("C04/live-content", label, live == items_of(want_doc[0]), "items() of the edited paragraph reports %s, the model has %s" % (live, items_of(want_doc[0])))
            if len(C.samples) < 8:
                C.sample({"layout": lname, "operation": op_str(op), "before": db.text_of_tokens(toks), "after": got})
    C.floor("C04/edits", n, 400, "layout x operation / history combinations")
    check_entry_new(F, C)
    check_ownership(F, C)
    C.assumptions += ["rowan 0.16 semantics as modelled (splice_children detaches replaced children and re-parents inserted ones; SyntaxNodeChildren continues from the previously yielded node)",
                      "bounded: 5 document layouts x 13 operations, single edit per run; values are non-empty line atoms",
                      "re-reading the printed result is covered by C03 (the expected text consists of well-formed line forms)"]
    return C.finish("Each editing operation is interpreted on the tree the interpreted parser builds for symbolic documents (comments, duplicate names, multi-line values with odd indentation, missing final newline, "
                    "trailing comment) and the printed document is compared with the list model; live items() must agree; ownership rules are checked on all functions.")


def op_str(op):
    if op[0] in ("set", "insert"):
        return "%s(%s, %d line%s)" % (op[0], op[1], len(op[2]), "s" if len(op[2]) > 1 else "")
    return "%s(%s)" % (op[0], ", ".join(op[1:]))


def check_entry_new(F, C):
    """Entry::new and the FromIterator constructors emit KEY ':' ' ' line LF (' ' line LF)* for 1..3 lines"""
    tm = treemodel.TreeMod(F, "deb822_lossless::lex::SyntaxKind")
    for nl in (1, 2, 3):
        lines = [A("l%d" % i) for i in range(nl)]
        I = hirai.Interp(F, tm, max_depth=12)
        res = I.inline(F.fn(P + "Entry::new"), [symstr.lit("K"), join_lines(lines)], hirai.State(depth=0))
        want = "K: <l0>\n" + "".join(" <l%d>\n" % i for i in range(1, nl))
        got = []
        kinds = []
        for ctl, v, s in res:
            v = I.deref_val(s, v)
            if ctl == OK and v[0] == "enum" and v[2] and v[2][0][0] == "abs" and v[2][0][1] == "nref":
                h = treemodel.heap_get(s)
                got.append(symstr.show(symstr.mk(tm.text_of(h, v[2][0][2]))))
                kinds.append([h[c][2] for c in h[v[2][0][2]][3]])
                C.ob("C04/entry-mutable", "Entry::new, %d lines" % nl, h[v[2][0][2]][5], "Entry::new returns an immutable tree")
            else:
                got.append(str(v)[:60])
        wk = ["KEY", "COLON", "WHITESPACE"] + sum((["VALUE", "NEWLINE"] if i == 0 else ["INDENT", "VALUE", "NEWLINE"] for i in range(nl)), [])
        C.ob("C04/entry-new-shape", "Entry::new with %d value line(s)" % nl, got == [want] and kinds == [wk], "builds %r with token kinds %s, expected %r / %s" % (got, kinds, want, wk), F.fn(P + "Entry::new")["sp"])
    # Paragraph from name/value pairs
    for key in ("<deb822_lossless::lossless::Paragraph as core::iter::traits::collect::FromIterator<(alloc::string::String, alloc::string::String)>>::from_iter",
                "<deb822_lossless::lossless::Paragraph as core::iter::traits::collect::FromIterator<(&'a str, &'a str)>>::from_iter"):
        f = F.fn(key)
        if not C.ob("C04/anchor", key, f is not None, "not found"):
            continue
        pairs = ("abs", "svec", (("tuple", (symstr.lit("A"), join_lines([A("a")]))), ("tuple", (symstr.lit("B"), join_lines([A("b1"), A("b2")])))))
        I = hirai.Interp(F, tm, max_depth=12)
        res = I.inline(f, [pairs], hirai.State(depth=0))
        got = []
        for ctl, v, s in res:
            v = I.deref_val(s, v)
            if ctl == OK and v[0] == "enum" and v[2] and v[2][0][0] == "abs":
                h = treemodel.heap_get(s)
                got.append(symstr.show(symstr.mk(tm.text_of(h, v[2][0][2]))))
            else:
                got.append(str(v)[:60])
        C.ob("C04/from-pairs-shape", key.split("FromIterator<")[1][:30], got == ["A: <a>\nB: <b1>\n <b2>\n"], "builds %r" % got, f["sp"])
        # a list: every pair becomes a field of its own, in order - also a repeated name, a three-line value, an empty line inside
        pairs = ("abs", "svec", (("tuple", (symstr.lit("A"), join_lines([A("a1")]))), ("tuple", (symstr.lit("B"), join_lines([A("b1"), A("b2"), A("b3")]))),
                                 ("tuple", (symstr.lit("A"), join_lines([A("a2")]))), ("tuple", (symstr.lit("A"), symstr.mk([("atom", "a3", "line"), ("lit", "\n\n"), ("atom", "a5", "line")])))))
        I = hirai.Interp(F, tm, max_depth=12)
        res = I.inline(f, [pairs], hirai.State(depth=0))
        got = []
        for ctl, v, s in res:
            v = I.deref_val(s, v)
            if ctl == OK and v[0] == "enum" and v[2] and v[2][0][0] == "abs":
                h = treemodel.heap_get(s)
                got.append(symstr.show(symstr.mk(tm.text_of(h, v[2][0][2]))))
            else:
                got.append(str(v)[:60])
        want = "A: <a1>\nB: <b1>\n <b2>\n <b3>\nA: <a2>\nA: <a3>\n \n <a5>\n"
        # every line, also an empty one, is a VALUE token of its own (Entry::value joins VALUE tokens)
        nvals = []
        for ctl, v, s in res:
            v = I.deref_val(s, v)
            if ctl == OK and v[0] == "enum" and v[2] and v[2][0][0] == "abs":
                h = treemodel.heap_get(s)
                nvals.append([sum(1 for t in h[e][3] if h[t][1] == "T" and h[t][2] == "VALUE") for e in h[v[2][0][2]][3] if h[e][1] == "N" and h[e][2] == "ENTRY"])
        C.ob("C04/from-pairs-list", key.split("FromIterator<")[1][:30] + " (value lines)", nvals == [[1, 3, 1, 3]], "VALUE tokens per field: %s, expected [1, 3, 1, 3] (an empty line is still a line)" % nvals, f["sp"])
        C.ob("C04/from-pairs-list", key.split("FromIterator<")[1][:30], got == [want], "builds %r, expected %r (one field per pair, repeated names kept, every line kept)" % (got, want), f["sp"])


def check_ownership(F, C):
    """every SyntaxNode root created in src/lossless.rs library code is mutable; only the editing API mutates"""
    n_mut = 0
    for k, f in sorted(F.fns.items()):
        if not k.startswith("deb822_lossless::lossless::") or "body" not in f:
            continue
        for c in facts.calls(f["body"]):
            d = facts.callee(c) or ""
            if d == "rowan::api::SyntaxNode::<L>::new_root":
                C.ob("C04/ownership-mutable-roots", k, False, "creates an immutable tree (SyntaxNode::new_root): editing such a tree panics and earlier handles cannot see edits", c.get("sp", ""))
            if d == "rowan::api::SyntaxNode::<L>::new_root_mut":
                n_mut += 1
    C.ob("C04/ownership-mutable-roots", "deb822_lossless::lossless (%d roots, all new_root_mut)" % n_mut, n_mut >= 8, "expected at least 8 new_root_mut sites")
    allowed = {"Paragraph::set", "Paragraph::insert", "Paragraph::remove", "Paragraph::rename", "Entry::detach", "Deb822::insert_empty_paragraph", "Deb822::remove_paragraph",
               "Deb822::delete_trailing_space", "ensure_trailing_newline"}
    # a private helper whose every caller is part of the editing API (or such a helper itself) is interpreted as part of
    # those operations; anything public, or called from elsewhere, is a mutation path the operation histories do not cover
    g = facts.build_callgraph(F)
    callers = {}
    for a, bs in g.items():
        for b in bs:
            callers.setdefault(b.split("::{closure")[0], set()).add(a.split("::{closure")[0])
    shortname = lambda k: k.replace("deb822_lossless::lossless::", "").split("::{closure")[0]

    def within_api(k, seen=()):
        k = k.split("::{closure")[0]
        if shortname(k) in allowed:
            return True
        f = F.fns.get(k)
        if f is None or f.get("pub") or k in seen:
            return False
        cs = callers.get(k, set()) - {k}
        return bool(cs) and all(within_api(c, seen + (k,)) for c in cs)
    for k, f in sorted(F.fns.items()):
        if not k.startswith("deb822_lossless::") or "body" not in f:
            continue
        for c in facts.calls(f["body"]):
            d = facts.callee(c) or ""
            if d in ("rowan::api::SyntaxNode::<L>::splice_children", "rowan::api::SyntaxNode::<L>::detach"):
                short = shortname(k)
                C.ob("C04/who-may-mutate", "%s calls %s" % (short, d.split("::")[-1]), within_api(k), "tree mutation outside the editing API", c.get("sp", ""))
