"""Verdict bookkeeping: obligations, floors, known findings, evidence, VIOLATION lines."""
import hashlib, json, os, sys, time

VERIF = os.path.dirname(os.path.dirname(os.path.abspath(__file__)))


def load_known():
    known, fixed = {}, []
    p = os.path.join(VERIF, "known_findings.jsonl")
    if os.path.exists(p):
        for line in open(p):
            line = line.strip()
            if not line or line.startswith("#"):
                continue
            if line.startswith("fixed:"):
                fixed.append(line)
                continue
            e = json.loads(line)
            known[(e["property"], e["key"])] = e
    return known, fixed


T0 = time.time()


class Check:
    def __init__(self, pid, level, tier, technique, trusted_base=None):
        self.pid = pid
        self.level = level
        self.tier = tier
        self.technique = technique
        self.t0 = T0    # measured from the start of the checker process (fact loading included)
        self.obligations = []   # dicts: rule, instance, ok, detail, loc
        self.analysed = {}      # rule -> list of analysed things
        self.samples = []
        self.assumptions = []
        self.trusted_base = trusted_base or []
        self.extra = {}
        self.seed = int(os.environ.get("VERIF_SEED", "0") or 0)

    def note(self, rule, what):
        self.analysed.setdefault(rule, []).append(what)

    def ob(self, rule, instance, ok, detail="", loc=""):
        """register one obligation (rule instance). key = rule + instance (no line numbers)."""
        self.obligations.append({"rule": rule, "instance": instance, "ok": bool(ok), "detail": detail, "loc": loc})
        return bool(ok)

    def floor(self, rule, count, minimum, what):
        """fail closed when fewer instances than confirmed by hand were matched"""
        if os.environ.get("VERIF_FLOORS"):
            with open(os.environ["VERIF_FLOORS"], "a") as fh:
                fh.write("%s\t%s\t%d\t%d\n" % (self.pid if hasattr(self, "pid") else "?", rule, count, minimum))
        self.ob(rule + "/floor", what, count >= minimum,
                "matched %d instances of %s, expected at least %d (anchor lost: the rule would pass vacuously)" % (count, what, minimum))

    def sample(self, s):
        if len(self.samples) < 40:
            self.samples.append(s)

    def finish(self, explanation):
        known, _ = load_known()
        viols = [o for o in self.obligations if not o["ok"]]
        os.makedirs(os.path.join(VERIF, "evidence", "violations"), exist_ok=True)
        new_viol = 0
        seen_keys = set()
        for v in viols:
            key = v["rule"] + " :: " + v["instance"]
            if key in seen_keys:
                continue
            seen_keys.add(key)
            if (self.pid, key) in known:
                print("KNOWN-FINDING: property=%s %s [%s] %s" % (self.pid, known[(self.pid, key)].get("what", key), key, v["loc"]))
                v["known"] = True
                continue
            new_viol += 1
            hid = hashlib.sha256(key.encode()).hexdigest()[:12]
            path = os.path.join(VERIF, "evidence", "violations", "%s-%s.json" % (self.pid, hid))
            with open(path, "w") as fh:
                json.dump({"property": self.pid, "key": key, "rule": v["rule"], "instance": v["instance"],
                           "detail": v["detail"], "loc": v["loc"]}, fh, indent=1)
            print("  rule=%s\n  instance=%s\n  at=%s\n  %s" % (v["rule"], v["instance"], v["loc"], v["detail"]))
            print("VIOLATION property=%s replay=%s" % (self.pid, path))
        n = len(self.obligations)
        ok = sum(1 for o in self.obligations if o["ok"])
        kn = sum(1 for o in self.obligations if o.get("known"))
        distinct = len({(o["rule"], o["instance"]) for o in self.obligations})
        if not self.samples:
            for o in self.obligations[:10]:
                self.samples.append({"rule": o["rule"], "instance": o["instance"], "ok": o["ok"], "at": o["loc"]})
        cov = {
            "obligations": n,
            "discharged": ok,
            "known_findings": kn,
            "evaluations": n,
            "distinct_nontrivial": distinct,
            "rule": "one obligation per (rule, code instance) found in /repo's resolved program; distinct = distinct (rule, instance) keys",
            "samples": self.samples,
            "checker_cmd": "./check %s --tier %s" % (self.pid, self.tier),
            "trusted_base": self.trusted_base,
            "explanation": explanation,
            "technique": self.technique,
            "analysed": {k: (v if len(v) <= 60 else v[:60] + ["... %d more" % (len(v) - 60)]) for k, v in self.analysed.items()},
            "rules": sorted({o["rule"] for o in self.obligations}),
            "undischarged": [{"rule": o["rule"], "instance": o["instance"], "detail": o["detail"], "at": o["loc"], "known": bool(o.get("known"))} for o in viols],
        }
        cov.update(self.extra)
        ev = {
            "property_id": self.pid,
            "tier": self.tier,
            "seed": self.seed,
            "level": self.level,
            "coverage": cov,
            "assumptions": self.assumptions,
            "wall_s": round(time.time() - self.t0, 3),
            "violations": new_viol,
        }
        evdir = os.path.join(VERIF, "evidence")
        if os.path.realpath(os.environ.get("VERIF_REPO", "/repo")) != "/repo":
            # a run against a scratch copy never replaces the evidence of /repo itself
            evdir = os.path.join(VERIF, "evidence", "scratch")
            os.makedirs(evdir, exist_ok=True)
        with open(os.path.join(evdir, self.pid + ".json"), "w") as fh:
            json.dump(ev, fh, indent=1)
        print("%s: %d obligations, %d discharged, %d known findings, %d new violations (%.1fs)" % (self.pid, n, ok, kn, new_viol, time.time() - self.t0))
        return 1 if new_viol else 0
