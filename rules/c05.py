"""C05 - adding, inserting and removing paragraphs behaves like list operations.

Same engine as C04: the parser is interpreted on symbolic documents; Deb822::{add_paragraph, insert_paragraph,
remove_paragraph} (followed by a field edit on the returned paragraph) are interpreted on the resulting tree with
the rowan mutable-tree model.  Checks after each operation:
  - the live paragraph list (paragraphs() x items()) equals the list model (push / insert(i) / remove(i), out of
    range insert appends, out of range remove does nothing),
  - the flattened token sequence of the printed document is accepted by the well-formed token grammar and splits
    into exactly the model's paragraphs (so printing and re-reading yields the same paragraphs),
  - every comment of the original document is still there, in order; other paragraphs' tokens are unchanged."""
import itertools
import facts, hirai, symstr, treemodel, docbuild as db, deb822_parse, c04
from c04 import A, F_, Cm, join_lines
from hirai import OK, PANIC, SOME, NONE, some, none, unk
from report import Check

P = "deb822_lossless::lossless::"


def blank():
    return {"type": "blank", "tokens": list(db.BLANK)}


# a document here is a flat list of records; paragraphs are maximal runs of field records (comments inside a run stay)
LAYOUTS = {
    "empty document": [],
    "two paragraphs": [F_("A", ["a"]), blank(), F_("B", ["b"])],
    "three paragraphs, two blank lines": [F_("A", ["a"]), blank(), blank(), F_("B", ["b1", "b2"]), blank(), F_("C", ["c"])],
    "leading comment": [Cm("top"), blank(), F_("A", ["a"]), blank(), F_("B", ["b"])],
    "comment between paragraphs": [F_("A", ["a"]), blank(), Cm("mid"), blank(), F_("B", ["b"])],
    "no final newline": [F_("A", ["a"]), blank(), F_("B", ["b"], final_newline=False)],
    "one paragraph, trailing blank lines": [F_("A", ["a"]), F_("A2", ["x"]), blank(), blank()],
    "no final newline, last line is a comment": [F_("A", ["a"]), blank(), F_("B", ["b"]), {"type": "comment", "tokens": [("COMMENT", symstr.mk([("lit", "#"), ("atom", "note", "line")]))]}],
    "no final newline, last field has no value": [F_("A", ["a"]), blank(), {"type": "field", "key": "B", "lines": [], "tokens": [("KEY", symstr.lit("B")), ("COLON", symstr.lit(":"))]}],
    "after wrap_and_sort (comments directly under the root)": ("wrap", [Cm("top"), blank(), F_("A", ["a"]), blank(), Cm("mid"), F_("B", ["b"]), blank(), F_("C", ["c"])]),
    "after wrap_and_sort, ending in a comment without final newline": ("wrap", [F_("A", ["a"]), blank(), {"type": "comment", "tokens": [("COMMENT", symstr.mk([("lit", "#"), ("atom", "tail", "line")]))]}]),
}


def paragraphs_of(records):
    paras, cur = [], []
    for r in records:
        if r["type"] == "field":
            cur.append((r["key"], c04.items_of([r])[0][1]))
        elif r["type"] == "blank":
            if cur:
                paras.append(cur)
                cur = []
        elif r["type"] == "comment" and not cur:
            pass
    if cur:
        paras.append(cur)
    return paras


def flatten(tm, h, i, out):
    e = h[i]
    if e[1] == "T":
        out.append((e[2], e[3]))
    else:
        for c in e[3]:
            flatten(tm, h, c, out)


def split_by_dfa(tokens):
    """run the well-formed DFA over the token kinds; returns (paragraph list, error) """
    wf = deb822_parse.wellformed_dfa()
    q = wf.start
    paras, cur, key, lines = [], [], None, []

    def close_field():
        nonlocal key, lines
        if key is not None:
            p = []
            for i, l in enumerate(lines):
                if i:
                    p.append(("lit", "\n"))
                p.extend(symstr.pieces_of(l))
            cur.append((symstr.show(key), symstr.show(symstr.mk(p))))
        key, lines = None, []
    for idx, (k, t) in enumerate(tokens):
        tr = wf.trans.get(q, {})
        if k not in tr:
            return None, "token %d (%s %r) is not allowed after %s" % (idx, k, symstr.show(t), [symstr.show(x[1]) for x in tokens[max(0, idx - 3):idx]])
        q, role = tr[k]
        if role in ("key-first", "key-next"):
            close_field()
            if role == "key-first" and cur:
                paras.append(list(cur))
                cur.clear()
            key = t
        elif role == "value":
            lines.append(t)
        elif role == "blank-sep":
            close_field()
            if cur:
                paras.append(list(cur))
                cur.clear()
    if q not in wf.accepting:
        return None, "document ends in the middle of a line form"
    close_field()
    if cur:
        paras.append(list(cur))
    return paras, None


def run(tier):
    F = facts.Facts()
    hirai.INT_BOUND = 64
    C = Check("C05", "other", tier, "abstract interpretation of the paragraph-level editing API on trees obtained by interpreting the repository's parser on symbolic documents; list model + well-formedness of the flattened token sequence",
              ["rustc HIR/typeck", "hirai", "rowan 0.16 model (rules/treemodel.py)", "well-formed token grammar (rules/deb822_parse.py)"])
    for fn in ("Deb822::add_paragraph", "Deb822::insert_paragraph", "Deb822::remove_paragraph", "Deb822::paragraphs", "Paragraph::set"):
        C.ob("C05/anchor", P + fn, F.fn(P + fn) is not None, "not found")
    n = 0
    for lname, records in LAYOUTS.items():
        pre_wrap = isinstance(records, tuple)
        if pre_wrap:
            records = records[1]
        toks = []
        for r in records:
            toks += r["tokens"]
        base = paragraphs_of(records)
        comments0 = [symstr.show(t) for k, t in toks if k == "COMMENT"]
        # comments that sit inside a paragraph (after its first field, before the blank line) go with that paragraph
        inner = {}
        pi, seen_field = -1, False
        for r in records:
            if r["type"] == "field":
                if not seen_field:
                    pi += 1
                seen_field = True
            elif r["type"] == "blank":
                seen_field = False
            elif r["type"] == "comment" and seen_field:
                inner.setdefault(pi, []).append(symstr.show(r["tokens"][0][1]))
        np_ = len(base)
        ops = [("add",)] + [("insert", i) for i in range(0, np_ + 2)] + [("remove", i) for i in range(0, np_ + 2)]
        ops += [("add", "empty-value")] + [("insert", i, "empty-value") for i in range(0, np_ + 1)]
        if np_ >= 2:
            ops += [("remove-all", "front"), ("remove-all", "back")]
        for op in ops:
            n += 1
            empty_fill = op[-1] == "empty-value"
            if empty_fill:
                op = op[:-1]
            label = "%s :: %s" % (lname, "%s(%s)%s" % (op[0], ", ".join(map(str, op[1:])), " then set(X, \"\")" if empty_fill else ""))
            fill_val = symstr.lit("") if empty_fill else symstr.atom("x", "line")
            fill_model = ("X", "") if empty_fill else ("X", "<x>")
            pdoc, errs, st, mod = db.parse_deb822(F, toks)
            if pdoc is None or errs != ("abs", "strvec", 0):
                C.ob("C05/parse", label, False, "the symbolic document does not parse cleanly (%s)" % (errs,))
                continue
            tm = mod.tree
            tm.invalidations, tm.immutable_mutations = [], []
            I = hirai.Interp(F, tm, max_depth=16)
            I.max_recursion = 6
            if pre_wrap:
                s00 = hirai.State({}, dict(st.mon), 0).setroot(("T", "doc0"), pdoc)
                rw = I.inline(F.fn(P + "Deb822::wrap_and_sort"), [("ref", (("T", "doc0"),)), none(), none()], s00)
                if len(rw) != 1 or rw[0][0] != OK:
                    C.ob("C05/parse", label, False, "wrap_and_sort of the layout failed")
                    continue
                pdoc = I.deref_val(rw[0][2], rw[0][1])
                st = rw[0][2]
            root = pdoc[2][0][2]
            s0 = hirai.State({}, dict(st.mon), 0).setroot(("T", "doc"), pdoc)
            model = [list(p) for p in base]
            try:
                if op[0] == "add":
                    res = I.inline(F.fn(P + "Deb822::add_paragraph"), [("ref", (("T", "doc"),))], s0)
                    model.append([fill_model])
                elif op[0] == "insert":
                    res = I.inline(F.fn(P + "Deb822::insert_paragraph"), [("ref", (("T", "doc"),)), hirai.mkint(op[1])], s0)
                    model.insert(min(op[1], len(model)), [fill_model])
                elif op[0] == "remove-all":
                    res = [(OK, hirai.UNIT, s0)]
                    for k in range(np_):
                        idx = 0 if op[1] == "front" else np_ - 1 - k
                        nxt = []
                        for ctl, v, sx in res:
                            nxt += I.inline(F.fn(P + "Deb822::remove_paragraph"), [("ref", (("T", "doc"),)), hirai.mkint(idx)], sx) if ctl == OK else [(ctl, v, sx)]
                        res = nxt
                    model = []
                else:
                    res = I.inline(F.fn(P + "Deb822::remove_paragraph"), [("ref", (("T", "doc"),)), hirai.mkint(op[1])], s0)
                    if op[1] < len(model):
                        del model[op[1]]
                if op[0] in ("add", "insert") and len(res) == 1 and res[0][0] == OK and not empty_fill:
                    live0 = live_paragraphs_acc(F, tm, res[0][2])
                    want0 = [list(p) for p in base]
                    want0.insert(len(want0) if op[0] == "add" else min(op[1], len(want0)), [])
                    C.ob("C05/live-after-%s" % op[0], label, live0 == want0, "paragraphs() right after the operation (nothing set yet) reports %s, the list model has %s" % (live0, want0), F.fn(P + "Deb822::paragraphs")["sp"])
                if op[0] in ("add", "insert") and len(res) == 1 and res[0][0] == OK:
                    # fill the returned paragraph
                    s1 = res[0][2].setroot(("T", "newp"), I.deref_val(res[0][2], res[0][1]))
                    res = I.inline(F.fn(P + "Paragraph::set"), [("ref", (("T", "newp"),)), symstr.lit("X"), fill_val], s1)
            except hirai.Violation as e:
                C.ob("C05/analysis", label, False, str(e))
                continue
            if len(res) != 1 or res[0][0] != OK:
                C.ob("C05/operation", label, False, "operation has outcomes %s" % [(ctl, str(v)[:80]) for ctl, v, s in res], F.fn(P + "Deb822::" + {"add": "add_paragraph", "insert": "insert_paragraph", "remove": "remove_paragraph", "remove-all": "remove_paragraph"}[op[0]])["sp"])
                continue
            s = res[0][2]
            h = treemodel.heap_get(s)
            flat = []
            flatten(tm, h, root, flat)
            text = db.text_of_tokens(flat)
            fn_sp = F.fn(P + "Deb822::" + {"add": "add_paragraph", "insert": "insert_paragraph", "remove": "remove_paragraph", "remove-all": "remove_paragraph"}[op[0]])["sp"]
            import c07
            re_toks = c07.relex(F, flat)
            got_paras, err = split_by_dfa(re_toks) if re_toks is not None else (None, "the printed text cannot be re-lexed")
            C.ob("C05/printed-wellformed", label, err is None, "the document prints %r which does not re-read as the same paragraphs: %s" % (text, err), fn_sp)
            if err is None:
                C.ob("C05/printed-paragraphs", label, got_paras == model, "the printed document %r re-reads as paragraphs %s, the list model has %s" % (text, got_paras, model), fn_sp)
            # live paragraphs, as the repository's own accessors report them (Deb822::paragraphs x Paragraph::items)
            live = live_paragraphs_acc(F, tm, s)
            if live is None:
                live = live_paragraphs(F, tm, s, root, h)
            C.ob("C05/live-paragraphs", label, live == model, "paragraphs() of the edited document reports %s, the list model has %s" % (live, model), fn_sp)
            comments1 = [symstr.show(t) for k, t in flat if k == "COMMENT"]
            want_comments = list(comments0)
            if op[0] == "remove" and op[1] < len(base):
                for cm in inner.get(op[1], []):
                    want_comments.remove(cm)
            if op[0] == "remove-all":
                for cms in inner.values():
                    for cm in cms:
                        want_comments.remove(cm)
            C.ob("C05/comments-kept", label, comments1 == want_comments, "comments before %s, after %s" % (comments0, comments1), fn_sp)
            if tm.invalidations:
                C.note("iterator-invalidation-observed", label)
            if len(C.samples) < 8:
                C.sample({"layout": lname, "operation": label.split(" :: ")[1], "before": db.text_of_tokens(toks), "after": text})
    C.floor("C05/operations", n, 75, "layout x operation combinations")
    C.assumptions += ["rowan 0.16 semantics as modelled", "bounded: 7 layouts, every index 0..n+1, one paragraph operation (+ one field edit) per run",
                      "the flattened token sequence re-lexes to itself when it is accepted by the well-formed grammar (each token text was produced by the lexer or by a constructor emitting the same character classes)"]
    return C.finish("Paragraph-level operations are interpreted on the parser's trees for 7 symbolic layouts and every index; live paragraph list, well-formedness and paragraph split of the printed token sequence, "
                    "and comment preservation are compared with the list model.")


def live_paragraphs_acc(F, tm, s):
    I = hirai.Interp(F, tm, max_depth=16)
    I.max_recursion = 6
    if ("T", "doc") not in s.store:
        return None
    r = I.inline(F.fn(P + "Deb822::paragraphs"), [("ref", (("T", "doc"),))], s)
    if len(r) != 1 or r[0][0] != OK:
        return None
    out = []
    d = tm.drain(I, r[0][2], I.deref_val(r[0][2], r[0][1]), {})
    if len(d) != 1 or d[0][0] is None:
        return None
    st = d[0][1]
    for pv in d[0][0]:
        st, pp = I.newtemp(st, I.deref_val(st, pv))
        r2 = I.inline(F.fn(P + "Paragraph::items"), [("ref", pp)], st)
        if len(r2) != 1 or r2[0][0] != OK:
            return None
        d2 = tm.drain(I, r2[0][2], I.deref_val(r2[0][2], r2[0][1]), {})
        if len(d2) != 1 or d2[0][0] is None:
            return None
        items = []
        for x in d2[0][0]:
            x = I.deref_val(d2[0][1], x)
            items.append((symstr.show(I.deref_val(d2[0][1], x[1][0])), symstr.show(I.deref_val(d2[0][1], x[1][1]))))
        out.append(items)
    return out


def live_paragraphs(F, tm, s, root, h):
    out = []
    for c in h[root][3]:
        if h[c][1] == "N" and h[c][2] == "PARAGRAPH":
            items = []
            for e in h[c][3]:
                if h[e][1] == "N" and h[e][2] == "ENTRY":
                    key = None
                    vals = []
                    for t in h[e][3]:
                        if h[t][1] == "T" and h[t][2] == "KEY" and key is None:
                            key = symstr.show(h[t][3])
                        if h[t][1] == "T" and h[t][2] == "VALUE":
                            vals.append(h[t][3])
                    if key is not None:
                        p = []
                        for i, l in enumerate(vals):
                            if i:
                                p.append(("lit", "\n"))
                            p.extend(symstr.pieces_of(l))
                        items.append((key, symstr.show(symstr.mk(p))))
            out.append(items)
    return out
