"""C09 - the lossless relationship-field reader reproduces every input byte for byte.

D1 lexer:   Lexer::next_token interpreted for every character class: literal arms consume exactly the one
            character they print; run arms (read_while) append every consumed character; EOF yields None.
D2 parser:  over ALL token-kind sequences (fixpoint, substvars allowed and not): conservation, order,
            node balance, progress of every loop; peek_past_ws summary validated on token vectors <= 3.
D3 entry points / printing: text reaches lex() unmodified; strict = no errors (substvars disallowed);
            tolerant returns the unfiltered errors; Entry/Relation readers return child nodes of that tree;
            Display writes the syntax text."""
import facts, hirai, tokcursor, lexer, relations_parse as rp
from hirai import OK, RET, PANIC, OKV, ERRV, SOME, NONE, some, none, unk
from report import Check

PFX = "debian_control::lossless::relations::"
ENTRIES = [
    ("relaxed+substvar", PFX + "Relations::parse_relaxed", [("abs", "text"), ("bool", True)]),
    ("relaxed", PFX + "Relations::parse_relaxed", [("abs", "text"), ("bool", False)]),
    ("strict", "<" + PFX + "Relations as core::str::traits::FromStr>::from_str", [("abs", "text")]),
    ("strict-entry", "<" + PFX + "Entry as core::str::traits::FromStr>::from_str", [("abs", "text")]),
    ("strict-relation", "<" + PFX + "Relation as core::str::traits::FromStr>::from_str", [("abs", "text")]),
]


class Mod(rp.Mod):
    def extra_intrinsic(self, I, c, args, st, n):
        if c == "core::str::<impl str>::parse":
            ty = n.get("ty", "")
            if ty.startswith("core::result::Result<"):
                inner = ty[len("core::result::Result<"):].split(",")[0]
                k = "<%s as core::str::traits::FromStr>::from_str" % inner
                if k in self.facts.fns:
                    return I.inline(self.facts.fns[k], [I.deref_val(st, args[0])], st)
        if c in (PFX + "Relations::entries", PFX + "Entry::relations"):
            v = I.deref_val(st, args[0])
            return [(OK, ("abs", "childiter", "ENTRY" if c.endswith("entries") else "RELATION", 0), st)]
        if args:
            a0 = I.deref_val(st, args[0])
            if a0[0] == "abs" and a0[1] == "childiter" and (c.endswith("Iterator>::next") or c == "core::iter::traits::iterator::Iterator::next"):
                if args[0][0] == "ref":
                    s2 = I.write(st, args[0][1], ("abs", "childiter", a0[2], 1))
                else:
                    s2 = st
                return [(OK, none(), st), (OK, some(("abs", "child", a0[2])), s2)]
        if c == "alloc::slice::<impl [T]>::join" or c.endswith("::join"):
            return [(OK, ("abs", "string"), st)]
        return rp.Mod.extra_intrinsic(self, I, c, args, st, n)


class WireMod:
    """lex(text) must hand exactly `text` to the lexer: Lexer{input: text.chars().peekable()}, collected through next_token"""
    def intrinsic(self, I, callee, args, st, n):
        a = [I.deref_val(st, x) for x in args]
        if callee == "core::str::<impl str>::chars":
            return [(OK, ("abs", "chars", a[0]), st)]
        if callee == "core::iter::traits::iterator::Iterator::peekable":
            return [(OK, ("abs", "peekable", a[0]), st)]
        if callee == "core::iter::traits::iterator::Iterator::by_ref":
            return [(OK, args[0], st)]
        if callee == "core::iter::traits::iterator::Iterator::collect":
            return [(OK, ("abs", "collected", I.deep_deref(st, a[0], 0)), st)]
        if callee == rp.NEXT_TOKEN:
            return [(OK, ("abs", "next_token-of", I.deep_deref(st, a[0], 0)), st)]
        return None


def check_lexer_wiring(F, C):
    lexer_ty = "debian_control::relations::Lexer"
    want_lexer = ("struct", lexer_ty, (("input", ("abs", "peekable", ("abs", "chars", ("abs", "text")))),))
    f = F.fn(rp.LEX_FN)
    if C.ob("C09/anchor", rp.LEX_FN, f is not None, "not found"):
        I = hirai.Interp(F, WireMod())
        res = I.inline(f, [("abs", "text")], hirai.State(depth=0))
        got = [(ctl, v) for ctl, v, s in res]
        C.ob("C09/text-unmodified", "lex -> Lexer", got == [(OK, ("abs", "collected", want_lexer))],
             "lex(text) must collect the tokens of a Lexer reading exactly text.chars() (got %s; unmodelled calls %s)" % ([str(g)[:160] for g in got], sorted(I.unknown_calls)), f["sp"])
    k = "<debian_control::relations::Lexer<'_> as core::iter::traits::iterator::Iterator>::next"
    f = F.fn(k) or next((v for kk, v in F.fns.items() if kk.startswith("<debian_control::relations::Lexer") and kk.endswith("Iterator>::next")), None)
    if C.ob("C09/anchor", k, f is not None, "not found"):
        I = hirai.Interp(F, WireMod())
        st = hirai.State(depth=0).setroot(("T", "lx"), ("abs", "the-lexer"))
        res = I.inline(f, [("ref", (("T", "lx"),))], st)
        got = [(ctl, v) for ctl, v, s in res]
        C.ob("C09/text-unmodified", "Lexer::next = next_token", got == [(OK, ("abs", "next_token-of", ("abs", "the-lexer")))],
             "Iterator::next of the lexer must return next_token() unchanged (got %s)" % [str(g)[:120] for g in got], f["sp"])


def run(tier):
    F = facts.Facts()
    C = Check("C09", "proof", tier, "abstract interpretation: relation lexer per character class + token-cursor fixpoint of the relation parser over all token-kind sequences",
              ["rustc HIR/typeck", "rowan text()/builder contract", "hirai interpreter", "peek_past_ws summary validated on vectors of <= 3 tokens"])
    tab = rp.lexer_table(F)
    for kind, msg, sp in tab["problems"]:
        C.ob("C09/" + kind, msg, False, msg, sp)
    ncell = 0
    for cell in tab["cells"]:
        ch = cell["char"]
        name = lexer.cname(ch) if ch is not None else "EOF"
        outs = cell["outs"]
        if ch is None:
            C.ob("C09/lexer-eof", name, outs == {("none", 0)}, "at end of input next_token must return None without consuming (got %s)" % sorted(outs, key=str))
            continue
        ncell += 1
        ok = bool(outs)
        why = ""
        for o in outs:
            if o[0] != "tok":
                ok = False
                why = "outcome %s" % (o,)
                break
            _, kind, cnt, tf, pending = o
            if pending:
                ok, why = False, "a character was appended to the text but not consumed"
            elif tf[0] == "lit":
                if not (cnt == 1 and tf[1] == ch):
                    ok, why = False, "token %s prints %r but consumes %s character(s) starting with %r" % (kind, tf[1], cnt, ch)
            elif tf[0] == "run":
                if tf[1] not in ("head..", "run") or cnt == 0:
                    ok, why = False, "token %s: collected text does not start with the first consumed character (%s, consumed %s)" % (kind, tf[1], cnt)
            else:
                ok, why = False, "token text of unknown provenance %s" % (tf,)
        C.ob("C09/lexer-partition", name, ok, why or "no token produced", rp.NEXT_TOKEN)
    C.floor("C09/lexer-cells", ncell, 131, "relation lexer character classes")
    kinds = rp.lexer_kinds(tab)
    C.extra["lexer_kinds"] = kinds
    (S, nval), probs = rp.validate_peek_past_ws(F, kinds)
    for p in probs:
        C.ob("C09/peek-summary", p[:100], False, p, rp.PEEK_PAST_WS)
    C.ob("C09/peek-summary", "peek_past_ws == first kind outside %s" % sorted(S or []), S is not None and not probs, "validated on %s token vectors" % nval, rp.PEEK_PAST_WS)

    U = tokcursor.Universal(kinds)
    mod = Mod(F, U, False, summaries={rp.PEEK_PAST_WS: ("peek_skipping", S or frozenset(), "tokens")})
    I = tokcursor.LoopProgressInterp(F, mod, max_depth=14)
    reported = set()
    for mode, key, args in ENTRIES:
        f = F.fn(key)
        if not C.ob("C09/anchor", key, f is not None, "entry point not found"):
            continue
        mod.lexed, mod.parsed = [], []
        I.steps = 0
        try:
            outs = I.inline(f, args, hirai.State(depth=0))
        except hirai.Violation as e:
            C.ob("C09/analysis", key, False, "analysis did not converge: %s" % e)
            continue
        short = mode
        for (rule, inst), (r, i, detail, loc) in sorted(mod.findings.items()):
            if (rule, inst) in reported:
                continue
            reported.add((rule, inst))
            C.ob("C09/" + rule, inst, False, detail, loc)
        for rule in ("O-conserve", "O-balance", "O-progress"):
            bad = [k for k in mod.findings if k[0].startswith(rule)]
            C.ob("C09/%s-all-paths" % rule, short, not bad, "%d findings" % len(bad), f["sp"])
        C.note("parser-runs", "%s: %d outcomes, %d steps, %d loop-head states, consume=%d emit=%d" % (short, len(outs), I.steps, I.states_seen, mod.stats["consume"], mod.stats["emit"]))
        if mod.lexed or mode.startswith("relaxed"):
            C.ob("C09/text-unmodified", short + " -> lexer", set(mod.lexed) <= {("abs", "text")}, "lex() is called on %s" % sorted(map(str, set(mod.lexed))), f["sp"])
        want_sub = ("bool", mode == "relaxed+substvar")
        if mod.parsed:
            C.ob("C09/text-unmodified", short + " -> parse", set(mod.parsed) == {(("abs", "text"), want_sub)},
                 "parse() is called with %s, expected (text, allow_substvar=%s)" % (sorted(map(str, set(mod.parsed))), want_sub[1]), f["sp"])
        n_ok = n_err = 0
        for ctl, v, s in outs:
            err = bool(s.mon.get("err_parse", s.mon.get("err")))     # errors recorded by parse() itself
            if ctl == PANIC:
                C.ob("C09/O-bump", "%s: panic reachable %s" % (short, str(v)[:120]), False, "a panic is reachable on some token sequence: %s" % (v,))
                continue
            if ctl != OK:
                C.ob("C09/outcome", "%s: control %s" % (short, ctl), False, str(v)[:200])
                continue
            if mode.startswith("relaxed"):
                ok = v[0] == "tuple" and len(v[1]) == 2
                if ok:
                    root, errs = v[1]
                    n_ok += 1
                    C.ob("C09/relaxed-errors-unfiltered", "%s: errors=%s list=%s" % (short, err, errs), errs == ("abs", "strvec", "many" if err else 0),
                         "tolerant reader returns %s while the parse recorded errors=%s" % (errs, err))
                    C.ob("C09/tree-from-parse", short, is_root(root), "returned field is not the mutable ROOT over the parse's green node: %s" % str(root)[:200])
                else:
                    C.ob("C09/outcome", "%s: value" % short, False, str(v)[:200])
            else:
                if v[0] == "enum" and v[1] == OKV:
                    n_ok += 1
                    C.ob("C09/strict-iff-no-errors", "%s: Ok with errors=%s" % (short, err), not err, "strict reader returns Ok although the parse recorded errors")
                    x = v[2][0]
                    if mode == "strict":
                        C.ob("C09/tree-from-parse", short, is_root(x), "Ok payload is not the mutable ROOT over the parse's green node: %s" % str(x)[:200])
                    else:
                        wantk = "ENTRY" if mode == "strict-entry" else "RELATION"
                        C.ob("C09/child-of-parse", short, x == ("abs", "child", wantk), "Ok payload %s is not a %s child of the parsed tree" % (str(x)[:100], wantk))
                elif v[0] == "enum" and v[1] == ERRV:
                    n_err += 1
                    if mode == "strict":
                        C.ob("C09/strict-iff-no-errors", "%s: Err with errors=%s" % (short, err), err, "strict reader fails although the tolerant parse recorded no error")
                else:
                    C.ob("C09/outcome", "%s: value" % short, False, str(v)[:200])
        C.ob("C09/outcomes-covered", short, n_ok >= 1 and (mode.startswith("relaxed") or n_err >= 1), "ok=%d err=%d" % (n_ok, n_err))
    if I.unknown_calls:
        C.note("unreviewed-external-callees", sorted(I.unknown_calls))
    check_lexer_wiring(F, C)
    # Display
    for t in ("Relations", "Entry", "Relation"):
        k = "<%s%s as core::fmt::Display>::fmt" % (PFX, t)
        f = F.fn(k)
        if not C.ob("C09/anchor", k, f is not None, "Display impl not found"):
            continue
        ws = [c for c in facts.calls(f["body"]) if facts.callee(c) == "core::fmt::Formatter::<'a>::write_str"]
        ok = len(ws) == 1 and any(x.get("k") == "MCall" and (x.get("def") or "").endswith("SyntaxNode::<L>::text") and
                                  facts.peel(x["recv"]).get("k") == "Field" and facts.is_local(facts.peel(x["recv"])["e"], "self")
                                  for x in facts.walk(ws[0]))
        fm = [x for x in facts.walk(f["body"]) if x.get("k") == "Fmt"]
        if fm and not ok:
            p = fm[0]["p"]
            ok = len(fm) == 1 and len(p) == 1 and isinstance(p[0], dict) and any((x.get("def") or "").endswith("SyntaxNode::<L>::text") for x in facts.walk(p[0]))
        C.ob("C09/display-is-text", t, ok, "Display must write exactly the syntax node's text", f["sp"])
        import rowanmodel
        ok2, det = rowanmodel.display_writes_text(F, k)
        C.ob("C09/display-is-text", t + " (interpreted)", ok2, det, f["sp"])
    C.assumptions += ["rowan text() = concatenation of builder.token texts", "peek_past_ws behaves as its summary beyond 3 tokens (uniform loop; validated exhaustively up to 3)"]
    return C.finish("Lexer: next_token is interpreted for 131 character classes (one known first character, unknown followers) with a monitor that every consumed character is appended. "
                    "Parser: fixpoint over all kind sequences for 5 entry points; conservation/order/balance/progress monitors; strict/tolerant agreement read off the outcome states.")


def is_root(x):
    return (x[0] == "enum" or x[0] == "struct") and "Relations" in x[1] and "syntax-mut" in str(x) and "'ROOT'" in str(x) or \
           (x[0] == "abs" and x[1] == "syntax-mut" and x[3] == "ROOT")
