"""C10 - well-formed relationship fields are read exactly as written, by both readers.

A family of relationship fields is generated from structured models (every optional part, epochs, negated
architectures, multi-term profile groups, alternatives, empty entries, trailing comma, substvars) in four whitespace
styles (tight / canonical / loose / newlines around separators).  For each field:
  - the repository's lossless parser is interpreted on the token sequence (no error may be recorded) and the accessors
    entries / relations / name / archqual / version / architectures / profiles / substvars are interpreted on the
    resulting tree and compared with the model,
  - the lossy Relation reader is interpreted on each relation's tokens and the lossy Relations reader's splitting on
    the field, and the resulting values are compared with the model.
Token texts of names are concrete so that orderings are decidable; this is a bounded generator-with-oracle check
carried out inside the abstract interpreter (no repository code is executed)."""
import itertools
import facts, hirai, symstr, treemodel, docbuild as db, relspec, roundtrip, lossyrel_parse as lr, relations_parse as rp, tokcursor
from relspec import rel
from hirai import OK, PANIC, SOME, NONE, OKV, ERRV, some, none, unk
from report import Check

PFX = "debian_control::lossless::relations::"
VCP = "debian_control::relations::VersionConstraint::"
BP = "debian_control::relations::BuildProfile::"

RELS = [
    rel("a"),
    rel("pkg-b", archqual="any"),
    rel("c", version=(">=", "1.0")),
    rel("d", version=("<<", "1:2.0~rc1-1")),
    rel("e", version=("=", "3")),
    rel("f", version=(">>", "2:1")),
    rel("g", version=("<=", "0.9+dfsg")),
    rel("h", archs=[(False, "amd64")]),
    rel("i", archs=[(True, "amd64"), (True, "i386")]),
    rel("j", archs=[(False, "linux-any"), (False, "kfreebsd-any")]),
    rel("k", profiles=[[(True, "nocheck")]]),
    rel("l", profiles=[[(False, "cross"), (True, "nodoc")], [(False, "stage1")]]),
    rel("m", archqual="native", version=(">=", "1:4.2-1"), archs=[(True, "hurd-i386"), (False, "any")], profiles=[[(True, "nocheck"), (False, "x")], [(True, "y")]]),
]
FIELDS = [
    ([[RELS[0]]], False, ()),
    ([[RELS[1]], [RELS[2], RELS[3]]], False, ()),
    ([[RELS[4], RELS[5], RELS[6]]], True, ()),
    ([[RELS[7]], [], [RELS[8]]], False, ()),
    ([[RELS[9], RELS[10]], [RELS[11]]], False, ()),
    ([[RELS[12]], [RELS[0]]], True, ()),
    ([[RELS[0]]], False, ("misc:Depends",)),
    ([[RELS[2]], [RELS[10]]], False, ("shlibs:Depends", "misc:Depends")),
    ([[RELS[0]]], True, ("python3:any:Depends", "plain")),
    ([], False, ()),
]
STYLES = ["tight", "canonical", "loose", "newlines", "tabs", "wrapped"]


def combo_fields(tier):
    """every combination of optional parts of one relation (qualifier x operator/epoch x architecture shapes x
    profile shapes), placed alone, as second alternative and as second entry"""
    quals = [None, "any"]
    vers = [None] + [(op, v) for op in relspec.OPS for v in ("1.0", "2:1.0~rc1+b1-1")]
    archs = [None, [(False, "amd64")], [(True, "amd64")], [(True, "amd64"), (True, "i386")], [(False, "linux-any"), (False, "any-i386")]]
    profs = [(), ([(False, "cross")],), ([(True, "nocheck")],), ([(False, "cross"), (True, "nodoc")],), ([(True, "a"), (True, "b")], [(False, "stage1")])]
    out = []
    i = 0
    for q in quals:
        for v in vers:
            for a in archs:
                for p in profs:
                    i += 1
                    if tier != "thorough" and not (i % 3 == 0 or (v and a and p)):
                        continue
                    r = rel("x%d" % (i % 7), archqual=q, version=v, archs=a, profiles=p)
                    place = i % 3
                    ents = [[r]] if place == 0 else ([[RELS[0], r]] if place == 1 else [[RELS[2]], [r]])
                    out.append((ents, i % 5 == 0, ()))
    return out


class AccMod(treemodel.TreeMod):
    """accessor interpretation: opaque Version parsing"""

    def intrinsic(self, I, callee, args, st, n):
        if callee == "core::str::<impl str>::parse" and "debversion::Version" in (n.get("ty", "") if isinstance(n, dict) else ""):
            v = I.deref_val(st, args[0])
            if v[0] in ("sstr", "str"):
                return [(OK, ("enum", OKV, (roundtrip.normalize(v),)), st)]
        if callee == "<debversion::Version as core::str::traits::FromStr>::from_str":
            v = I.deref_val(st, args[0])
            if v[0] in ("sstr", "str"):
                return [(OK, ("enum", OKV, (roundtrip.normalize(v),)), st)]
        return super().intrinsic(I, callee, args, st, n)


def symtext(t):
    """how a component text reads back when its IDENT pieces are atoms: '1:2.0' -> '<1>:<2.0>'"""
    return ":".join("<%s>" % p for p in t.split(":"))


def symrel(r):
    return {"name": symtext(r["name"]), "archqual": symtext(r["archqual"]) if r["archqual"] else None,
            "version": (r["version"][0], symtext(r["version"][1])) if r["version"] else None,
            "archs": [(n, symtext(a)) for n, a in r["archs"]] if r["archs"] is not None else None,
            "profiles": [[(n, symtext(p)) for n, p in g] for g in r["profiles"]]}


def lit(x):
    return symstr.show(x) if isinstance(x, tuple) and x and x[0] in ("sstr", "str") else None


def read_relation_via_accessors(F, I, tm, st, relv):
    """interpret the accessors on a Relation value; returns a model dict or an error string"""
    def call(fn):
        s, p = I.newtemp(st, relv)
        return I.inline(F.fn(PFX + "Relation::" + fn), [("ref", p)], s)
    out = {}
    r = call("name")
    if len(r) != 1 or r[0][0] != OK:
        return "name(): %s" % [(c, str(v)[:60]) for c, v, s in r]
    out["name"] = lit(I.deref_val(r[0][2], r[0][1]))
    r = call("archqual")
    if len(r) != 1 or r[0][0] != OK:
        return "archqual(): %d outcomes" % len(r)
    v = I.deref_val(r[0][2], r[0][1])
    out["archqual"] = lit(I.deref_val(r[0][2], v[2][0])) if v[0] == "enum" and v[1] == SOME else None
    r = call("version")
    if len(r) != 1 or r[0][0] != OK:
        return "version(): %s" % [(c, str(v)[:80]) for c, v, s in r]
    v = I.deref_val(r[0][2], r[0][1])
    if v[0] == "enum" and v[1] == SOME:
        t = I.deref_val(r[0][2], v[2][0])
        vc, ver = t[1]
        vc = I.deref_val(r[0][2], vc)
        op = {w: k for k, w in relspec.VC.items()}.get(vc[1].rsplit("::", 1)[-1]) if vc[0] == "enum" else "?"
        out["version"] = (op, lit(I.deref_val(r[0][2], ver)))
    else:
        out["version"] = None
    r = call("architectures")
    if len(r) != 1 or r[0][0] != OK:
        return "architectures(): %d outcomes" % len(r)
    v = I.deref_val(r[0][2], r[0][1])
    if v[0] == "enum" and v[1] == SOME:
        it = I.deref_val(r[0][2], v[2][0])
        items = None
        if it[0] == "abs" and it[1] == "siter":
            items = list(it[2][it[3]:])
        elif it[0] == "abs":
            d = tm.drain(I, r[0][2], it, {})
            items = d[0][0] if len(d) == 1 else None
        if items is None:
            return "architectures(): undecidable iterator %s" % str(it)[:80]
        archs = []
        for x in items:
            s_ = lit(I.deref_val(r[0][2], x))
            archs.append((True, s_[1:]) if s_ and s_.startswith("!") else (False, s_))
        out["archs"] = archs
    else:
        out["archs"] = None
    r = call("profiles")
    if len(r) != 1 or r[0][0] != OK:
        return "profiles(): %d outcomes" % len(r)
    it = I.deref_val(r[0][2], r[0][1])
    groups = None
    if it[0] == "abs" and it[1] in ("siter", "svec"):
        groups = list(it[2][it[3]:]) if it[1] == "siter" else list(it[2])
    elif it[0] == "abs":
        d = tm.drain(I, r[0][2], it, {})
        groups = d[0][0] if len(d) == 1 else None
    if groups is None:
        return "profiles(): undecidable %s" % str(it)[:80]
    out["profiles"] = []
    for g in groups:
        g = I.deref_val(r[0][2], g)
        terms = list(g[2]) if g[0] == "abs" and g[1] == "svec" else (list(g[2][g[3]:]) if g[0] == "abs" and g[1] == "siter" else None)
        if terms is None:
            return "profiles(): group %s" % str(g)[:80]
        gg = []
        for t in terms:
            t = I.deref_val(r[0][2], t)
            if t[0] == "enum" and t[1].startswith(BP):
                gg.append((t[1].endswith("Disabled"), lit(I.deref_val(r[0][2], t[2][0]))))
            else:
                gg.append(("?", str(t)[:40]))
        out["profiles"].append(gg)
    return out


def lossy_model(I, s, v):
    """lossy Relation struct -> model dict"""
    v = I.deep_deref(s, I.deref_val(s, v), 0)
    if v[0] != "struct":
        return "not a struct: %s" % str(v)[:80]
    d = dict(v[2])
    out = {"name": lit(d.get("name")), "archqual": None, "version": None, "archs": None, "profiles": []}
    a = d.get("archqual")
    if a and a[0] == "enum" and a[1] == SOME:
        out["archqual"] = lit(a[2][0])
    ver = d.get("version")
    if ver and ver[0] == "enum" and ver[1] == SOME:
        vc, vv = ver[2][0][1]
        op = {w: k for k, w in relspec.VC.items()}.get(vc[1].rsplit("::", 1)[-1]) if vc[0] == "enum" else "?"
        out["version"] = (op, lit(vv))
    ar = d.get("architectures")
    if ar and ar[0] == "enum" and ar[1] == SOME:
        xs = ar[2][0]
        out["archs"] = []
        for x in (xs[2] if xs[0] == "abs" else ()):
            s_ = lit(x)
            out["archs"].append((True, s_[1:]) if s_ and s_.startswith("!") else (False, s_))
    pr = d.get("profiles")
    if pr and pr[0] == "abs":
        for g in pr[2]:
            gg = []
            for t in (g[2] if g[0] == "abs" else ()):
                if t[0] == "enum":
                    gg.append((t[1].endswith("Disabled"), lit(t[2][0])))
            out["profiles"].append(gg)
    return out


def run(tier):
    F = facts.Facts()
    hirai.INT_BOUND = 64
    C = Check("C10", "other", tier, "abstract interpretation of the repository's relation parsers and accessors on generated well-formed fields (structured models x whitespace styles) and comparison with the model (generator with oracle, inside the interpreter)",
              ["rustc HIR/typeck", "hirai", "rowan model", "reference grammar in rules/relspec.py (Debian Policy 7.1)", "debversion::Version::from_str accepts the generated version strings"])
    rtab = rp.lexer_table(F)
    lit_text = {}
    for cell in rtab["cells"]:
        for o in cell["outs"]:
            if o[0] == "tok" and o[3][0] == "lit" and o[1] not in ("ERROR",):
                lit_text[o[1]] = o[3][1]
    # lexical clause: every character the Policy grammar allows inside names / versions / architectures / profiles /
    # substvar names starts and continues an IDENT run; every separator is its own one-character token
    cells = {c["char"]: c["outs"] for c in rtab["cells"]}
    want_kind = {}
    for ch in "abcdefghijklmnopqrstuvwxyzABCDEFGHIJKLMNOPQRSTUVWXYZ0123456789+.-~":
        want_kind[ch] = "IDENT"
    want_kind.update({" ": "WHITESPACE", "\t": "WHITESPACE", "\n": "NEWLINE"})
    for k, t in db.REL_LIT.items():
        want_kind[t] = k
    nlex = 0
    for ch, k in sorted(want_kind.items()):
        outs = cells.get(ch)
        kinds = {o[1] for o in (outs or ()) if o[0] == "tok"}
        bad = [o for o in (outs or ()) if o[0] != "tok"]
        nlex += 1
        C.ob("C10/lexer-class", "%r -> %s" % (ch, k), outs is not None and kinds == {k} and not bad,
             "the relation lexer turns %r into %s" % (ch, sorted(map(str, outs or ()))), F.fn(rp.NEXT_TOKEN)["sp"] if F.fn(rp.NEXT_TOKEN) else "")
        if k in ("IDENT", "WHITESPACE"):
            C.ob("C10/lexer-run", "%r continues a %s run" % (ch, k), any(o[0] == "tok" and o[2] == "many" for o in outs or ()),
                 "a sequence of %r is not lexed as one %s token" % (ch, k), F.fn(rp.NEXT_TOKEN)["sp"] if F.fn(rp.NEXT_TOKEN) else "")
    C.floor("C10/lexer-classes", nlex, 80, "grammar characters checked against the extracted lexer table")
    n = 0
    n_rel = 0
    allfields = FIELDS + combo_fields(tier)
    for fi, (entries, trailing, svars) in enumerate(allfields):
        if fi < len(FIELDS):
            styles = STYLES if tier == "thorough" or fi % 2 == 0 else ["canonical", "newlines", "wrapped"]
        else:
            styles = STYLES if tier == "thorough" else [STYLES[fi % len(STYLES)], STYLES[(fi // 2 + 3) % len(STYLES)]]
        for style in styles:
            # component texts are symbolic atoms (arbitrary IDENT strings) except in every fourth field, which keeps
            # concrete representatives
            sym = (fi % 4 != 1)
            toks = relspec.field_tokens(entries, style, trailing, svars, sym=sym)
            text = db.text_of_tokens(toks)
            label = "field %d (%s): %r" % (fi, style, text)
            n += 1
            # the generator itself must be consistent with the reference reader
            try:
                ref_entries, ref_svars = relspec.read_field(relspec.relex(toks))
            except relspec.NotWellFormed as e:
                C.ob("C10/generator", label, False, "generator/reference mismatch: %s" % e)
                continue
            want_entries = [[symrel(r) if sym else r for r in e] for e in entries if e]
            C.ob("C10/generator", label, ref_entries == want_entries and ref_svars == list(svars), "reference reader gives %s" % (ref_entries,))
            rels, errs, st, mod = db.parse_relations(F, toks, allow_substvar=bool(svars))
            if rels is None:
                C.ob("C10/lossless-accepts", label, False, "the parser has several outcomes / does not finish on this token sequence", F.fn(rp.PARSE_FN)["sp"])
                continue
            C.ob("C10/lossless-accepts", label, errs == ("abs", "strvec", 0), "the lossless reader records a syntax error on a well-formed field", F.fn(rp.PARSE_FN)["sp"])
            if errs != ("abs", "strvec", 0):
                continue
            tm = AccMod(F, rp.KIND)
            I = hirai.Interp(F, tm, max_depth=18)
            I.max_recursion = 8
            s0 = hirai.State({}, dict(st.mon), 0)
            h = treemodel.heap_get(s0)
            root = rels[2][0][2]
            C.ob("C10/text-preserved", label, symstr.show(symstr.mk(tm.text_of(h, root))) == text, "tree text differs from the input")
            # structure through the accessors
            s1, p = I.newtemp(s0, rels)
            r = I.inline(F.fn(PFX + "Relations::entries"), [("ref", p)], s1)
            got_entries = None
            if len(r) == 1 and r[0][0] == OK:
                d = tm.drain(I, r[0][2], I.deref_val(r[0][2], r[0][1]), {})
                if len(d) == 1 and d[0][0] is not None:
                    got_entries = []
                    for ev in d[0][0]:
                        s2, pe = I.newtemp(d[0][1], ev)
                        rr = I.inline(F.fn(PFX + "Entry::relations"), [("ref", pe)], s2)
                        alts = []
                        if len(rr) == 1 and rr[0][0] == OK:
                            dd = tm.drain(I, rr[0][2], I.deref_val(rr[0][2], rr[0][1]), {})
                            if len(dd) == 1 and dd[0][0] is not None:
                                for rv in dd[0][0]:
                                    alts.append(read_relation_via_accessors(F, I, tm, dd[0][1], rv))
                                    n_rel += 1
                        got_entries.append(alts)
            got_nonempty = [e for e in (got_entries or []) if e]
            C.ob("C10/lossless-structure", label, got_nonempty == want_entries,
                 "accessors report %s, the field was written as %s" % (got_nonempty, want_entries), F.fn(PFX + "Relations::entries")["sp"])
            if svars:
                s1, p = I.newtemp(s0, rels)
                r = I.inline(F.fn(PFX + "Relations::substvars"), [("ref", p)], s1)
                got_sv = None
                if len(r) == 1 and r[0][0] == OK:
                    d = tm.drain(I, r[0][2], I.deref_val(r[0][2], r[0][1]), {})
                    if len(d) == 1 and d[0][0] is not None:
                        got_sv = [lit(I.deref_val(d[0][1], x)) for x in d[0][0]]
                C.ob("C10/lossless-substvars", label, got_sv == ["${%s}" % s for s in svars], "substvars() reports %s, written %s" % (got_sv, list(svars)), F.fn(PFX + "Relations::substvars")["sp"])
            # lossy reader, relation by relation (its field reader splits the text on ',' and '|')
            if not svars:
                for e0 in [e for e in entries if e]:
                    for rl0 in e0:
                        rl = symrel(rl0) if sym else rl0
                        for rstyle in ((style,) if style != "newlines" else ("canonical",)):
                            rtoks = relspec.rel_tokens(rl0, rstyle, sym)
                            lmod = lr.Mod(F, db.seq_dfa([k for k, t in rtoks]), lit_text=lit_text, vec_cap=8)
                            lmod.tokens = rtoks
                            LI = tokcursor.LoopProgressInterp(F, lmod, max_depth=16)
                            res = LI.inline(F.fn(lr.ENTRY_KEY), [("abs", "text")], hirai.State(depth=0))
                            outs = []
                            for ctl, v, s in res:
                                if ctl == OK and v[0] == "enum" and v[1] == OKV:
                                    outs.append(lossy_model(LI, s, v[2][0]))
                                else:
                                    outs.append("%s %s" % (ctl, roundtrip.show_value(LI.deref_val(s, v))[:100]))
                            C.ob("C10/lossy-structure", "relation %r (%s)" % (db.text_of_tokens(rtoks), rstyle), outs == [rl],
                                 "the lossy reader yields %s, written %s" % (outs, rl), F.fn(lr.ENTRY_KEY)["sp"])
            if len(C.samples) < 6:
                C.sample({"field": text, "style": style, "entries": str(want_entries)[:300]})
    C.note("counts", "%d fields, %d relations read through the accessors" % (n, n_rel))
    C.floor("C10/fields", n, 400, "generated fields")
    C.floor("C10/relations", n_rel, 600, "relations read through the accessors")
    check_lossy_field_split(F, C)
    C.assumptions += ["bounded generator: 13 relation shapes, 9 field shapes, 4 whitespace styles; names/versions are concrete strings", "debversion::Version::from_str accepts the generated versions and keeps their text",
                      "the lossy field reader's use of str::split(',' / '|') + trim is interpreted symbolically on the same fields"]
    return C.finish("Generated well-formed fields are pushed through the interpreted lossless parser (no error allowed) and every accessor is interpreted on the resulting tree and compared with the generating model "
                    "(entries, alternatives, names, qualifiers, operators, versions incl. epochs, architecture lists with negations, profile groups, substvars); the lossy relation reader is interpreted on each relation's tokens and compared likewise.")


def check_lossy_field_split(F, C):
    """lossy Relations::from_str splits on ',' and '|', trims, skips empty entries and parses each relation"""
    f = F.fn(lr.RELS_KEY)
    if not C.ob("C10/anchor", lr.RELS_KEY, f is not None, "not found"):
        return

    class SM(roundtrip.RTMod):
        def __init__(self, facts):
            super().__init__(facts)
            self.parsed = []

        def intrinsic(self, I, callee, args, st, n):
            if callee == "core::str::<impl str>::parse":
                v = I.deref_val(st, args[0])
                self.parsed.append(symstr.show(v))
                return [(OK, ("enum", OKV, (("abs", "rel", symstr.show(v)),)), st)]
            if callee == "core::iter::traits::iterator::Iterator::collect" and (n.get("ty", "") if isinstance(n, dict) else "").startswith("core::result::Result<"):
                a0 = I.deref_val(st, args[0])
                if a0[0] == "abs" and a0[1] == "siter":
                    vals = []
                    for it in a0[2][a0[3]:]:
                        if it[0] == "enum" and it[1] == OKV:
                            vals.append(it[2][0])
                        else:
                            return [(OK, it, st)]
                    return [(OK, ("enum", OKV, (("abs", "svec", tuple(vals)),)), st)]
            return super().intrinsic(I, callee, args, st, n)
    cases = {
        "a, b | c ,d": [["a"], ["b", "c"], ["d"]],
        "a,\n b |\n c,": [["a"], ["b", "c"]],
        "": [],
        "a, , b": [["a"], ["b"]],
    }
    for text, want in cases.items():
        mod = SM(F)
        I = hirai.Interp(F, mod, max_depth=12)
        res = I.inline(f, [symstr.lit(text)], hirai.State(depth=0))
        got = []
        for ctl, v, s in res:
            v = I.deep_deref(s, I.deref_val(s, v), 0)
            if ctl == OK and v[0] == "enum" and v[1] == OKV:
                inner = v[2][0]
                vec = inner[2][0] if inner[0] in ("enum", "struct") and inner[2] else inner
                if isinstance(vec, tuple) and vec and vec[0] == "0":
                    vec = vec[1]
                if inner[0] == "struct":
                    vec = dict(inner[2]).get("0")
                got.append([[x[2] for x in e[2]] for e in vec[2]] if vec and vec[0] == "abs" else str(inner)[:80])
            else:
                got.append("%s %s" % (ctl, str(v)[:80]))
        C.ob("C10/lossy-field-split", "lossy Relations::from_str(%r)" % text, got == [want], "splits into %s, expected %s" % (got, want), f["sp"])
