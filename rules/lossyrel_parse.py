"""analysis of the lossy relation reader (debian-control/src/lossy/relations.rs Relation::from_str)."""
import hirai, tokcursor, symstr, roundtrip, relations_parse as rp
from hirai import OK, RET, PANIC, OKV, ERRV, SOME, NONE, some, none, unk, UNIT

ENTRY_KEY = "<debian_control::lossy::relations::Relation as core::str::traits::FromStr>::from_str"
RELS_KEY = "<debian_control::lossy::relations::Relations as core::str::traits::FromStr>::from_str"


class Mod(tokcursor.CursorMod):
    mon_conserve = False

    def __init__(self, facts, oracle, lit_text=None, ident_atoms=False, vec_cap=0):
        tokcursor.CursorMod.__init__(self, facts, oracle, rp.KIND, {rp.LEX_FN: "vecfwd"}, rp.COMPOSITE)
        self.rt = roundtrip.RTMod(facts)
        self.rt.vec_cap = vec_cap
        self.rt.str_cap = 3
        self.keep_pending = bool(lit_text or ident_atoms)
        self.lit_text = lit_text or {}
        self.ident_atoms = ident_atoms
        self.lexed = []

    tokens = None

    def token_text(self, k, role, peek=False):
        if self.tokens is not None and isinstance(role, int) and role < len(self.tokens):
            return self.tokens[role][1]
        if k in self.lit_text:
            return ("str", self.lit_text[k])
        if self.ident_atoms and k == "IDENT":
            return symstr.atom(role or "ident", "word")
        return ("abs", "toktext-peek" if peek else "toktext", k)

    def intrinsic(self, I, callee, args, st, n):
        if callee == rp.LEX_FN:
            self.lexed.append(I.deref_val(st, args[0]))
        r = tokcursor.CursorMod.intrinsic(self, I, callee, args, st, n)
        if r is None:
            return None
        if self.lit_text or self.ident_atoms or self.tokens is not None:
            # replace opaque token texts by literal / atom texts
            out = []
            for ctl, v, s in r:
                out.append((ctl, self.retext(v, s), s))
            return out
        return r

    def retext(self, v, s):
        if isinstance(v, tuple) and v and v[0] == "enum" and v[1] == SOME and v[2] and v[2][0][0] == "tuple":
            kv, tv = v[2][0][1]
            if tv[0] == "abs" and tv[1] in ("toktext", "toktext-peek"):
                k = tv[2]
                role = None
                if tv[1] == "toktext":
                    role = (s.mon.get("pending") or (None, None))[1]
                else:
                    for rec in s.store.values():
                        if isinstance(rec, tuple) and len(rec) > 4 and rec[0] == "abs" and rec[1] == "cursor" and rec[4]:
                            role = rec[4][1]
                return ("enum", SOME, (("tuple", (kv, self.token_text(k, role, tv[1] == "toktext-peek"))),))
        return v

    def extra_intrinsic(self, I, c, args, st, n):
        if c == "alloc::fmt::format":
            r = self.rt.intrinsic(I, c, args, st, n)
            if r is not None and all(x[1][0] != "unk" for x in r):
                return r
            return [(OK, ("abs", "string"), st)]
        return self.rt.intrinsic(I, c, args, st, n)

    def abs_equal(self, I, a, b):
        return self.rt.abs_equal(I, a, b)
