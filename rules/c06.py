"""C06 - the lossy and the lossless deb822 readers agree on content; both accept well-formed documents.

D1 same lexer: both readers hand the caller's text, unmodified, to lex::lex.
D2 joint acceptance: product of each reader's token-cursor interpretation with the well-formed token grammar:
   no error / Err / panic is reachable.
D3 same reading of every grammar role: in those products each field name opens exactly one field, each value
   line is added to that field (lossless: VALUE token under the field's ENTRY, value() joins VALUE texts by
   newline - C03; lossy: value text appended with a newline between lines, nothing else appended, nothing
   dropped), paragraphs end exactly at blank lines, the last paragraph is kept."""
import facts, hirai, tokcursor, deb822_parse, lossy_parse as lp
from hirai import OK, RET, PANIC, OKV, ERRV
from report import Check

LOSSLESS = "<deb822_lossless::lossless::Deb822 as core::str::traits::FromStr>::from_str"


class LexWatch:
    pass


def run(tier):
    F = facts.Facts()
    C = Check("C06", "other", tier, "model checking of both readers' token-cursor interpretations in product with the same role-annotated well-formed token grammar (sibling cross-check)",
              ["rustc HIR/typeck", "hirai interpreter", "well-formed token grammar oracle (rules/deb822_parse.py)"])
    wf = deb822_parse.wellformed_dfa()
    # C06 quantifies over every text both readers accept: add the indented-comment line form (" #x"), which both
    # readers deliberately treat as a comment inside a multi-line value (outside C03's domain, inside C06's).
    wf.trans["I"]["COMMENT"] = ("IC", "cont-comment")
    wf.trans["IC"] = {"NEWLINE": ("L", "field-nl")}
    wf.accepting.add("IC")
    need = {"key-first", "key-next", "value", "para-comment", "top-comment", "blank-sep", "indent", "colon-ws", "field-nl"}
    # ---- lossy
    f = F.fn(lp.ENTRY_KEY)
    if C.ob("C06/anchor", lp.ENTRY_KEY, f is not None, "lossy reader not found"):
        mod = lp.Mod(F, wf, True)
        lexed = []
        orig = mod.intrinsic

        def watch(I, callee, args, st, n, orig=orig):
            if callee in mod.lex_fns:
                lexed.append(I.deref_val(st, args[0]))
            return orig(I, callee, args, st, n)
        mod.intrinsic = watch
        I = tokcursor.LoopProgressInterp(F, mod, max_depth=14)
        try:
            outs = I.inline(f, [("abs", "text")], hirai.State(depth=0))
        except hirai.Violation as e:
            outs = []
            C.ob("C06/analysis", "lossy", False, str(e))
        for (rule, inst), (r, i, detail, loc) in sorted(mod.findings.items()):
            C.ob("C06/" + rule, "lossy: " + inst, False, detail, loc)
        C.ob("C06/lossy-structure-all-paths", "lossy reader", not mod.findings, "%d findings" % len(mod.findings), f["sp"])
        C.ob("C06/same-lexer", "lossy reader -> lex::lex(text)", set(lexed) == {("abs", "text")}, "lexer input: %s" % sorted(map(str, set(lexed))), f["sp"])
        nok = 0
        for ctl, v, s in outs:
            if ctl == OK and v[0] == "enum" and v[1] == OKV:
                nok += 1
                fp = s.mon.get("fields_in_para", 0)
                C.ob("C06/lossy-last-paragraph", "Ok outcome with open fields=%s" % fp, fp == 0, "the reader returns while fields of the last paragraph have not been recorded as a paragraph")
                C.ob("C06/lossy-complete", "Ok outcome pending field=%s value=%s" % (s.mon.get("need_field"), s.mon.get("need_value")), not s.mon.get("need_field") and not s.mon.get("need_value"),
                     "a consumed field name / value line was never recorded")
            else:
                C.ob("C06/lossy-accepts", "outcome %s %s" % (ctl, str(v)[:100]), False, "the lossy reader does not return Ok on a well-formed token sequence")
        C.ob("C06/lossy-accepts", "lossy reader", nok >= 1, "no Ok outcome")
        C.ob("C06/oracle-coverage", "lossy", need <= set(mod.roles_seen), "roles not reached: %s" % sorted(need - set(mod.roles_seen)))
        C.note("product-runs", "lossy: %d outcomes, %d steps, %d loop states" % (len(outs), I.steps, I.states_seen))
        C.extra["states_lossy"] = I.states_seen
    # ---- lossless (same oracle, same roles)
    f2 = F.fn(LOSSLESS)
    if C.ob("C06/anchor", LOSSLESS, f2 is not None, "lossless reader not found"):
        mod2 = deb822_parse.Mod(F, wf, True)
        lexed2 = []
        orig2 = mod2.intrinsic

        def watch2(I, callee, args, st, n, orig2=orig2):
            if callee in mod2.lex_fns:
                lexed2.append(I.deref_val(st, args[0]))
            return orig2(I, callee, args, st, n)
        mod2.intrinsic = watch2
        I2 = tokcursor.LoopProgressInterp(F, mod2, max_depth=14)
        try:
            outs2 = I2.inline(f2, [("abs", "text")], hirai.State(depth=0))
        except hirai.Violation as e:
            outs2 = []
            C.ob("C06/analysis", "lossless", False, str(e))
        for (rule, inst), (r, i, detail, loc) in sorted(mod2.findings.items()):
            C.ob("C06/" + rule, "lossless: " + inst, False, detail, loc)
        C.ob("C06/lossless-structure-all-paths", "lossless reader", not mod2.findings, "%d findings" % len(mod2.findings), f2["sp"])
        C.ob("C06/same-lexer", "lossless reader -> lex::lex(text)", set(lexed2) == {("abs", "text")}, "lexer input: %s" % sorted(map(str, set(lexed2))), f2["sp"])
        bad = [(ctl, str(v)[:80]) for ctl, v, s in outs2 if not (ctl == OK and v[0] == "enum" and v[1] == OKV)]
        C.ob("C06/lossless-accepts", "lossless reader", not bad and outs2, "outcomes %s" % bad[:3])
        C.ob("C06/oracle-coverage", "lossless", need <= set(mod2.roles_seen), "roles not reached: %s" % sorted(need - set(mod2.roles_seen)))
        C.extra["states_lossless"] = I2.states_seen
    # lossy Paragraph::from_str = exactly one paragraph of the lossy document reader
    pk = "<deb822_lossless::lossy::Paragraph as core::str::traits::FromStr>::from_str"
    pf = F.fn(pk)
    if C.ob("C06/anchor", pk, pf is not None, "not found"):
        cs = [facts.callee(c) for c in facts.calls(pf["body"])]
        C.ob("C06/lossy-paragraph-reader", "lossy Paragraph::from_str", "core::str::<impl str>::parse" in cs or lp.ENTRY_KEY in cs, "must go through the lossy document reader (calls %s)" % [c.split("::")[-1] for c in cs], pf["sp"])
    # what the lossless side *reports* for the tokens it stored: the accessor pipelines (key/value/get/...) on all
    # short child sequences, with raw value texts (C03's engine under this property's prefix)
    import c03
    c03.check_accessors(F, C, rule_prefix="C06/lossless-accessors")
    # joint acceptance of well-formed *text*: the token-level products above assume the lexer tokenises every
    # well-formed line form as the grammar says (shared lexer: one table for both readers)
    c03.check_lexing(F, C, "C06/wellformed-lexing")
    C.assumptions += ["agreement is decided on well-formed documents (the oracle grammar); for arbitrary texts accepted by both readers only the shared lexer and the per-role reading are decided"]
    return C.finish("Both readers are explored in product with the same well-formed token grammar whose transitions carry roles (field name, value line, paragraph break...). "
                    "Monitors check that each reader reacts to every role in the way that yields the same paragraphs, names and value lines; Err/panic outcomes are violations.")
