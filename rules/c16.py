"""C16 - derived struct/paragraph conversions.

The *generated* impls (derive expansions are ordinary body owners in the using crate) of all
deriving structs are abstractly interpreted against an ordered list-of-pairs paragraph model:
  to_paragraph(v)            -> keys in declaration order, absent optionals omitted
  from_paragraph(to_paragraph(v)) == {Ok(v)}     (all-Some and all-None assignments)
  update_paragraph(v, p0)    -> only own keys set/removed, foreign field untouched, reads back v
  from_paragraph(empty)      -> Err naming the first mandatory field
Back-end independence: the impls are generic in P and the two Deb822LikeParagraph impls delegate
to the inherent get/set/remove of their type."""
import re
import facts, hirai, symstr, roundtrip
from roundtrip import show_value, normalize
from hirai import OK, RET, PANIC, OKV, ERRV, SOME, NONE, some, none, unk, UNIT
from report import Check

OPAQUE_TYPES = {
    "debian_control::lossy::relations::Relations": "relationship fields are parsed by the relation lexer (C14)",
    "debian_control::vcs::ParsedVcs": "regex based free-text codec (C18 undecided)",
    "debversion::Version": "external", "url::Url": "external", "chrono::naive::date::NaiveDate": "external",
    "std::path::PathBuf": "external",
}
FLOOR_STRUCTS = 12
FLOOR_FIELDS = 158


class Mod(roundtrip.RTMod):
    def __init__(self, facts):
        super().__init__(facts)
        for t in OPAQUE_TYPES:
            self.fromstr_impls.pop(t, None)
            self.display_impls.pop(t, None)
        self.ops = []

    def parse_to(self, I, st, sv, ty, n):
        # an atom of class 'garbage' is a text no external parser accepts (String takes anything)
        p = symstr.pieces_of(sv) if isinstance(sv, tuple) and sv and sv[0] in ("sstr", "str") else None
        if p is not None and any(x[0] == "atom" and x[2] == "garbage" for x in p):
            if ty == "alloc::string::String":
                return [(OK, ("enum", OKV, (sv,)), st)]
            if ty not in self.fromstr_impls:
                return [(OK, ("enum", ERRV, (symstr.atom("parse-error", "word"),)), st)]
        return super().parse_to(I, st, sv, ty, n)

    def para_pairs(self, I, st, v):
        v = I.deref_val(st, v)
        if v[0] == "abs" and v[1] == "para":
            return v[2]
        return None

    def intrinsic(self, I, callee, args, st, n):
        c = callee
        if c.endswith("Deb822LikeParagraph::get"):
            pairs = self.para_pairs(I, st, args[0])
            key = I.deref_val(st, args[1])
            if pairs is None:
                return [(OK, unk("para.get"), st)]
            for k, v in pairs:
                e = hirai.str_equal(k, key)
                if e:
                    return [(OK, some(v), st)]
                if e is None:
                    return [(OK, unk("para.get"), st)]
            return [(OK, none(), st)]
        if c.endswith("Deb822LikeParagraph::set") or c.endswith("Deb822LikeParagraph::remove"):
            pairs = self.para_pairs(I, st, args[0])
            key = normalize(I.deref_val(st, args[1]))
            if pairs is None or args[0][0] != "ref":
                return [(OK, UNIT, st)]
            if c.endswith("set"):
                val = normalize(I.deref_val(st, args[2]))
                self.ops.append(("set", symstr.show(key), symstr.show(val)))
                out, done = [], False
                for k, v in pairs:
                    if not done and hirai.str_equal(k, key):
                        out.append((k, val))
                        done = True
                    else:
                        out.append((k, v))
                if not done:
                    out.append((key, val))
            else:
                self.ops.append(("remove", symstr.show(key)))
                out = [(k, v) for k, v in pairs if not hirai.str_equal(k, key)]
            return [(OK, UNIT, I.write(st, args[0][1], ("abs", "para", tuple(out))))]
        if (c == "core::iter::traits::iterator::Iterator::collect" or c.endswith("::collect")) and n.get("ty") == "P":
            a0 = I.deref_val(st, args[0])
            if a0[0] == "abs" and a0[1] == "siter":
                pairs = []
                for it in a0[2][a0[3]:]:
                    it = I.deref_val(st, it)
                    if it[0] != "tuple" or len(it[1]) != 2:
                        return [(OK, unk("collect-para"), st)]
                    pairs.append((normalize(I.deref_val(st, it[1][0])), normalize(I.deref_val(st, it[1][1]))))
                return [(OK, ("abs", "para", tuple(pairs)), st)]
        if c == "core::iter::traits::iterator::Iterator::collect" and n.get("ty", "").startswith("core::result::Result<"):
            a0 = I.deref_val(st, args[0])
            if a0[0] == "abs" and a0[1] == "siter":
                vals = []
                for it in a0[2][a0[3]:]:
                    if it[0] == "enum" and it[1] == OKV:
                        vals.append(it[2][0])
                    elif it[0] == "enum" and it[1] == ERRV:
                        return [(OK, it, st)]
                    else:
                        return [(OK, unk("collect-result"), st)]
                return [(OK, ("enum", OKV, (("abs", "svec", tuple(vals)),)), st)]
        if c.endswith("as core::str::traits::FromStr>::from_str") and c[1:].split(" as ")[0] in OPAQUE_TYPES:
            a0 = I.deref_val(st, args[0])
            p = symstr.pieces_of(a0)
            if p is not None and len(p) == 1 and p[0][0] == "atom":
                return [(OK, ("enum", OKV, (a0,)), st)]
            return [(OK, ("enum", ERRV, (unk("opaque-parse"),)), st)]
        # opaque externals: an atom parses to itself and prints as itself
        if c in ("chrono::naive::date::NaiveDate::parse_from_str", "chrono::naive::date::NaiveDate::format"):
            r = strftime_call(I, c, args, st)
            if r is not None:
                return r
        if c in ("chrono::naive::date::NaiveDate::parse_from_str", "<url::Url as core::str::traits::FromStr>::from_str",
                 "<debversion::Version as core::str::traits::FromStr>::from_str"):
            a0 = I.deref_val(st, args[0])
            p = symstr.pieces_of(a0)
            if p is not None and len(p) == 1 and p[0][0] == "atom":
                return [(OK, ("enum", OKV, (a0,)), st)]
            return [(OK, ("enum", ERRV, (unk("ext-parse"),)), st)]
        if c in ("chrono::naive::date::NaiveDate::format", "std::path::Path::display"):
            return [(OK, I.deref_val(st, args[0]), st)]
        if c == "<alloc::vec::Vec<T, A> as core::ops::deref::Deref>::deref" or c.endswith("as core::ops::deref::Deref>::deref"):
            return [(OK, I.deref_val(st, args[0]), st)]
        return super().intrinsic(I, c, args, st, n)


# ---- chrono strftime pairing -------------------------------------------------------------------------------------
# A calendar date is an opaque atom.  Printing it with a pattern and reading the text back with a pattern gives the same
# date exactly when both patterns denote the same sequence of items and the items determine a date consistently
# (chrono's `Parsed::to_naive_date`): year+month+day, year+ordinal, or ISO year+ISO week+weekday.  `%G-%m-%d` (ISO
# week-numbering year with calendar month/day) prints another year around New Year and is not a date on reading.
STRF_ALIAS = {"%F": "%Y-%m-%d", "%D": "%m/%d/%y", "%T": "%H:%M:%S", "%R": "%H:%M", "%h": "%b", "%-d": "%d", "%-m": "%m"}
STRF_BASES = [{"%Y", "%m", "%d"}, {"%Y", "%b", "%d"}, {"%Y", "%B", "%d"}, {"%Y", "%j"}, {"%G", "%V", "%u"}, {"%G", "%V", "%a"}, {"%G", "%V", "%A"}]


def strftime_norm(fmt):
    for a, b in STRF_ALIAS.items():
        fmt = fmt.replace(a, b)
    return fmt


def strftime_date_ok(fmt):
    items = set(re.findall(r"%[A-Za-z]", strftime_norm(fmt)))
    cal = items & {"%Y", "%G", "%m", "%b", "%B", "%d", "%j", "%V", "%u", "%a", "%A", "%y", "%g", "%C", "%U", "%W", "%e", "%w"}
    return any(cal == b or (b <= cal and cal - b <= {"%a", "%A", "%u", "%j"} and "%G" not in cal - b) for b in STRF_BASES) and not ({"%G", "%V"} & cal and {"%Y", "%m", "%d"} & cal)


def strftime_call(I, c, args, st):
    """atoms carry the pattern they were printed with ("name@%Y-%m-%d") or read with ("name#%Y-%m-%d")"""
    if c.endswith("::format"):
        d, f = I.deref_val(st, args[0]), I.deref_val(st, args[1])
    else:
        d, f = I.deref_val(st, args[0]), I.deref_val(st, args[1])
    fp = symstr.pieces_of(f)
    dp = symstr.pieces_of(d)
    if fp is None or not symstr.is_concrete(fp) or dp is None or len(dp) != 1 or dp[0][0] != "atom":
        return None
    fmt = strftime_norm(symstr.concrete(fp))
    name, cls = dp[0][1], dp[0][2]
    good = strftime_date_ok(fmt)
    if c.endswith("::format"):
        if "#" in name:                       # a date read from text with pattern r: printing with the same pattern restores the text
            base, r = name.split("#", 1)
            if r == fmt and good:
                return [(OK, symstr.atom(base, cls), st)]
            return [(OK, symstr.atom(name + "@" + fmt, cls), st)]
        if good:
            return [(OK, symstr.atom(name + "@" + fmt, cls), st)]
        return [(OK, symstr.atom(name + "@!" + fmt, cls), st)]     # prints something, but not the date's own year/month/day
    if "@" in name:                           # text printed from a date with pattern w
        base, w = name.split("@", 1)
        if w == fmt and good:
            return [(OK, ("enum", OKV, (symstr.atom(base, cls),)), st)]
        return [(OK, ("enum", ERRV, (unk("date: printed with %s, read with %s" % (w, fmt)),)), st)]
    if not good:
        return [(OK, ("enum", ERRV, (unk("date: pattern %s does not determine a date" % fmt),)), st)]
    return [(OK, ("enum", OKV, (symstr.atom(name + "#" + fmt, cls),)), st)]


def field_values(F, fld, some_mode):
    """one representative value for a struct field; Option fields per some_mode"""
    ty = fld["ty"]
    name = fld["name"]

    def base(t, nm):
        if t in OPAQUE_TYPES or t in ("alloc::string::String",):
            return symstr.atom(nm, "word")
        m = re.fullmatch(r"alloc::vec::Vec<(.*)>", t)
        if m:
            return ("abs", "svec", (base(m.group(1), nm + "1"), base(m.group(1), nm + "2")))
        m = re.fullmatch(r"std::collections::hash::set::HashSet<(.*)>", t)
        if m:
            vals = roundtrip.gen_values(F, m.group(1), nm)
            return ("abs", "svec", tuple(vals[:2]))
        if t.startswith("std::collections::hash::map::HashMap<"):
            return ("abs", "svec", (("tuple", (symstr.atom(nm + "_k"), symstr.atom(nm + "_v"))),))
        if t == "bool":
            return ("bool", True)
        m = re.fullmatch(r"\((.*)\)", t)
        if m and t.startswith("(core::option::Option<dep3::fields::OriginCategory>"):
            return ("tuple", (some(("enum", "dep3::fields::OriginCategory::Vendor", ())), ("enum", "dep3::fields::Origin::Commit", (symstr.atom(nm),))))
        if t == "debian_copyright::License":
            return ("enum", "debian_copyright::License::Named", (symstr.atom(nm + "_name"), symstr.atom(nm + "_text", "text")))
        vals = roundtrip.gen_values(F, t, nm)
        # prefer a value with payload atoms / second variant to avoid defaults
        return vals[min(1, len(vals) - 1)]
    m = re.fullmatch(r"core::option::Option<(.*)>", ty)
    if m:
        if not some_mode:
            return none()
        if some_mode == "padded" and m.group(1) == "alloc::string::String":
            # a text with blanks at both ends: the conversions must hand it through untouched
            return some(symstr.mk([("lit", " "), ("atom", name, "word"), ("lit", "  ")]))
        if some_mode == "empty":
            # present but empty, where the type can be empty
            if m.group(1) == "alloc::string::String":
                return some(symstr.lit(""))
            if re.fullmatch(r"alloc::vec::Vec<(.*)>", m.group(1)):
                return some(("abs", "svec", ()))
        return some(base(m.group(1), name))
    return base(ty, name)


def has_unk(v):
    if not isinstance(v, tuple):
        return False
    if v and v[0] == "unk":
        return True
    if v and v[0] == "enum" and v[1] == ERRV:
        return False
    return any(has_unk(x) for x in v if isinstance(x, tuple))


RP = "C16"      # rule prefix (C20 reuses the per-struct analysis under its own prefix)


def run(tier):
    F = facts.Facts()
    C = Check("C16", "other", tier, "abstract interpretation of the generated FromDeb822/ToDeb822 impls against a list-of-pairs paragraph model (static)",
              ["rustc macro expansion + HIR/typeck", "hirai + symbolic string domain"])
    check_structs(F, C)
    check_macro_attribute_scan(F, C)
    check_backends(F, C)
    check_empty_value(F, C)
    C.assumptions += ["opaque field types (lossy Relations, Version, Url, NaiveDate, PathBuf, ParsedVcs) print and parse an atom unchanged: " + "; ".join("%s (%s)" % kv for kv in OPAQUE_TYPES.items()),
                      "paragraph back-ends implement ordered list semantics for get/set/remove (C04, C08)"]
    return C.finish("The derive-generated from_paragraph / to_paragraph / update_paragraph of every deriving struct are interpreted over symbolic values "
                    "(all optionals present / all absent / present-but-empty) against an ordered list-of-pairs paragraph: key set and order, custom (de)serialiser agreement, "
                    "read-back equality, update touching only own keys, removal of absent optionals, foreign field preservation, the missing-field and unparsable-value error texts.")


def check_structs(F, C, only=None, rule_prefix="C16", floors=True):
    global RP
    RP = rule_prefix
    structs = {}
    for k, f in sorted(F.fns.items()):
        t = f.get("trait", "")
        if t.endswith("convert::FromDeb822Paragraph") or t.endswith("convert::ToDeb822Paragraph"):
            structs.setdefault(f["self_ty"], {})[f["name"]] = f
    if only is not None:
        structs = {k: v for k, v in structs.items() if only(k)}
    if floors:
        C.floor(RP + "/structs", len(structs), FLOOR_STRUCTS, "structs deriving the paragraph conversions")
    nfields = 0
    nbad = ndecided = 0
    for sty, fns in sorted(structs.items()):
        adt = F.adts.get(sty)
        if not C.ob(RP + "/anchor", sty, adt is not None and {"from_paragraph", "to_paragraph", "update_paragraph"} <= set(fns),
                    "struct must derive both conversions (have %s)" % sorted(fns)):
            continue
        for name, f in fns.items():
            C.ob(RP + "/generic-backend", "%s::%s" % (sty, name), "<P>" in f.get("trait_ref", ""),
                 "impl is not generic in the paragraph back-end: %s" % f.get("trait_ref"), f["sp"])
        flds = adt["variants"][0]["fields"]
        nfields += len(flds)
        keys_seen = None
        for some_mode in (True, False, "empty", "padded"):
            tag = "%s [%s]" % (sty, {"empty": "optional fields present with an empty value where the type has one", "padded": "optional text fields with blanks at both ends", True: "all optional fields present", False: "all optional fields absent"}[some_mode])
            vals = [field_values(F, fld, some_mode) for fld in flds]
            v = ("struct", sty, tuple((fld["name"], x) for fld, x in zip(flds, vals)))
            mod = Mod(F)
            I = hirai.Interp(F, mod)
            st = hirai.State(depth=1)
            st, p = I.newtemp(st, v)
            res = I.inline(fns["to_paragraph"], [("ref", p)], st)
            paras = [r for ctl, r, s in res if ctl == OK]
            if len(res) != 1 or len(paras) != 1 or paras[0][0] != "abs" or paras[0][1] != "para" or has_unk(paras[0]):
                C.ob(RP + "/decidable", tag + " to_paragraph", False, "to_paragraph could not be decided: %s (unknown calls %s)" % ([str(r)[:200] for _, r, _ in res], sorted(I.unknown_calls)), fns["to_paragraph"]["sp"])
                continue
            para = paras[0]
            keys = [symstr.show(k) for k, _ in para[2]]
            present = [fld["name"] for fld, x in zip(flds, vals) if not (x[0] == "enum" and x[1] == NONE)]
            C.ob(RP + "/to-paragraph-shape", tag, len(keys) == len(present) and len(set(keys)) == len(keys),
                 "to_paragraph emits keys %s for present fields %s (one distinct key per present field, declaration order)" % (keys, present), fns["to_paragraph"]["sp"])
            if some_mode is True:
                keys_seen = keys
                C.sample({"struct": sty, "keys": keys, "paragraph": [(symstr.show(k), symstr.show(x)) for k, x in para[2]]})
            # round trip
            I2 = hirai.Interp(F, mod)
            res2 = I2.inline(fns["from_paragraph"], [para], hirai.State(depth=1))
            got = set()
            und = []
            for ctl, r, s in res2:
                if ctl != OK:
                    got.add(("ctl", ctl, str(r)[:100]))
                    continue
                if has_unk(r):
                    und.append(r)
                if r[0] == "enum" and r[1] == ERRV:
                    r = ("enum", ERRV, (normalize(r[2][0]) if r[2] and r[2][0][0] in ("sstr", "str") else ("?",),))
                got.add(normalize(r))
            want = {normalize(("enum", OKV, (v,)))}
            if und and got != want:
                C.ob(RP + "/decidable", tag + " from_paragraph", False, "from_paragraph could not be decided: %s (unknown calls %s)" % ([show_value(u)[:300] for u in und], sorted(I2.unknown_calls)), fns["from_paragraph"]["sp"])
            else:
                diff = ""
                if got != want and len(got) == 1:
                    g = list(got)[0]
                    if g[0] == "enum" and g[1] == OKV and g[2][0][0] == "struct":
                        gd, wd = dict(g[2][0][2]), dict(list(want)[0][2][0][2])
                        diff = "; differing fields: " + ", ".join("%s: wrote %s read %s" % (k, show_value(wd[k]), show_value(gd.get(k))) for k in wd if gd.get(k) != wd[k])
                    else:
                        diff = "; got " + show_value(g)
                C.ob(RP + "/roundtrip", tag, got == want, "from_paragraph(to_paragraph(v)) != Ok(v)" + diff, fns["from_paragraph"]["sp"])
            # an unparsable value must give an error naming the field (never a silently absent / defaulted field)
            if some_mode is True and len(keys) == len(flds):
                for fi, fld in enumerate(flds):
                    bad = ("abs", "para", tuple((k, symstr.atom("garbage", "garbage") if j == fi else x) for j, (k, x) in enumerate(para[2])))
                    I6 = hirai.Interp(F, Mod(F))
                    try:
                        res6 = I6.inline(fns["from_paragraph"], [bad], hirai.State(depth=1))
                    except hirai.Violation:
                        res6 = []
                    verdicts = []
                    for ctl, r, s in res6:
                        r = I6.deep_deref(s, I6.deref_val(s, r), 0) if ctl == OK else r
                        if ctl == OK and r[0] == "enum" and r[1] == ERRV:
                            msg = symstr.show(r[2][0]) if r[2] and r[2][0][0] in ("sstr", "str") else None
                            verdicts.append("err-names-field" if msg is not None and keys[fi] in msg else ("err-other:%s" % msg if msg is not None else "err-undecided"))
                        elif ctl == OK and r[0] == "enum" and r[1] == OKV and r[2][0][0] == "struct":
                            fv = dict(r[2][0][2]).get(fld["name"])
                            absent = fv is not None and fv[0] == "enum" and fv[1] == NONE
                            verdicts.append("ok-absent" if absent else ("ok-undecided" if has_unk(fv) else "ok-accepted"))
                        else:
                            verdicts.append("other:%s" % str(r)[:60])
                    nbad += 1
                    if verdicts and all(x in ("err-names-field", "ok-accepted") for x in verdicts):
                        ndecided += 1
                        continue
                    if verdicts and all(x in ("err-names-field", "ok-accepted", "ok-undecided", "err-undecided") for x in verdicts):
                        continue      # a codec the string domain cannot decide on this text: not counted, not reported
                    C.ob(RP + "/unparsable-value-error", "%s.%s (%s)" % (sty, fld["name"], keys[fi]), False,
                         "from_paragraph on a paragraph whose %s value no parser accepts yields %s; expected an error naming the field" % (keys[fi], sorted(set(verdicts)) or "no outcome"), fns["from_paragraph"]["sp"])
            # update_paragraph on a paragraph with a foreign field and stale own fields
            stale = tuple((symstr.lit(k), symstr.atom("stale_" + k)) for k in (keys_seen or keys))
            foreign = (symstr.lit("X-Foreign"), symstr.atom("foreign", "line"))
            p0 = ("abs", "para", stale[:1] + (foreign,) + stale[1:])
            mod3 = Mod(F)
            I3 = hirai.Interp(F, mod3)
            st3 = hirai.State(depth=1)
            st3, pv = I3.newtemp(st3, v)
            st3 = st3.setroot(("T", "para"), p0)
            res3 = I3.inline(fns["update_paragraph"], [("ref", pv), ("ref", (("T", "para"),))], st3)
            if len(res3) != 1 or res3[0][0] != OK:
                C.ob(RP + "/decidable", tag + " update_paragraph", False, "update_paragraph could not be decided (%d outcomes)" % len(res3), fns["update_paragraph"]["sp"])
                continue
            p1 = res3[0][2].store[("T", "para")]
            own = set(keys_seen or keys)
            touched = {op[1] for op in mod3.ops}
            C.ob(RP + "/update-own-keys", tag, touched <= own and len(mod3.ops) == len(flds),
                 "update_paragraph touches %s; the struct owns %s; %d operations for %d fields" % (sorted(touched - own), sorted(own), len(mod3.ops), len(flds)), fns["update_paragraph"]["sp"])
            fpos = [i for i, (k, x) in enumerate(p1[2]) if symstr.show(k) == "X-Foreign"]
            C.ob(RP + "/update-foreign-untouched", tag, len(fpos) == 1 and p1[2][fpos[0]] == (normalize(foreign[0]), normalize(foreign[1])) or (len(fpos) == 1 and p1[2][fpos[0]][1] == foreign[1]),
                 "foreign field after update: %s" % [(symstr.show(k), symstr.show(x)) for k, x in p1[2] if symstr.show(k) == "X-Foreign"], fns["update_paragraph"]["sp"])
            absent_keys = [k for k, _ in p1[2] if symstr.show(k) in own and symstr.show(k) not in keys]
            C.ob(RP + "/update-removes-absent", tag, not absent_keys, "fields whose value is absent remain in the paragraph: %s" % [symstr.show(k) for k in absent_keys], fns["update_paragraph"]["sp"])
            I4 = hirai.Interp(F, mod)
            res4 = I4.inline(fns["from_paragraph"], [p1], hirai.State(depth=1))
            got4 = {normalize(r) for ctl, r, s in res4 if ctl == OK and not has_unk(r)}
            if any(has_unk(r) for _, r, _ in res4) and got4 != want:
                pass
            else:
                C.ob(RP + "/update-reads-back", tag, got4 == want, "paragraph updated from v does not read back as v", fns["update_paragraph"]["sp"])
        # missing mandatory field -> error naming the field
        mand = [fld for fld in flds if not fld["ty"].startswith("core::option::Option<")]
        if mand and keys_seen:
            mod5 = Mod(F)
            I5 = hirai.Interp(F, mod5)
            res5 = I5.inline(fns["from_paragraph"], [("abs", "para", ())], hirai.State(depth=1))
            first_key = keys_seen[[fld["name"] for fld in flds].index(mand[0]["name"])] if len(keys_seen) == len(flds) else None
            msgs = []
            okk = bool(res5)
            for ctl, r, s in res5:
                if ctl == OK and r[0] == "enum" and r[1] == ERRV:
                    msgs.append(symstr.show(r[2][0]) if r[2][0][0] in ("sstr", "str") else str(r[2][0])[:60])
                else:
                    okk = False
            C.ob(RP + "/missing-field-error", sty, okk and first_key is not None and all(first_key in m for m in msgs),
                 "from_paragraph(empty paragraph) yields %s; expected an error naming %s" % (msgs or [str(r)[:80] for _, r, _ in res5], first_key), fns["from_paragraph"]["sp"])
    if floors:
        C.floor(RP + "/fields", nfields, FLOOR_FIELDS, "fields of deriving structs")
        C.note("unparsable-value runs", "%d fields given an unparsable value, %d decided (error names the field, or the type accepts any text)" % (nbad, ndecided))
        C.floor(RP + "/unparsable-value-error", ndecided, 100, "fields for which the unparsable-value clause was decided")
    RP = "C16"
    return nfields


def check_empty_value(F, C):
    """update_paragraph writes empty strings for empty lists / empty optional strings: the lossless back-end must turn
    that into a terminated field whose value reads back empty"""
    import treemodel
    P = "deb822_lossless::lossless::"
    f = F.fn(P + "Entry::new")
    if not C.ob(RP + "/anchor", P + "Entry::new", f is not None, "not found"):
        return
    tm = treemodel.TreeMod(F, "deb822_lossless::lex::SyntaxKind")
    I = hirai.Interp(F, tm, max_depth=12)
    old = hirai.INT_BOUND
    hirai.INT_BOUND = 32
    try:
        res = I.inline(f, [symstr.lit("K"), symstr.lit("")], hirai.State(depth=0))
        ok = False
        detail = "%d outcomes" % len(res)
        if len(res) == 1 and res[0][0] == OK:
            v = I.deref_val(res[0][2], res[0][1])
            if v[0] == "enum" and v[2] and v[2][0][0] == "abs" and v[2][0][1] == "nref":
                h = treemodel.heap_get(res[0][2])
                text = symstr.show(symstr.mk(tm.text_of(h, v[2][0][2])))
                kinds = [h[c][2] for c in h[v[2][0][2]][3]]
                ok = text.startswith("K:") and text.endswith("\n") and kinds[-1] == "NEWLINE" and "VALUE" in kinds
                detail = "Entry::new(K, \"\") builds %r with token kinds %s" % (text, kinds)
        C.ob(RP + "/lossless-empty-value", "Entry::new with an empty value", ok, detail + " (an empty value must still give a newline-terminated field with an empty VALUE)", f["sp"])
    finally:
        hirai.INT_BOUND = old


def check_macro_attribute_scan(F, C):
    """the shipped structs put all options of a field into one #[deb822(...)] attribute, so their expansions cannot show
    whether the macro honours options spread over several attributes; decided on the macro itself: the loops of
    extract_field_attributes (over the field's attributes, and over the items of one attribute) run to completion -
    no hand-written `break` leaves them early"""
    k = "deb822_derive::extract_field_attributes"
    f = F.fn(k)
    if not C.ob(RP + "/anchor", k, f is not None, "not found"):
        return
    loops = [x for x in facts.walk(f["body"]) if x.get("k") == "Loop"]
    loop_sps = {x.get("sp") for x in loops}
    user_breaks = [x for x in facts.walk(f["body"]) if x.get("k") == "Break" and x.get("sp") not in loop_sps]
    C.ob(RP + "/macro-attribute-scan", k, len(loops) >= 2 and not user_breaks,
         "found %d loops and hand-written break(s) at %s: options in a later #[deb822(...)] attribute (or later items) of the same field would be ignored" % (len(loops), [x.get("sp") for x in user_breaks]), f.get("sp", ""))


def check_backends(F, C):
    for back in ("deb822_lossless::lossy::Paragraph", "deb822_lossless::lossless::Paragraph"):
        for m in ("get", "set", "remove"):
            k = "<%s as deb822_lossless::convert::Deb822LikeParagraph>::%s" % (back, m)
            f = F.fn(k)
            if not C.ob(RP + "/backend-anchor", k, f is not None, "impl not found"):
                continue
            target = "%s::%s" % (back, m)
            cs = [c for c in facts.calls(f["body"]) if facts.callee(c) == target]
            ok = len(cs) == 1
            if ok:
                c = cs[0]
                argn = c["args"] if c["k"] == "Call" else [c["recv"]] + c["args"]
                names = []
                for a in argn:
                    a = facts.peel(a)
                    names.append(a["res"]["name"] if a.get("k") == "Path" and a["res"].get("k") == "Local" else None)
                params = [p.get("name") for p in f["params"]]
                ok = names == params
            C.ob(RP + "/backend-delegates", k, ok, "the trait method must delegate to the inherent %s with its own arguments in order" % target, f["sp"])
            if m == "get":
                # the adapter must hand back exactly what the inherent get returns (present, absent, present-but-empty)
                for stub, what in ((some(symstr.atom("stored", "raw")), "a stored value"), (none(), "no field"), (some(symstr.lit("")), "an empty value")):
                    class Stub(roundtrip.RTMod):
                        def intrinsic(self, I, callee, args, st, n, stub=stub, target=target):
                            if callee == target:
                                return [(OK, stub, st)]
                            return super().intrinsic(I, callee, args, st, n)
                    I = hirai.Interp(F, Stub(F))
                    st = hirai.State(depth=1).setroot(("T", "p"), ("abs", "backend-paragraph"))
                    res = I.inline(f, [("ref", (("T", "p"),)), symstr.lit("Key")], st)
                    got = [(ctl, normalize(I.deref_val(s2, v))) for ctl, v, s2 in res]
                    C.ob(RP + "/backend-transparent", "%s with %s" % (k, what), got == [(OK, normalize(stub))],
                         "the adapter returns %s where the back-end's own get returns %s" % ([show_value(g[1])[:80] for g in got], show_value(stub)), f["sp"])
