"""C11 - editing relationship fields keeps them well-formed and matches a list-of-lists model.

The repository's parser is interpreted on generated start fields (several layouts, empty entries, substvars); the
editing API (Relations::{push,insert,replace,remove_entry}, Entry::{push,replace,remove_relation} through
get_entry handles, Relation::{remove,set_version,drop_constraint,set_archqual,set_architectures,add_profile} through
get_relation handles) is interpreted on the resulting mutable tree (rowan model, rules/treemodel.py) with operands
built by the parser, by the constructors and by RelationBuilder.  After every step the root is printed, tokenised
with the extracted lexer table and read with the reference grammar:
  - it must denote exactly the list-of-lists model after the same operation (so an edit through a handle is
    visible in the field),
  - the interpreted lossless parser must accept it strictly,
  - empty entries may not appear (no duplicated / dangling separators), substvars must keep their text and position
    order, entries the operation did not touch must keep their text."""
import copy
import facts, hirai, symstr, treemodel, docbuild as db, relspec, roundtrip, relations_parse as rp, c10, c13, c14
from relspec import rel
from hirai import OK, PANIC, SOME, NONE, OKV, ERRV, some, none, unk
from report import Check

PFX = c10.PFX
R = lambda m: PFX + "Relations::" + m
E = lambda m: PFX + "Entry::" + m
L = lambda m: PFX + "Relation::" + m
ENTRY_FROM_VEC = "<%sEntry as core::convert::From<alloc::vec::Vec<%sRelation>>>::from" % (PFX, PFX)
RELS_FROM_VEC = "<%sRelations as core::convert::From<alloc::vec::Vec<%sEntry>>>::from" % (PFX, PFX)


SYM = True     # component texts are atoms standing for arbitrary IDENT-class words


def S(x):
    return c14.S(x) if SYM else symstr.lit(x)


def M(model):
    return [[c10.symrel(r) for r in e] for e in model] if SYM else model


def vc_value(op):
    return ("enum", c10.VCP + relspec.VC[op], ())


def ver_opt(v):
    return some(("tuple", (vc_value(v[0]), S(v[1])))) if v else none()


A, B, Cc, D = rel("a"), rel("b", version=(">=", "1")), rel("c"), rel("d")
PARTS = [rel("p", archs=[(False, "amd64")], profiles=[[(False, "x")]]), rel("q", archqual="any", version=("=", "1:2~3")),
         rel("r", version=(">=", "1"), archs=[(True, "i386")], profiles=[[(True, "nocheck")], [(False, "stage1"), (True, "nodoc")]])]

LAYOUTS = {
    "empty field": ([], "canonical", False, ()),
    "one entry": ([[A]], "canonical", False, ()),
    "three entries, canonical": ([[A], [B, Cc], [D]], "canonical", False, ()),
    "three entries, tight": ([[A], [B, Cc], [D]], "tight", False, ()),
    "three entries, one per line": ([[A], [B, Cc], [D]], "newlines", False, ()),
    "empty entry and trailing comma": ([[A], [], [D]], "canonical", True, ()),
    "entry then substvar": ([[A]], "canonical", False, ("misc:Depends",)),
    "substvar only": ([], "canonical", False, ("misc:Depends",)),
    "entries with all parts": ([PARTS[:1], PARTS[1:2], PARTS[2:]], "canonical", False, ()),
    "alternatives wrapped after the pipe": ([[A, B, Cc], [D]], "pipe-eol", False, ()),
    "wrapped inside relations": ([[PARTS[2]], [A, PARTS[1]]], "wrapped", False, ()),
    "one entry on a continuation line": ([[A]], "lead-nl", False, ()),
    "substvar first, then entries": ([[A], [B, Cc]], "substvar-first", False, ("misc:Depends",)),
    "three entries, comma at line start": ([[A], [B, Cc], [D]], "comma-bol", False, ()),
    "substvar then entries, comma at line start": ([[A], [Cc]], "comma-bol", False, ("misc:Depends",)),
    "tight relations with restriction lists": ([[rel("t", profiles=[[(True, "nocheck")]])], [rel("u", archqual="any", version=(">=", "1:2"), profiles=[[(False, "stage1")], [(True, "x")]])]], "tight", False, ()),
}


def layout_tokens(layout):
    entries, style, trailing, svars = layout
    if style == "substvar-first":
        sv = relspec.field_tokens([], "canonical", False, svars, sym=SYM)
        return sv + [relspec.rt("COMMA"), relspec.ws(" ")] + relspec.field_tokens(entries, "canonical", trailing, (), sym=SYM)
    if style == "lead-nl":
        return [relspec.rt("NEWLINE"), relspec.ws(" ")] + relspec.field_tokens(entries, "canonical", trailing, svars, sym=SYM)
    if style not in ("pipe-eol", "comma-bol"):
        return relspec.field_tokens(entries, style, trailing, svars, sym=SYM)
    out = []
    if style == "comma-bol" and svars:
        out += relspec.field_tokens([], "canonical", False, svars, sym=SYM)
    for i, e in enumerate(entries):
        if style == "comma-bol":
            # the line break comes BEFORE the separator ("a\n , b\n , c"): a NEWLINE token at field level between an entry and its comma
            if i or svars:
                out += [relspec.rt("NEWLINE"), relspec.ws(" "), relspec.rt("COMMA"), relspec.ws(" ")]
        elif i:
            out += [relspec.rt("COMMA"), relspec.rt("NEWLINE"), relspec.ws(" ")]
        for j, r in enumerate(e):
            if j and style == "comma-bol":
                out += [relspec.ws(" "), relspec.rt("PIPE"), relspec.ws(" ")]
            elif j:
                out += [relspec.ws(" "), relspec.rt("PIPE"), relspec.rt("NEWLINE"), relspec.ws(" ")]
            out += relspec.rel_tokens(r, "canonical", SYM)
    return out


class Ctx:
    def __init__(self, F, cells):
        self.F = F
        self.cells = cells
        self.tm = c13.SortMod(F, rp.KIND)
        self.tm.immutable_mutations = []
        self.tm.invalidations = []
        self.I = hirai.Interp(F, self.tm, max_depth=22)
        self.I.max_recursion = 8

    def call1(self, key, args, st):
        """interpret a function; exactly one normal outcome expected: returns (value, state) or raises Outcome"""
        f = self.F.fn(key)
        if f is None:
            raise Outcome("anchor lost: %s" % key)
        res = self.I.inline(f, args, st)
        if len(res) != 1 or res[0][0] != OK:
            raise Outcome("%s has outcomes %s" % (key.rsplit("::", 2)[-2] + "::" + key.rsplit("::", 1)[-1], [(ctl, str(v)[:90]) for ctl, v, s in res][:3]), key)
        return self.I.deref_val(res[0][2], res[0][1]), res[0][2]


class Outcome(Exception):
    def __init__(self, msg, key=None):
        Exception.__init__(self, msg)
        self.key = key


# ----------------------------------------------------------------------------- operand construction
def make_relation(cx, st, r, how):
    """returns (Relation value, state)"""
    F, I, tm = cx.F, cx.I, cx.tm
    if how in ("parsed", "padded"):
        toks = relspec.field_tokens([[r]], "canonical", sym=SYM)
        if how == "padded":
            toks = [relspec.ws("  ")] + toks + [relspec.ws(" ")]
        rv, errs, s2, mod = db.parse_relations(F, toks, st=hirai.State({}, dict(st.mon), 0))
        if rv is None or errs != ("abs", "strvec", 0):
            raise Outcome("operand does not parse")
        st = hirai.State(dict(st.store), dict(s2.mon), st.depth)
        h = treemodel.heap_get(st)
        root = rv[2][0][2]
        ent = [c for c in h[root][3] if h[c][2] == "ENTRY"][0]
        rid = [c for c in h[ent][3] if h[c][2] == "RELATION"][0]
        return ("enum", PFX + "Relation", (("abs", "nref", rid),)), st
    if how == "new":
        v, st = cx.call1(L("new"), [S(r["name"]), ver_opt(r["version"])], st)
    else:   # builder: Relation::build(name)....build() goes through the same setters; start from simple()
        v, st = cx.call1(L("simple"), [S(r["name"])], st)
        if r["version"]:
            st = st.setroot(("T", "opnd"), v)
            _, st = cx.call1(L("set_version"), [("ref", (("T", "opnd"),)), ver_opt(r["version"])], st)
            v = cx.I.deref_val(st, st.store[("T", "opnd")])
    st = st.setroot(("T", "opnd"), v)
    p = ("ref", (("T", "opnd"),))
    if r["archqual"]:
        _, st = cx.call1(L("set_archqual"), [p, S(r["archqual"])], st)
    if r["archs"] is not None:
        _, st = cx.call1(L("set_architectures"), [p, ("abs", "siter", tuple(S(("!" if n else "") + a) for n, a in r["archs"]), 0)], st)
    for g in r["profiles"]:
        gv = ("abs", "svec", tuple(("enum", c10.BP + ("Disabled" if n else "Enabled"), (S(x),)) for n, x in g))
        _, st = cx.call1(L("add_profile"), [p, gv], st)
    v = cx.I.deref_val(st, st.store[("T", "opnd")])
    return v, st


def make_entry(cx, st, e, how):
    F, I, tm = cx.F, cx.I, cx.tm
    if how in ("parsed", "padded"):
        toks = relspec.field_tokens([e], "canonical", sym=SYM)
        if how == "padded":
            toks = [relspec.ws("  ")] + toks + [relspec.ws(" ")]
        rv, errs, s2, mod = db.parse_relations(F, toks, st=hirai.State({}, dict(st.mon), 0))
        if rv is None or errs != ("abs", "strvec", 0):
            raise Outcome("operand does not parse")
        st = hirai.State(dict(st.store), dict(s2.mon), st.depth)
        h = treemodel.heap_get(st)
        root = rv[2][0][2]
        ent = [c for c in h[root][3] if h[c][2] == "ENTRY"][0]
        return ("enum", PFX + "Entry", (("abs", "nref", ent),)), st
    vals = []
    for r in e:
        v, st = make_relation(cx, st, r, "new" if how == "ctor" else "builder")
        vals.append(v)
    v, st = cx.call1(ENTRY_FROM_VEC, [("abs", "svec", tuple(vals))], st)
    return v, st


# ----------------------------------------------------------------------------- operations
X = rel("x")
XV = rel("x", version=("<<", "2"))
Y = rel("y", archqual="any")


def field_ops(model_len):
    ops = []
    for how in ("parsed", "ctor", "builder", "padded"):
        ops.append(("push", None, [XV] if how not in ("parsed", "padded") else [X, Y], how))
    for i in range(model_len + 1):
        ops.append(("insert", i, [X], "parsed" if i % 2 == 0 else "ctor"))
    for i in range(model_len):
        ops.append(("replace", i, [XV, Y], "ctor" if i % 2 == 0 else "parsed"))
        ops.append(("replace", i, [X], "padded"))
        ops.append(("insert", i, [Y], "padded"))
        ops.append(("remove_entry", i, None, None))
    return ops


def entry_ops(model):
    ops = []
    for i, e in enumerate(model):
        ops.append(("entry.push", i, XV, "new" if i % 2 == 0 else "parsed"))
        ops.append(("entry.push", i, Y, "padded"))
        for j in range(len(e)):
            ops.append(("entry.replace", (i, j), Y, "parsed" if j % 2 == 0 else "new"))
            ops.append(("entry.replace", (i, j), XV, "padded"))
            ops.append(("entry.replace", (i, j), X, "padded"))
            ops.append(("entry.remove_relation", (i, j), None, None))
            ops.append(("relation.remove", (i, j), None, None))
    return ops


def relation_ops(model):
    ops = []
    for i, e in enumerate(model):
        for j, r in enumerate(e):
            for op in relspec.OPS:
                if (i + j + len(op)) % 2 == 0 or op in ("<<", ">>"):
                    ops.append(("set_version", (i, j), (op, "2:1.0~rc1"), None))
            ops.append(("set_version", (i, j), None, None))
            ops.append(("drop_constraint", (i, j), None, None))
            ops.append(("set_archqual", (i, j), "native", None))
            ops.append(("set_architectures", (i, j), [(True, "hurd-i386"), (False, "any")], None))
            ops.append(("add_profile", (i, j), [(True, "nocheck"), (False, "cross")], None))
    return ops


def apply_model(model, op):
    """list-of-lists model of the operation; returns (new model, touched entry indexes in the new model)"""
    kind, idx, arg, how = op
    m = copy.deepcopy(model)
    if kind == "push":
        m.append(list(arg))
        return m, {len(m) - 1}
    if kind == "insert":
        m.insert(min(idx, len(m)), list(arg))
        return m, {min(idx, len(m) - 1)}
    if kind == "replace":
        m[idx] = list(arg)
        return m, {idx}
    if kind == "remove_entry":
        del m[idx]
        return m, set()
    if kind == "entry.push":
        m[idx].append(arg)
        return m, {idx}
    i, j = idx
    if kind == "entry.replace":
        m[i][j] = arg
        return m, {i}
    if kind in ("entry.remove_relation", "relation.remove"):
        del m[i][j]
        if not m[i]:
            del m[i]
            return m, set()
        return m, {i}
    r = m[i][j]
    if kind == "set_version":
        r["version"] = arg
    elif kind == "drop_constraint":
        r["version"] = None
    elif kind == "set_archqual":
        r["archqual"] = arg
    elif kind == "set_architectures":
        r["archs"] = list(arg)
    elif kind == "add_profile":
        r["profiles"] = [list(g) for g in r["profiles"]] + [list(arg)]
    return m, {i}


def apply_real(cx, st, op, reuse=False):
    """interpret the operation on the field stored at root ('T','rels'); returns state.
    reuse: keep using the entry / relation handle obtained for the previous step"""
    kind, idx, arg, how = op
    pr = ("ref", (("T", "rels"),))
    if kind in ("push", "insert", "replace"):
        ev, st = make_entry(cx, st, arg, how)
        if kind == "push":
            _, st = cx.call1(R("push"), [pr, ev], st)
        else:
            _, st = cx.call1(R(kind), [pr, hirai.mkint(idx), ev], st)
        return st
    if kind == "remove_entry":
        _, st = cx.call1(R("remove_entry"), [pr, hirai.mkint(idx)], st)
        return st
    i = idx if kind == "entry.push" else idx[0]
    if not (reuse and ("T", "entry") in st.store):
        ev, st = cx.call1(R("get_entry"), [pr, hirai.mkint(i)], st)
        if not (ev[0] == "enum" and ev[1] == SOME):
            raise Outcome("get_entry(%d) returns %s" % (i, str(ev)[:60]), R("get_entry"))
        st = st.setroot(("T", "entry"), cx.I.deref_val(st, ev[2][0]))
    pe = ("ref", (("T", "entry"),))
    if kind == "entry.push":
        rv, st = make_relation(cx, st, arg, how)
        _, st = cx.call1(E("push"), [pe, rv], st)
        return st
    j = idx[1]
    if kind == "entry.replace":
        rv, st = make_relation(cx, st, arg, how)
        _, st = cx.call1(E("replace"), [pe, hirai.mkint(j), rv], st)
        return st
    if kind == "entry.remove_relation":
        _, st = cx.call1(E("remove_relation"), [pe, hirai.mkint(j)], st)
        return st
    if not (reuse and ("T", "rel") in st.store):
        rv, st = cx.call1(E("get_relation"), [pe, hirai.mkint(j)], st)
        if not (rv[0] == "enum" and rv[1] == SOME):
            raise Outcome("get_relation(%d) returns %s" % (j, str(rv)[:60]), E("get_relation"))
        st = st.setroot(("T", "rel"), cx.I.deref_val(st, rv[2][0]))
    pl = ("ref", (("T", "rel"),))
    if kind == "relation.remove":
        _, st = cx.call1(L("remove"), [pl], st)
    elif kind == "set_version":
        _, st = cx.call1(L("set_version"), [pl, ver_opt(arg)], st)
    elif kind == "drop_constraint":
        _, st = cx.call1(L("drop_constraint"), [pl], st)
    elif kind == "set_archqual":
        _, st = cx.call1(L("set_archqual"), [pl, S(arg)], st)
    elif kind == "set_architectures":
        _, st = cx.call1(L("set_architectures"), [pl, ("abs", "siter", tuple(S(("!" if n else "") + a) for n, a in arg), 0)], st)
    elif kind == "add_profile":
        _, st = cx.call1(L("add_profile"), [pl, ("abs", "svec", tuple(("enum", c10.BP + ("Disabled" if n else "Enabled"), (S(x),)) for n, x in arg))], st)
    return st


def op_label(op):
    kind, idx, arg, how = op
    if kind in ("push", "insert", "replace"):
        a = " | ".join(db.text_of_tokens(relspec.rel_tokens(r, "canonical")) for r in arg)
        return "%s(%s%r) [operand: %s]" % (kind, "" if idx is None else "%d, " % idx, a, how)
    if kind in ("entry.push", "entry.replace"):
        return "%s(%s%r) [operand: %s]" % (kind, "entry %d, " % idx if kind == "entry.push" else "entry %d alt %d, " % idx, db.text_of_tokens(relspec.rel_tokens(arg, "canonical")), how)
    return "%s(%s%s)" % (kind, idx, "" if arg is None else ", %s" % (arg,))


FN_OF = {"push": R("push"), "insert": R("insert"), "replace": R("replace"), "remove_entry": R("remove_entry"), "entry.push": E("push"), "entry.replace": E("replace"),
         "entry.remove_relation": E("remove_relation"), "relation.remove": L("remove"), "set_version": L("set_version"), "drop_constraint": L("drop_constraint"),
         "set_archqual": L("set_archqual"), "set_architectures": L("set_architectures"), "add_profile": L("add_profile")}


def root_text(cx, st):
    v = cx.I.deref_val(st, st.store[("T", "rels")])
    nid = cx.tm.unwrap(cx.I, st, v[2][0])[2]
    h = treemodel.heap_get(st)
    cx.last_value = symstr.mk(cx.tm.text_of(h, nid))
    return symstr.show(cx.last_value), nid


def entry_texts(cx, st, nid):
    h = treemodel.heap_get(st)
    return [symstr.show(symstr.mk(cx.tm.text_of(h, c))) for c in h[nid][3] if h[c][1] == "N" and h[c][2] == "ENTRY"]


def read_back(cx, st):
    """the field as the repository's own accessors report it (entries -> relations -> name/archqual/version/...)"""
    v = cx.I.deref_val(st, st.store[("T", "rels")])
    nid = cx.tm.unwrap(cx.I, st, v[2][0])[2]
    h = treemodel.heap_get(st)
    out = []
    try:
        for e in h[nid][3]:
            if h[e][1] == "N" and h[e][2] == "ENTRY":
                alts = []
                for c in h[e][3]:
                    if h[c][1] == "N" and h[c][2] == "RELATION":
                        alts.append(c10.read_relation_via_accessors(cx.F, cx.I, cx.tm, st, ("enum", PFX + "Relation", (("abs", "nref", c),))))
                if alts:
                    out.append(alts)
    except hirai.Violation as e:
        return "analysis: %s" % e
    return out


def count_empty_entries(toks):
    """number of empty entries (',' with nothing before it since the previous ',' or the start; a trailing ',' counts one)"""
    n = 0
    seen = False
    last_comma = False
    for k, t in toks:
        if k in ("WHITESPACE", "NEWLINE"):
            continue
        if k == "COMMA":
            if not seen:
                n += 1
            seen = False
            last_comma = True
        else:
            seen = True
            last_comma = False
    if last_comma:
        n += 1
    return n


FAILING = []


def run_history(cx, C, F, lname, layout, ops, cells, reuse=False):
    cx.reuse = reuse
    n0 = sum(1 for o in C.obligations if not o["ok"])
    r = run_history_(cx, C, F, lname, layout, ops, cells)
    if sum(1 for o in C.obligations if not o["ok"]) > n0:
        FAILING.append({"layout": lname, "reuse": reuse, "ops": [list(o) for o in ops], "after": getattr(cx, "last_text", None), "detail": [o["rule"] + ": " + o["detail"] for o in C.obligations[-8:] if not o["ok"] and lname in o["instance"]][-3:]})
    return r


def run_history_(cx, C, F, lname, layout, ops, cells):
    entries, style, trailing, svars = layout
    label = "%s :: %s%s" % (lname, " ; ".join(op_label(o) for o in ops), " [same handle]" if getattr(cx, "reuse", False) else "")
    sp = F.fn(FN_OF[ops[-1][0]])["sp"] if F.fn(FN_OF[ops[-1][0]]) else ""
    toks = layout_tokens(layout)
    start_text = db.text_of_tokens(toks)
    if not entries and not svars:
        try:
            v, st = cx.call1(R("new"), [], hirai.State(depth=0))
        except Outcome as e:
            C.ob("C11/start", label, False, str(e))
            return None
    else:
        v, errs, st, mod = db.parse_relations(F, toks, allow_substvar=bool(svars))
        if v is None or errs != ("abs", "strvec", 0):
            C.ob("C11/start", label, False, "the start field %r does not parse (that is C10)" % start_text)
            return None
        st = hirai.State({}, dict(st.mon), 0)
    st = st.setroot(("T", "rels"), v)
    model = [list(e) for e in entries if e]
    empties0 = count_empty_entries(toks)
    cx.tm.immutable_mutations = []
    text0, nid0 = root_text(cx, st)
    before_texts = entry_texts(cx, st, nid0)
    for k, op in enumerate(ops):
        try:
            m2, touched = apply_model(model, op)
        except (IndexError, KeyError):
            return None       # operation not applicable to this model (index out of range after an earlier step)
        try:
            st = apply_real(cx, st, op, reuse=getattr(cx, "reuse", False) and k > 0)
        except Outcome as e:
            cx.last_text = "PANIC" if "panic" in str(e) else "OUTCOME " + str(e)
            C.ob("C11/operation", label, False, "step %d: %s (field was %r)" % (k + 1, e, root_text(cx, st)[0] if ("T", "rels") in st.store else "?"), sp)
            return False
        except hirai.Violation as e:
            C.ob("C11/operation", label, False, "step %d: analysis: %s" % (k + 1, e), sp)
            return False
        model = m2
    text, nid = root_text(cx, st)
    cx.last_text = text
    otoks = c14.lex_text(cx.last_value, cells)
    try:
        got, gsv = relspec.read_field(otoks) if otoks is not None else (None, None)
        err = None
    except relspec.NotWellFormed as e:
        got, gsv, err = None, None, str(e)
    ok = C.ob("C11/wellformed", label, got is not None, "%r -> %r is not a well-formed field: %s" % (text0, text, err), sp)
    if ok:
        C.ob("C11/model", label, got == M(model), "%r -> %r denotes %s, the list model has %s" % (text0, text, got, model), sp)
        # Relations::len / is_empty count entries (not substvars)
        for meth, want in (("len", hirai.mkint(len(model))), ("is_empty", ("bool", len(model) == 0))):
            fm = F.fn(R(meth))
            if fm is not None:
                try:
                    rv, _ = cx.call1(R(meth), [("ref", (("T", "rels"),))], st)
                except (Outcome, hirai.Violation) as e:
                    rv = str(e)
                C.ob("C11/%s" % meth, label, rv == want, "%r -> %r: %s() returns %s, the list model has %d entries" % (text0, text, meth, rv, len(model)), fm["sp"])
        acc = read_back(cx, st)
        C.ob("C11/accessors", label, acc == M(model), "%r -> %r: entries()/relations() and the relation accessors report %s, the list model has %s" % (text0, text, acc, M(model)), sp)
        C.ob("C11/substvars", label, gsv == list(svars), "%r -> %r has substvars %s, expected %s" % (text0, text, gsv, list(svars)), sp)
        C.ob("C11/no-stray-separators", label, count_empty_entries(otoks) <= empties0, "%r -> %r has more empty entries (duplicated or dangling separators) than before" % (text0, text), sp)
        rels2, errs2, st2, mod2 = db.parse_relations(F, otoks, allow_substvar=bool(svars))
        C.ob("C11/strict-parse", label, rels2 is not None and errs2 == ("abs", "strvec", 0), "the lossless reader rejects %r" % text, F.fn(rp.PARSE_FN)["sp"])
        if len(ops) == 1 and got == M(model):
            # untouched entries keep their text
            after = entry_texts(cx, st, nid)
            m_after, touched = apply_model([list(e) for e in entries if e], ops[0])
            kind, idx = ops[0][0], ops[0][1]
            # map untouched entries of the new model to the old ones
            old = list(before_texts)
            if kind == "remove_entry" or (kind in ("entry.remove_relation", "relation.remove") and len(m_after) < len(old)):
                del old[idx if kind == "remove_entry" else idx[0]]
            if kind in ("push", "insert"):
                pos = min(idx, len(old)) if kind == "insert" else len(old)
                old.insert(pos, None)
            if len(after) == len(old):
                bad = [(i, old[i], after[i]) for i in range(len(old)) if i not in touched and old[i] is not None and old[i] != after[i]]
                C.ob("C11/untouched-text", label, not bad, "%r -> %r: entries the operation did not touch changed their text: %s" % (text0, text, bad), sp)
    if cx.tm.immutable_mutations:
        C.ob("C11/mutable", label, False, "mutation of an immutable tree: %s" % (cx.tm.immutable_mutations[:2],), sp)
    if len(C.samples) < 10 and len(ops) > 1:
        C.sample({"start": text0, "operations": [op_label(o) for o in ops], "after": text})
    return True


def run(tier):
    F = facts.Facts()
    hirai.INT_BOUND = 64
    C = Check("C11", "other", tier, "abstract interpretation of the relation editing API on parser-built mutable trees (rowan model) against a list-of-lists model; results re-tokenised with the extracted lexer table and read with the reference grammar",
              ["rustc HIR/typeck", "hirai", "rowan 0.16 model (rules/treemodel.py)", "reference grammar (rules/relspec.py)", "extracted relation lexer table"])
    for k in list(FN_OF.values()) + [R("get_entry"), E("get_relation"), ENTRY_FROM_VEC, L("new"), L("simple")]:
        C.ob("C11/anchor", k, F.fn(k) is not None, "not found")
    rtab = rp.lexer_table(F)
    cells = {c["char"]: c["outs"] for c in rtab["cells"]}
    n = 0
    for lname, layout in LAYOUTS.items():
        entries = [e for e in layout[0] if e]
        singles = field_ops(len(entries)) + entry_ops(entries) + relation_ops(entries)
        if tier != "thorough" and lname in ("three entries, tight",):
            singles = singles[::2]
        for op in singles:
            cx = Ctx(F, cells)
            r = run_history(cx, C, F, lname, layout, [op], cells)
            n += 1 if r is not None else 0
    # two-step histories
    PAIRS = [
        (("push", None, [X], "ctor"), ("remove_entry", 0, None, None)),
        (("remove_entry", 0, None, None), ("push", None, [X], "parsed")),
        (("insert", 0, [X], "ctor"), ("entry.push", 0, Y, "new")),
        (("entry.push", 0, Y, "parsed"), ("entry.remove_relation", (0, 0), None, None)),
        (("set_architectures", (0, 0), [(False, "amd64")], None), ("add_profile", (0, 0), [(True, "nocheck")], None)),
        (("add_profile", (0, 0), [(True, "nocheck")], None), ("set_version", (0, 0), (">=", "3"), None)),
        (("set_version", (0, 0), (">=", "3"), None), ("set_archqual", (0, 0), "any", None)),
        (("set_archqual", (0, 0), "any", None), ("set_version", (0, 0), ("=", "3"), None)),
        (("replace", 0, [X, Y], "ctor"), ("relation.remove", (0, 0), None, None)),
        (("push", None, [X], "ctor"), ("push", None, [Y], "parsed")),
        (("remove_entry", 0, None, None), ("remove_entry", 0, None, None)),
        (("entry.remove_relation", (0, 0), None, None), ("push", None, [X], "ctor")),
    ]
    for lname, layout in LAYOUTS.items():
        for pair in PAIRS:
            cx = Ctx(F, cells)
            r = run_history(cx, C, F, lname, layout, list(pair), cells)
            n += 1 if r is not None else 0
    import json, os
    if os.environ.get("C11_DUMP"):
        json.dump(FAILING, open(os.environ["C11_DUMP"], "w"), indent=1, default=str)
    if tier == "thorough":
        for lname in ("three entries, canonical", "entries with all parts", "entry then substvar", "alternatives wrapped after the pipe"):
            layout = LAYOUTS[lname]
            m0 = [list(e) for e in layout[0] if e]
            firsts = field_ops(len(m0)) + entry_ops(m0) + relation_ops(m0)
            for a in firsts:
                try:
                    m1, _ = apply_model(m0, a)
                except (IndexError, KeyError):
                    continue
                seconds = field_ops(len(m1)) + entry_ops(m1) + relation_ops(m1)
                for b in seconds[::3]:
                    cx = Ctx(F, cells)
                    r = run_history(cx, C, F, lname, layout, [a, b], cells)
                    n += 1 if r is not None else 0
    SAME_HANDLE = [
        (("set_architectures", (0, 0), [(False, "amd64")], None), ("add_profile", (0, 0), [(True, "nocheck")], None)),
        (("set_architectures", (0, 0), [(False, "amd64")], None), ("set_version", (0, 0), (">=", "3"), None)),
        (("add_profile", (0, 0), [(True, "nocheck")], None), ("set_architectures", (0, 0), [(True, "i386")], None)),
        (("add_profile", (0, 0), [(True, "nocheck")], None), ("add_profile", (0, 0), [(False, "cross")], None)),
        (("set_version", (0, 0), (">=", "3"), None), ("set_architectures", (0, 0), [(False, "amd64")], None)),
        (("set_version", (0, 0), (">=", "3"), None), ("set_version", (0, 0), None, None)),
        (("set_archqual", (0, 0), "any", None), ("add_profile", (0, 0), [(True, "nocheck")], None)),
        (("entry.push", 0, X, "new"), ("entry.push", 0, Y, "parsed")),
        (("entry.push", 0, X, "parsed"), ("entry.remove_relation", (0, 0), None, None)),
        (("entry.replace", (0, 0), X, "new"), ("entry.push", 0, Y, "new")),
    ]
    for lname, layout in LAYOUTS.items():
        for pair in SAME_HANDLE:
            for tgt in ((0, 0), (1, 0)):
                ops = [(k, (tgt if isinstance(i, tuple) else tgt[0]), a, h) for k, i, a, h in pair]
                cx = Ctx(F, cells)
                r = run_history(cx, C, F, lname, layout, ops, cells, reuse=True)
                n += 1 if r is not None else 0
    C.note("counts", "%d histories" % n)
    C.floor("C11/histories", n, 300, "editing histories interpreted")
    C.assumptions += ["rowan 0.16 semantics as modelled (rules/treemodel.py)", "bounded: 16 start layouts, every index, one- and two-step histories; component strings concrete"]
    return C.finish("Editing operations are interpreted on parser-built trees for 16 start layouts, every index and three ways of building operands; the printed field is re-read with the reference grammar and compared with the list-of-lists model; strict re-parse, separator hygiene, substvar and untouched-entry text preservation are checked.")
