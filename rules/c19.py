"""C19 - PGP clear-sign unwrapping returns exactly the payload or a specific error.

strip_pgp_signature is interpreted on symbolic clear-signed messages (marker lines literal, every other line
an opaque non-empty atom that is not a marker): all combinations of 0..2 armour header lines, 0..3 payload
lines (including empty lines inside the payload), 1..2 signature lines; every truncation point of each
message; trailing junk; unsigned text.  The result must be exactly Ok((payload lines each + LF, Some(signature
lines concatenated))) or the error of the phase that was cut."""
import itertools
import facts, hirai, symstr, roundtrip
from hirai import OK, RET, PANIC, OKV, ERRV, SOME, NONE
from report import Check

FN = "debian_control::pgp::strip_pgp_signature"
BEGIN = "-----BEGIN PGP SIGNED MESSAGE-----"
BSIG = "-----BEGIN PGP SIGNATURE-----"
ESIG = "-----END PGP SIGNATURE-----"
ERR = "debian_control::pgp::Error::"


def line_atom(name):
    return ("atom", name, "line")


def build(lines, final_newline=True):
    """lines: list of ('lit', s) | atom piece; joined with LF"""
    pieces = []
    for i, l in enumerate(lines):
        if isinstance(l, list):
            pieces.extend(l)
        else:
            pieces.append(l)
        if i < len(lines) - 1 or final_newline:
            pieces.append(("lit", "\n"))
    return symstr.mk(pieces)


def show_res(I, s, v):
    v = I.deref_val(s, v)
    if v[0] == "enum" and v[1] == OKV:
        t = I.deref_val(s, v[2][0])
        if t[0] == "tuple":
            a, b = I.deref_val(s, t[1][0]), I.deref_val(s, t[1][1])
            bs = None
            if b[0] == "enum" and b[1] == SOME:
                bs = symstr.show(I.deref_val(s, b[2][0]))
            elif not (b[0] == "enum" and b[1] == NONE):
                bs = "?" + str(b)[:40]
            return ("ok", symstr.show(a) if a[0] in ("sstr", "str") else "?" + str(a)[:40], bs)
    if v[0] == "enum" and v[1] == ERRV:
        e = I.deref_val(s, v[2][0])
        return ("err", e[1].replace(ERR, "") if e[0] == "enum" else str(e)[:40])
    return ("?", str(v)[:80])


def run(tier):
    F = facts.Facts()
    hirai.INT_BOUND = 4
    C = Check("C19", "other", tier, "abstract interpretation of strip_pgp_signature over symbolic clear-signed messages, all truncation points and trailing additions (symbolic line atoms)",
              ["rustc HIR/typeck", "hirai + symbolic strings (line atoms: non-empty, no newline, not a marker line)", "str::lines semantics as modelled"])
    f = F.fn(FN)
    if not C.ob("C19/anchor", FN, f is not None, "function not found"):
        return C.finish("anchor missing")
    mod = roundtrip.RTMod(F)

    def call(inp):
        I = hirai.Interp(F, mod)
        res = I.inline(f, [inp], hirai.State(depth=0))
        return [show_res(I, s, v) if ctl == OK else ("ctl", ctl, str(v)[:60]) for ctl, v, s in res], I

    n = 0
    payload_shapes = [[], ["p"], ["p", "p"], ["p", "", "p"], ["", "p"], ["p", ""], ["p", "p", "p"],
                      ["pw"], ["ws", "p"], ["mk", "p"], ["p", "me"], ["mb"], ["p", "pw", "ws"]]

    def payload_piece(kind, i):
        # p: opaque line; '': empty; pw: line with trailing blanks; ws: blank-only line; mk/me/mb: marker look-alikes (indented)
        if kind == "p":
            return [line_atom("pay%d" % i)]
        if kind == "":
            return [("lit", "")]
        if kind == "pw":
            return [line_atom("pay%d" % i), ("lit", " \t")]
        if kind == "ws":
            return [("lit", "  ")]
        return [("lit", " " + {"mk": BSIG, "me": ESIG, "mb": BEGIN}[kind])]
    for nh in (0, 1, 2):
        for pshape in payload_shapes:
            for ns in (1, 2, "blank-inside", "blank-first", "checksum-then-line", "checksum-last"):
                lines = [("lit", BEGIN)]
                phases = ["marker"]
                for i in range(nh):
                    lines.append(line_atom("hdr%d" % i))
                    phases.append("headers")
                lines.append(("lit", ""))
                phases.append("headers-end")
                pl = []
                for i, p in enumerate(pshape):
                    pc = payload_piece(p, i)
                    lines.append(pc)
                    pl.append(pc)
                    phases.append("payload")
                lines.append(("lit", BSIG))
                phases.append("payload-end")
                sl = []
                sig_shape = {"blank-inside": ["s", "", "s"], "blank-first": ["", "s", "s"], "checksum-then-line": ["s", "=c", "s"], "checksum-last": ["s", "s", "=c"]}.get(ns, ["s"] * (ns if isinstance(ns, int) else 0))
                if not isinstance(ns, int) and (nh, pshape) != (1, payload_shapes[1]) and nh != 0:
                    continue       # signature blocks with a blank line: two header variants x one payload shape suffice
                for i, k in enumerate(sig_shape):
                    if k == "":
                        lines.append(("lit", ""))
                    elif k == "=c":        # looks like an armour checksum line
                        lines.append(("lit", "=AbCd"))
                        sl.append(("lit", "=AbCd"))
                    else:
                        lines.append(line_atom("sig%d" % i))
                        sl.append(line_atom("sig%d" % i))
                    phases.append("signature")
                lines.append(("lit", ESIG))
                phases.append("signature-end")
                want_payload = symstr.show(symstr.mk([x for p in pl for x in (list(p) + [("lit", "\n")])]))
                want_sig = symstr.show(symstr.mk(sl))
                names = {"p": "line", "": "empty", "pw": "line+trailing-blanks", "ws": "blank-only", "mk": "indented BEGIN-SIGNATURE look-alike", "me": "indented END-SIGNATURE look-alike", "mb": "indented BEGIN-MESSAGE look-alike"}
                label = "headers=%d payload=%s signature=%s" % (nh, [names[p] for p in pshape], ns)
                for final_nl in (True, False):
                    got, I = call(build(lines, final_nl))
                    n += 1
                    C.ob("C19/unwrap", "%s final-newline=%s" % (label, final_nl), got == [("ok", want_payload, want_sig)],
                         "yields %s, expected payload %r and signature %r" % (got, want_payload, want_sig), f["sp"])
                # every truncation point (cut after j lines, j < total)
                for j in range(1, len(lines)):
                    cut = lines[:j]
                    ph = phases[j - 1]
                    want = {"marker": "MissingPayload", "headers": "MissingPayload", "headers-end": "MissingPgpSignature", "payload": "MissingPgpSignature",
                            "payload-end": "TruncatedPgpSignature", "signature": "TruncatedPgpSignature"}[ph]
                    got, I = call(build(cut, True))
                    n += 1
                    C.ob("C19/truncation", "%s cut after line %d (%s)" % (label, j, ph), got == [("err", want)], "yields %s, expected Err(%s)" % (got, want), f["sp"])
                # trailing junk
                got, I = call(build(lines + [line_atom("junk")], True))
                n += 1
                C.ob("C19/junk", label, got == [("err", "JunkAfterPgpSignature")], "yields %s, expected Err(JunkAfterPgpSignature)" % got, f["sp"])
                # any further line counts, also an empty or blank-only one
                for jn, jl in (("an empty line", [("lit", "")]), ("a blank-only line", [("lit", "  ")]), ("another BEGIN SIGNATURE marker", [("lit", BSIG)]), ("another BEGIN MESSAGE marker", [("lit", BEGIN)])):
                    got, I = call(build(lines + [jl], True))
                    n += 1
                    C.ob("C19/junk", "%s + %s" % (label, jn), got == [("err", "JunkAfterPgpSignature")], "yields %s, expected Err(JunkAfterPgpSignature)" % got, f["sp"])
                if n < 400 and len(C.samples) < 6:
                    C.sample({"message": label, "expected_payload": want_payload, "expected_signature": want_sig})
    # unsigned input is returned unchanged
    for name, inp in (("plain text", build([line_atom("a"), line_atom("b")], True)), ("empty", symstr.lit("")), ("marker look-alike first line", build([("lit", BEGIN + " "), line_atom("b")], True))):
        got, I = call(inp)
        n += 1
        C.ob("C19/passthrough", name, got == [("ok", symstr.show(inp), None)], "yields %s, expected the input unchanged and no signature" % got, f["sp"])
    C.floor("C19/evaluations", n, 800, "symbolic messages evaluated")
    C.assumptions += ["payload/header/signature lines are opaque non-empty atoms without newline that differ from the marker lines (no dash-escaping needed)",
                      "bounded shapes: <= 2 header lines, <= 3 payload lines, <= 2 signature lines; the per-phase loops are uniform"]
    return C.finish("The function body is interpreted on symbolic messages (literal marker lines, opaque other lines) for all small phase lengths, every truncation point and trailing junk; "
                    "outputs are compared with the exact expected payload/signature strings or the phase's error variant.")
