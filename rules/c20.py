"""C20 - typed lossy documents are stable under print/reparse and match the lossless view.

D1 classification: lossy Control::from_str and lossy Copyright::from_str are interpreted on every paragraph
   sequence of length <= 3 over the paragraph kinds (source / binary / neither; header / files / licence /
   neither) with stubbed paragraph conversions: result = the document model or the documented rejection.
D2 printers: Control / Copyright / Repositories print their paragraphs separated by exactly one empty line.
D3 routing: every lossy document's FromStr goes through the deb822 reader and the struct's own derived
   from_paragraph; its printer through the struct's own to_paragraph (whose codecs C16 decides).
D4 sibling field names: for every (document type, Rust field) present in both back-ends, the key the lossy
   derive writes equals the field name the lossless accessor writes/reads (names are compared case
   sensitively by both back-ends, so any difference makes the two views disagree on the same text)."""
import itertools
import facts, hirai, symstr, roundtrip, c15, c16
from roundtrip import show_value, normalize
from hirai import OK, RET, PANIC, OKV, ERRV, SOME, NONE, some, none, unk, UNIT
from report import Check

SIBLINGS = {
    "debian_control::lossy::control::Source": "debian_control::lossless::control::Source",
    "debian_control::lossy::control::Binary": "debian_control::lossless::control::Binary",
    "debian_control::lossy::apt::Source": "debian_control::lossless::apt::Source",
    "debian_control::lossy::apt::Package": "debian_control::lossless::apt::Package",
    "debian_control::lossy::apt::Release": "debian_control::lossless::apt::Release",
    "debian_control::lossy::buildinfo::Buildinfo": "debian_control::lossless::buildinfo::Buildinfo",
    "debian_copyright::lossy::Header": "debian_copyright::lossless::Header",
    "debian_copyright::lossy::FilesParagraph": "debian_copyright::lossless::FilesParagraph",
    "dep3::lossy::PatchHeader": "dep3::lossless::PatchHeader",
}
# lossy Rust field -> lossless accessor where the names differ
FIELD_ALIAS = {("debian_control::lossy::apt::Source", "package"): "package", ("debian_copyright::lossy::FilesParagraph", "files"): "files"}
FLOOR_SIBLING_FIELDS = 100


class GetWatch(c15.Mod):
    def __init__(self, facts):
        super().__init__(facts)
        self.got = []

    def intrinsic(self, I, callee, args, st, n):
        if callee.startswith(c15.PARA) and callee[len(c15.PARA):] in ("get", "get_all", "contains_key") and len(args) > 1:
            k = I.deref_val(st, args[1])
            if k[0] in ("str", "sstr"):
                self.got.append(symstr.show(k))
        return super().intrinsic(I, callee, args, st, n)


def lossy_keys(F, sty):
    """(rust field -> key) of a deriving struct, from its generated to_paragraph on an all-present value"""
    fns = {f["name"]: f for k, f in F.fns.items() if f.get("self_ty") == sty and f.get("trait", "").endswith("ToDeb822Paragraph")}
    adt = F.adts.get(sty)
    if not adt or "to_paragraph" not in fns:
        return None
    flds = adt["variants"][0]["fields"]
    vals = [c16.field_values(F, fld, True) for fld in flds]
    v = ("struct", sty, tuple((fld["name"], x) for fld, x in zip(flds, vals)))
    mod = c16.Mod(F)
    I = hirai.Interp(F, mod)
    st = hirai.State(depth=1)
    st, p = I.newtemp(st, v)
    res = I.inline(fns["to_paragraph"], [("ref", p)], st)
    if len(res) != 1 or res[0][1][0] != "abs":
        return None
    keys = [symstr.show(k) for k, _ in res[0][1][2]]
    if len(keys) != len(flds):
        return None
    return {fld["name"]: k for fld, k in zip(flds, keys)}


def lossless_keys(F, view):
    """accessor -> set of field names it touches (getter reads on an empty paragraph + setter writes)"""
    out = {}
    for k, f in sorted(F.fns.items()):
        if f.get("self_ty") != view or f["dk"] != "AssocFn" or "trait" in f or "body" not in f:
            continue
        name = f["name"]
        if name.startswith("set_") or len(f.get("inputs", [])) != 1:
            continue
        mod = GetWatch(F)
        I = hirai.Interp(F, mod)
        st = hirai.State(depth=0).setroot(("T", "view"), ("struct", view, (("0", ("abs", "para", ())),)))
        try:
            I.inline(f, [("ref", (("T", "view"),))], st)
        except Exception:
            continue
        if mod.got:
            out[name] = sorted(set(mod.got))
    return out


def run(tier):
    F = facts.Facts()
    hirai.INT_BOUND = 4
    C = Check("C20", "other", tier, "abstract interpretation of the lossy documents' classification code on all short paragraph sequences; sibling field-name table agreement between the lossy derive keys and the lossless accessors; printer separators",
              ["rustc HIR/typeck", "hirai", "C16 (derived conversions), C08 (lossy printer), C03/C06 (readers)"])
    # ------------------------------------------------------------------ D4 sibling field names
    n_sib = 0
    for lossy, lossless in sorted(SIBLINGS.items()):
        lk = lossy_keys(F, lossy)
        if not C.ob("C20/anchor", lossy, lk is not None, "cannot extract the derive keys of the lossy struct"):
            continue
        ll = lossless_keys(F, lossless)
        if not C.ob("C20/anchor", lossless, bool(ll), "cannot extract the accessor field names of the lossless view"):
            continue
        for field, key in sorted(lk.items()):
            acc = FIELD_ALIAS.get((lossy, field), field)
            if acc not in ll:
                C.note("no-sibling", "%s.%s (key %s): no lossless accessor of that name" % (lossy, field, key))
                continue
            n_sib += 1
            names = ll[acc]
            C.ob("C20/sibling-field-name", "%s.%s vs %s::%s()" % (lossy.split("::", 1)[1], field, lossless.split("::", 1)[1], acc), key in names,
                 "the lossy struct stores this field under %r, the lossless accessor uses %s" % (key, names))
            if len(C.samples) < 10:
                C.sample({"field": "%s.%s" % (lossy, field), "lossy_key": key, "lossless_names": names})
    C.floor("C20/sibling-fields", n_sib, FLOOR_SIBLING_FIELDS, "fields present in both back-ends")

    # ------------------------------------------------------------------ D1 classification: lossy Control
    ck = "<debian_control::lossy::control::Control as core::str::traits::FromStr>::from_str"
    f = F.fn(ck)
    if C.ob("C20/anchor", ck, f is not None, "not found"):
        kinds = {"S": (("Source", "s"),), "B": (("Package", "p"),), "N": (("Other", "o"),), "SB": (("Source", "s"), ("Package", "p"))}
        for ln in range(0, 4):
            for shape in itertools.product(["S", "B", "N"], repeat=ln):
                check_control_shape(F, C, f, kinds, shape)
        check_control_shape(F, C, f, kinds, ("SB", "S"))
    # ------------------------------------------------------------------ D1 classification: lossy Copyright
    pk = "<debian_copyright::lossy::Copyright as core::str::traits::FromStr>::from_str"
    f = F.fn(pk)
    if C.ob("C20/anchor", pk, f is not None, "not found"):
        for ln in range(0, 4):
            for shape in itertools.product(["F", "L", "N"], repeat=ln):
                check_copyright_shape(F, C, f, shape)

    # ------------------------------------------------------------------ D3 routing
    docs = [("debian_control::lossy::apt::Source", True), ("debian_control::lossy::apt::Package", True), ("debian_control::lossy::apt::Release", None),
            ("debian_control::lossy::ftpmaster::Removal", None), ("debian_control::lossy::buildinfo::Buildinfo", None), ("dep3::lossy::PatchHeader", True)]
    for sty, has_display in docs:
        fk = "<%s as core::str::traits::FromStr>::from_str" % sty
        f = F.fn(fk)
        if f is None:
            C.note("no-fromstr", sty)
            continue
        cs = [facts.callee(c) or "" for c in facts.calls(f["body"])]
        own = [c for c in cs if c.endswith("FromDeb822Paragraph<P>>::from_paragraph") or c.endswith("::from_paragraph")]
        own_ok = any(sty in c or c == "deb822_lossless::convert::FromDeb822Paragraph::from_paragraph" for c in own)
        reader = any(("lossy::Paragraph" in c or "lossless::Paragraph" in c or c == "core::str::<impl str>::parse") for c in cs)
        C.ob("C20/routing-read", sty, own_ok and reader, "from_str must read a deb822 paragraph and convert it with the struct's derived from_paragraph (calls: %s)" % [c[-60:] for c in cs], f["sp"])
        dk = "<%s as core::fmt::Display>::fmt" % sty
        d = F.fn(dk)
        if d is not None:
            cs = [facts.callee(c) or "" for c in facts.calls(d["body"])]
            C.ob("C20/routing-print", sty, any(c.endswith("::to_paragraph") for c in cs), "Display must print the struct's derived to_paragraph (calls: %s)" % [c[-60:] for c in cs], d["sp"])

    # ------------------------------------------------------------------ D2 printers: one empty line between paragraphs
    check_printers(F, C)
    check_value_shapes_reread(F, C)
    check_dep3_fallbacks(F, C)
    check_repositories_reject(F, C)
    # ------------------------------------------------------------------ D5 paragraph-level print/re-read of every lossy document struct
    # (the per-struct analysis of C16, restricted to the structs the lossy documents are made of)
    import c16
    doc_structs = set(SIBLINGS) | {k for k in F.adts if k.startswith(("debian_control::lossy::", "debian_copyright::lossy::", "dep3::lossy::", "apt_sources::"))}
    nf = c16.check_structs(F, C, only=lambda k: k in doc_structs, rule_prefix="C20/derived", floors=False)
    C.floor("C20/derived/fields", nf, 100, "fields of lossy document structs taken through to_paragraph / from_paragraph / update_paragraph")
    C.assumptions += ["the document-level print/reparse fixpoint is composed from: the paragraph-level round trip of every lossy document struct (decided here with C16's engine, incl. present-but-empty optional values), C08 (printer forms), C03/C06 (readers) and the classification clauses decided here",
                      "classification is validated on sequences of <= 3 paragraphs"]
    return C.finish("Sibling name tables are extracted by interpreting the lossy derive expansions and every lossless accessor; the classification loops of lossy Control/Copyright are interpreted on all short paragraph sequences "
                    "against the document model and its rejections; routing and paragraph separators are checked on the printers/readers of every lossy document type.")


class DocMod(c15.Mod):
    def __init__(self, facts, paras, conv):
        super().__init__(facts)
        self.paras = paras
        self.conv = conv      # callee substring -> marker

    def intrinsic(self, I, callee, args, st, n):
        c = callee
        if c == "core::str::<impl str>::parse" or c.endswith("Deb822 as core::str::traits::FromStr>::from_str"):
            return [(OK, ("enum", OKV, (("abs", "doc"),)), st)]
        if c == "deb822_lossless::lossless::Deb822::paragraphs":
            return [(OK, ("abs", "siter", self.paras, 0), st)]
        if c.endswith("::from_paragraph"):
            for sub, marker in self.conv.items():
                if sub in c:
                    p = I.deref_val(st, args[0])
                    idx = None
                    for i, q in enumerate(self.paras):
                        if q == p:
                            idx = i
                    return [(OK, ("enum", OKV, ((("abs", marker, idx)),)), st)]
        if c == "alloc::vec::Vec::<T>::new" or c.startswith("alloc::boxed::box_assume_init_into_vec") or c == "alloc::slice::<impl [T]>::into_vec":
            return [(OK, ("abs", "svec", ()), st)]
        return super().intrinsic(I, c, args, st, n)


def para_of(fields, idx):
    return ("abs", "para", tuple((symstr.lit(k), symstr.atom("%s%d" % (v, idx), "line")) for k, v in fields))


def outcome(I, ctl, v, s):
    v = I.deep_deref(s, I.deref_val(s, v), 0)
    if ctl != OK:
        return ("ctl", ctl)
    if v[0] == "enum" and v[1] == ERRV:
        return ("err",)
    if v[0] == "enum" and v[1] == OKV:
        return ("ok", v[2][0])
    return ("?", str(v)[:60])


def check_control_shape(F, C, f, kinds, shape):
    paras = tuple(para_of(kinds[k], i) for i, k in enumerate(shape))
    mod = DocMod(F, paras, {"control::Source": "src", "control::Binary": "bin"})
    I = hirai.Interp(F, mod)
    res = I.inline(f, [("abs", "text")], hirai.State(depth=0))
    outs = [outcome(I, ctl, v, s) for ctl, v, s in res]
    # model: Package wins over Source in one paragraph; exactly one source; no paragraph of neither kind
    cls = ["B" if "B" in k else ("S" if k.startswith("S") else "N") for k in shape]
    ok_model = "N" not in cls and cls.count("S") == 1
    # an N paragraph is only an error if reached before another error; any error is fine
    if ok_model:
        want_src = cls.index("S")
        want_bins = [i for i, k in enumerate(cls) if k == "B"]
        good = len(outs) == 1 and outs[0][0] == "ok"
        if good:
            d = dict(outs[0][1][2]) if outs[0][1][0] == "struct" else {}
            src = d.get("source")
            bins = d.get("binaries")
            good = src == ("abs", "src", want_src) and bins is not None and bins[0] == "abs" and [b[2] for b in bins[2]] == want_bins
        C.ob("C20/control-classification", "paragraph kinds %s" % list(shape), good, "yields %s, expected source=paragraph %d, binaries=%s" % ([str(o)[:160] for o in outs], want_src, want_bins), f["sp"])
    else:
        C.ob("C20/control-rejection", "paragraph kinds %s" % list(shape), len(outs) >= 1 and all(o == ("err",) for o in outs),
             "yields %s, expected an error (no / several source paragraphs or a paragraph of neither kind)" % [str(o)[:100] for o in outs], f["sp"])


def check_copyright_shape(F, C, f, shape):
    kinds = {"F": (("License", "l"), ("Copyright", "c"), ("Files", "f")), "L": (("Comment", "c"), ("License", "l")), "N": (("Comment", "c"),)}
    header = para_of((("Format", "fmt"),), 99)
    paras = (header,) + tuple(para_of(kinds[k], i) for i, k in enumerate(shape))
    mod = DocMod(F, paras, {"lossy::Header": "hdr", "lossy::FilesParagraph": "files", "lossy::LicenseParagraph": "lic"})
    I = hirai.Interp(F, mod)
    inp = symstr.mk([("lit", "Format: "), ("atom", "rest", "text")])
    res = I.inline(f, [inp], hirai.State(depth=0))
    outs = [outcome(I, ctl, v, s) for ctl, v, s in res]
    if "N" in shape:
        C.ob("C20/copyright-rejection", "paragraph kinds %s" % list(shape), len(outs) >= 1 and all(o == ("err",) for o in outs), "yields %s, expected an error" % [str(o)[:100] for o in outs], f["sp"])
        return
    good = len(outs) == 1 and outs[0][0] == "ok" and outs[0][1][0] == "struct"
    if good:
        d = dict(outs[0][1][2])
        fl = d.get("files")
        li = d.get("licenses")
        good = d.get("header") == ("abs", "hdr", 0) and fl and li and [x[2] - 1 for x in fl[2]] == [i for i, k in enumerate(shape) if k == "F"] and [x[2] - 1 for x in li[2]] == [i for i, k in enumerate(shape) if k == "L"]
    C.ob("C20/copyright-classification", "paragraph kinds %s" % list(shape), good, "yields %s, expected header + Files paragraphs %s + licence paragraphs %s" %
         ([str(o)[:200] for o in outs], [i for i, k in enumerate(shape) if k == "F"], [i for i, k in enumerate(shape) if k == "L"]), f["sp"])


class PrintMod(roundtrip.RTMod):
    """sub-documents print as '<atom>\\n'"""

    def display_into(self, I, st, fref, v, n, ty=None):
        v2 = I.deref_val(st, v)
        if v2[0] == "abs" and v2[1] == "part":
            return [(OK, ("enum", OKV, (UNIT,)), self.out_append(I, st, fref, [("atom", v2[2], "text"), ("lit", "\n")]))]
        return super().display_into(I, st, fref, v, n, ty)

    def intrinsic(self, I, callee, args, st, n):
        import c08
        a0 = I.deref_val(st, args[0]) if args else None
        if a0 is not None and a0[0] == "tuple" and args and args[0][0] == "ref":
            r = c08.VecMod.intrinsic(self, I, callee, args, st, n)
            if r is not None:
                return r
        if a0 is not None and a0[0] == "abs" and a0[1] == "part":
            if callee.endswith("::to_paragraph"):
                return [(OK, a0, st)]
            if callee in ("<T as alloc::string::ToString>::to_string", "alloc::string::ToString::to_string"):
                return [(OK, symstr.mk([("atom", a0[2], "text"), ("lit", "\n")]), st)]
        return super().intrinsic(I, callee, args, st, n)


def check_dep3_fallbacks(F, C):
    """DEP-3 pseudo-headers: the lossy reader's Author/From and Description/Subject fallbacks must select the same
    field as the lossless accessors on every combination of presence"""
    lk = "<dep3::lossy::PatchHeader as core::str::traits::FromStr>::from_str"
    lf = F.fn(lk)
    if not C.ob("C20/anchor", lk, lf is not None, "not found"):
        return
    LPARA = "deb822_lossless::lossy::Paragraph::"

    class M(c15.Mod):
        cur = None

        def intrinsic(self, I, callee, args, st, n):
            if callee in ("<deb822_lossless::lossy::Paragraph as core::str::traits::FromStr>::from_str", "<deb822_lossless::lossless::Paragraph as core::str::traits::FromStr>::from_str"):
                return [(OK, ("enum", OKV, (self.cur,)), st)]
            if callee.startswith(LPARA):
                return super().intrinsic(I, c15.PARA + callee[len(LPARA):], args, st, n)
            return super().intrinsic(I, callee, args, st, n)
    for primary, fallback, field, acc in (("Author", "From", "author", "author"), ("Description", "Subject", "description", "description")):
        for has_p in (False, True):
            for has_f in (False, True):
                pairs = []
                if has_f:
                    pairs.append((symstr.lit(fallback), symstr.atom("from-" + fallback.lower(), "word")))
                if has_p:
                    pairs.append((symstr.lit(primary), symstr.atom("from-" + primary.lower(), "word")))
                para = ("abs", "para", tuple(pairs))
                label = "%s: %s %s, %s %s" % (field, primary, "present" if has_p else "absent", fallback, "present" if has_f else "absent")
                mod = M(F)
                mod.cur = para
                I = hirai.Interp(F, mod)
                res = I.inline(lf, [("abs", "text")], hirai.State(depth=0))
                lossy_vals = set()
                for ctl, v, s in res:
                    v = I.deep_deref(s, I.deref_val(s, v), 0) if ctl == OK else v
                    if ctl == OK and v[0] == "enum" and v[1] == OKV and v[2][0][0] == "struct":
                        lossy_vals.add(show_value(normalize(dict(v[2][0][2]).get(field))))
                    else:
                        lossy_vals.add("%s %s" % (ctl, str(v)[:60]))
                la = F.fn("dep3::lossless::PatchHeader::" + acc)
                mod2 = c15.Mod(F)
                I2 = hirai.Interp(F, mod2)
                st2 = hirai.State(depth=0).setroot(("T", "view"), ("struct", "dep3::lossless::PatchHeader", (("0", para),)))
                r2 = I2.inline(la, [("ref", (("T", "view"),))], st2) if la else []
                lossless_vals = {show_value(normalize(I2.deep_deref(s, I2.deref_val(s, v), 0))) if ctl == OK else "%s" % ctl for ctl, v, s in r2}
                lossless_vals = {x for x in lossless_vals if "'unk'" not in x} or lossless_vals     # drop undecided forks of split().next()
                C.ob("C20/dep3-fallbacks", label, len(lossy_vals) == 1 and lossy_vals == lossless_vals,
                     "the lossy reader yields %s = %s, the lossless accessor %s() yields %s" % (field, sorted(lossy_vals), acc, sorted(lossless_vals)), lf["sp"])


def check_repositories_reject(F, C):
    """apt-sources: a stanza whose typed conversion fails makes the whole list fail (it is not silently dropped), and
    every stanza that converts is kept, in order"""
    k = "<apt_sources::Repositories as core::str::traits::FromStr>::from_str"
    f = F.fn(k)
    if not C.ob("C20/anchor", k, f is not None, "not found"):
        return
    for nm, results in (("second of three stanzas fails", ["ok0", "ERR", "ok2"]), ("all three convert", ["ok0", "ok1", "ok2"]), ("the only stanza fails", ["ERR"]), ("no stanza", [])):
        class M(roundtrip.RTMod):
            def intrinsic(self, I, callee, args, st, n, results=results):
                if callee == "core::str::<impl str>::parse" or callee.endswith("lossless::Deb822 as core::str::traits::FromStr>::from_str"):
                    return [(OK, ("enum", OKV, (("abs", "doc"),)), st)]
                if callee.endswith("Deb822::paragraphs"):
                    return [(OK, ("abs", "siter", tuple(("abs", "para", i) for i in range(len(results))), 0), st)]
                if callee.endswith("FromDeb822Paragraph<deb822_lossless::lossless::Paragraph>>::from_paragraph") or callee.endswith("::from_paragraph"):
                    p = I.deref_val(st, args[0])
                    r = results[p[2]] if p[0] == "abs" and p[1] == "para" else "ERR"
                    return [(OK, ("enum", ERRV, (symstr.lit("missing field"),)) if r == "ERR" else ("enum", OKV, (("abs", "repo", r),)), st)]
                if callee == "core::iter::traits::iterator::Iterator::collect" and (n.get("ty", "") if isinstance(n, dict) else "").startswith("core::result::Result<"):
                    a0 = I.deref_val(st, args[0])
                    if a0[0] == "abs" and a0[1] == "siter":
                        vals = []
                        for it in a0[2][a0[3]:]:
                            if it[0] == "enum" and it[1] == OKV:
                                vals.append(it[2][0])
                            else:
                                return [(OK, it, st)]
                        return [(OK, ("enum", OKV, (("abs", "svec", tuple(vals)),)), st)]
                return super().intrinsic(I, callee, args, st, n)
        I = hirai.Interp(F, M(F))
        res = I.inline(f, [("abs", "text")], hirai.State(depth=0))
        got = []
        for ctl, v, s in res:
            v = I.deep_deref(s, I.deref_val(s, v), 0) if ctl == OK else v
            if ctl == OK and v[0] == "enum" and v[1] == ERRV:
                got.append("Err")
            elif ctl == OK and v[0] == "enum" and v[1] == OKV:
                inner = v[2][0]
                vec = inner[2][0] if inner[0] in ("enum", "struct") and inner[2] else inner
                if isinstance(vec, tuple) and len(vec) == 2 and vec[0] == "0":
                    vec = vec[1]
                got.append([x[2] for x in vec[2]] if isinstance(vec, tuple) and vec and vec[0] == "abs" and vec[1] in ("svec", "siter") else "Ok(%s)" % str(inner)[:60])
            else:
                got.append("%s %s" % (ctl, str(v)[:60]))
        want = ["Err"] if "ERR" in results else [list(results)]
        C.ob("C20/repositories-reject", nm, got == want, "Repositories::from_str yields %s, expected %s" % (got, want), f["sp"])


def check_value_shapes_reread(F, C):
    """values the lossy reader can produce (incl. an empty line inside a multi-line value, from a continuation line
    holding only blanks) must print to text that re-lexes into ONE paragraph with the same field and non-blank lines"""
    import c05, c07, c08
    LP = "deb822_lossless::lossy::"
    mod = roundtrip.RTMod(F)
    shapes = {
        "empty line in the middle": [("atom", "l0", "line"), ("lit", "\n\n"), ("atom", "l2", "line")],
        "two empty lines in the middle": [("atom", "l0", "line"), ("lit", "\n\n\n"), ("atom", "l3", "line")],
        "empty first line, then an empty line in the middle": [("lit", "\n"), ("atom", "l1", "line"), ("lit", "\n\n"), ("atom", "l3", "line")],
        "three lines": [("atom", "l0", "line"), ("lit", "\n"), ("atom", "l1", "line"), ("lit", "\n"), ("atom", "l2", "line")],
    }
    dk = "<%sField as core::fmt::Display>::fmt" % LP
    if not C.ob("C20/anchor", dk, F.fn(dk) is not None, "Field Display not found"):
        return
    for sname, ps in shapes.items():
        val = symstr.mk(ps)
        fv = ("struct", LP + "Field", (("name", symstr.lit("Name")), ("value", val)))
        follow = ("struct", LP + "Field", (("name", symstr.lit("Next")), ("value", symstr.atom("n", "line"))))
        texts = []
        for f in (fv, follow):
            outs, I = roundtrip.render_value(F, mod, f)
            texts.append([r for ctl, r in outs if ctl == OK and r[0] in ("sstr", "str")] if len(outs) == 1 else [])
        if not C.ob("C20/print-decidable", sname, all(len(t) == 1 for t in texts), "Field Display not decidable"):
            continue
        pieces = symstr.pieces_of(texts[0][0]) + symstr.pieces_of(texts[1][0])
        re_toks = c07.relex(F, [("TEXT", symstr.mk(pieces))])
        paras, err = c05.split_by_dfa(re_toks) if re_toks is not None else (None, "the printed text cannot be re-lexed")
        want_lines = "\n".join(x for x in symstr.show(val).split("\n") if x != "")
        C.ob("C20/value-shapes-reread", sname, err is None and paras == [[("Name", want_lines), ("Next", "<n>")]],
             "a field holding %r followed by another field prints %r, which re-reads as %s (%s); expected one paragraph with the same non-blank lines" % (symstr.show(val), symstr.show(symstr.mk(pieces)), paras, err), F.fn(dk)["sp"])


def check_printers(F, C):
    import c08
    mod = PrintMod(F)
    part = lambda nm: ("abs", "part", nm)
    # lossy Control
    for nb, want in ((0, "<src>\n"), (1, "<src>\n\n<b0>\n"), (2, "<src>\n\n<b0>\n\n<b1>\n")):
        v = ("struct", "debian_control::lossy::control::Control", (("source", part("src")), ("binaries", ("tuple", tuple(part("b%d" % i) for i in range(nb))))))
        outs, I = roundtrip.render_value(F, mod, v)
        got = [symstr.show(r) for ctl, r in outs if ctl == OK]
        C.ob("C20/print-separator", "lossy Control with %d binaries" % nb, got == [want], "prints %r, expected %r (paragraphs separated by exactly one empty line)" % (got, want))
    for nf, nl in ((0, 0), (1, 0), (1, 1), (2, 1)):
        v = ("struct", "debian_copyright::lossy::Copyright", (("header", part("hdr")), ("files", ("tuple", tuple(part("f%d" % i) for i in range(nf)))), ("licenses", ("tuple", tuple(part("l%d" % i) for i in range(nl))))))
        want = "<hdr>\n" + "".join("\n<f%d>\n" % i for i in range(nf)) + "".join("\n<l%d>\n" % i for i in range(nl))
        outs, I = roundtrip.render_value(F, mod, v)
        got = [symstr.show(r) for ctl, r in outs if ctl == OK]
        C.ob("C20/print-separator", "lossy Copyright with %d files / %d licence paragraphs" % (nf, nl), got == [want], "prints %r, expected %r" % (got, want))
    # apt-sources Repositories::to_string
    tk = "<apt_sources::Repositories as alloc::string::ToString>::to_string"
    f = F.fn(tk)
    if C.ob("C20/anchor", tk, f is not None, "not found"):
        for nr, want in ((0, ""), (1, "<r0>\n"), (2, "<r0>\n\n<r1>\n")):
            v = ("struct", "apt_sources::Repositories", (("0", ("tuple", tuple(part("r%d" % i) for i in range(nr)))),))
            I = hirai.Interp(F, mod)
            st = hirai.State(depth=0)
            st, p = I.newtemp(st, v)
            res = I.inline(f, [("ref", p)], st)
            got = [symstr.show(I.deref_val(s, r)) if I.deref_val(s, r)[0] in ("sstr", "str") else str(r)[:60] for ctl, r, s in res if ctl == OK]
            C.ob("C20/print-separator", "Repositories with %d repositories" % nr, got == [want], "prints %r, expected %r" % (got, want), f["sp"])
