"""Symbolic string domain for hirai: strings are sequences of literal pieces and opaque atoms.

  ('sstr', (piece, ...))   piece = ('lit', text) | ('atom', name, cls)
cls: 'word' - non-empty, no whitespace, none of the syntax characters, different from every keyword
     'int'  - decimal digits
     'line' - non-empty text without newline (may contain spaces)
Atoms stand for "any valid component value"; a literal comparison against an atom is False
(the atom is assumed not to collide with keywords/prefixes) -- this is the stated domain of
the round-trip properties (valid component strings).

Also provides: output buffers for fmt::Formatter / format!, Display dispatch for workspace types,
str::parse dispatch to workspace FromStr impls, and simple abstract iterators over piece lists.
"""
import re
import hirai
from hirai import OK, RET, PANIC, some, none, unk, SOME, NONE, OKV, ERRV, UNIT


def norm(pieces):
    out = []
    for p in pieces:
        if p[0] == "lit":
            if p[1] == "":
                continue
            if out and out[-1][0] == "lit":
                out[-1] = ("lit", out[-1][1] + p[1])
                continue
        out.append(p)
    return tuple(out)


def mk(pieces):
    return ("sstr", norm(pieces))


def lit(s):
    return mk([("lit", s)])


def atom(name, cls="word"):
    return mk([("atom", name, cls)])


def pieces_of(v):
    if v[0] == "str":
        return norm([("lit", v[1])])
    if v[0] == "char":
        return norm([("lit", v[1])])
    if v[0] == "sstr":
        return v[1]
    return None


def is_concrete(p):
    return all(x[0] == "lit" for x in p)


def concrete(p):
    return "".join(x[1] for x in p)


def show(v):
    p = pieces_of(v) if isinstance(v, tuple) and v and v[0] in ("str", "sstr", "char") else None
    if p is None:
        return str(v)
    return "".join(x[1] if x[0] == "lit" else "<%s>" % x[1] for x in p)


WS = " \t\n\r\x0b\x0c"


def tokens_ws(p):
    """split pieces at whitespace in literals; atoms of cls word/int are unsplittable. returns list of piece tuples or None"""
    toks, cur = [], []
    for x in p:
        if x[0] == "atom":
            if x[2] not in ("word", "int", "url"):
                return None
            cur.append(x)
        else:
            buf = ""
            for ch in x[1]:
                if ch in WS:
                    if buf:
                        cur.append(("lit", buf))
                        buf = ""
                    if cur:
                        toks.append(norm(cur))
                        cur = []
                else:
                    buf += ch
            if buf:
                cur.append(("lit", buf))
    if cur:
        toks.append(norm(cur))
    return toks


def split_lit(p, sep, maxn=None):
    """split pieces on a literal separator occurring inside literal pieces (atoms never contain it,
    unless cls line/text and sep is whitespace-ish -> None)."""
    parts, cur = [], []
    n = 1
    for x in p:
        if x[0] == "atom":
            may_contain = (x[2] == "text") or (x[2] == "line" and "\n" not in sep)
            if may_contain and not (maxn is not None and n >= maxn):
                return None
            cur.append(x)
            continue
        s = x[1]
        while True:
            if maxn is not None and n >= maxn:
                cur.append(("lit", s))
                break
            i = s.find(sep)
            if i < 0:
                cur.append(("lit", s))
                break
            cur.append(("lit", s[:i]))
            parts.append(norm(cur))
            cur = []
            n += 1
            s = s[i + len(sep):]
    parts.append(norm(cur))
    return parts


def starts_with(p, pre):
    """True/False/None"""
    if not p:
        return pre == ""
    if p[0][0] == "lit":
        s = p[0][1]
        if s.startswith(pre):
            return True
        if len(s) >= len(pre) or not pre.startswith(s):
            return False
        # literal shorter than prefix and is a prefix of it: depends on what follows
        if len(p) == 1:
            return False
        return False if p[1][0] == "atom" else None
    return False  # atom: assumed not to start with a keyword/prefix


def ends_with(p, suf):
    if not p:
        return suf == ""
    if p[-1][0] == "lit":
        s = p[-1][1]
        if s.endswith(suf):
            return True
        if len(s) >= len(suf) or not suf.endswith(s):
            return False
        return False
    return False


class SymStr:
    """mixin: intrinsic() for string/fmt/iterator operations"""
    str_cap = 120

    def __init__(self, facts):
        self.facts = facts
        self.display_impls = {}
        self.fromstr_impls = {}
        for k, f in facts.fns.items():
            if f.get("trait") == "core::fmt::Display" and f.get("name") == "fmt":
                self.display_impls[f["self_ty"]] = k
            if f.get("trait") == "core::str::traits::FromStr" and f.get("name") == "from_str":
                self.fromstr_impls[f["self_ty"]] = k
        self.opaque_parse = {}

    # ---- output buffers: ('abs','out', pieces)
    def out_append(self, I, st, fref, pieces):
        if fref[0] != "ref":
            return st
        cur = I.read(st, fref[1])
        if cur[0] == "abs" and cur[1] == "out":
            if cur[2] is None or pieces is None:
                return I.write(st, fref[1], ("abs", "out", None))
            return I.write(st, fref[1], ("abs", "out", norm(cur[2] + tuple(pieces))))
        return st

    def type_of_value(self, v):
        if v[0] == "enum":
            if v[1] in self.facts.adts:            # tuple struct built through its constructor
                return v[1]
            return v[1].rsplit("::", 1)[0]
        if v[0] == "struct":
            if v[1] not in self.facts.adts and v[1].rsplit("::", 1)[0] in self.facts.adts:
                return v[1].rsplit("::", 1)[0]
            return v[1]
        return None

    def display_into(self, I, st, fref, v, n, ty=None):
        """append Display of value v to formatter fref. returns list of (ctl, val, st)"""
        v = I.deref_val(st, v)
        p = pieces_of(v)
        if p is not None:
            return [(OK, ("enum", OKV, (UNIT,)), self.out_append(I, st, fref, p))]
        if v[0] == "int" and v[1] != "big":
            return [(OK, ("enum", OKV, (UNIT,)), self.out_append(I, st, fref, [("lit", str(v[1]))]))]
        if v[0] == "bool":
            return [(OK, ("enum", OKV, (UNIT,)), self.out_append(I, st, fref, [("lit", "true" if v[1] else "false")]))]
        t = self.type_of_value(v)
        if t in self.display_impls:
            f = self.facts.fns[self.display_impls[t]]
            s2, p2 = I.newtemp(st, v)
            return I.inline(f, [("ref", p2), fref], s2)
        if v[0] == "abs" and v[1] == "opaque":
            return [(OK, ("enum", OKV, (UNIT,)), self.out_append(I, st, fref, [("atom", v[2], "word")]))]
        # unknown display
        return [(OK, ("enum", OKV, (UNIT,)), self.out_append(I, st, fref, None))]

    def render(self, I, st, v, n):
        """Display a value into a fresh buffer: returns list of (ctl, sstr|unk, st)"""
        self.tmpn = getattr(self, "tmpn", 0) + 1
        root = ("T", "buf%d" % (st.depth,))
        s = st.setroot(root, ("abs", "out", ()))
        out = []
        for ctl, r, s2 in self.display_into(I, s, ("ref", (root,)), v, n):
            if ctl != OK:
                out.append((ctl, r, s2))
                continue
            buf = s2.store.get(root)
            s3 = s2.copy()
            s3.store.pop(root, None)
            if buf and buf[2] is not None:
                out.append((OK, ("sstr", buf[2]), s3))
            else:
                out.append((OK, unk("render"), s3))
        return out

    def fmt_into(self, I, st, fref, fv, n):
        """fv = ('fmtv', items) items: ('lit', s) | ('arg', trait, value)"""
        def go(i, s):
            if i == len(fv[1]):
                return [(OK, ("enum", OKV, (UNIT,)), s)]
            it = fv[1][i]
            if it[0] == "lit":
                return go(i + 1, self.out_append(I, s, fref, [("lit", it[1])]))
            if it[1] != "new_display":
                return go(i + 1, self.out_append(I, s, fref, None))
            out = []
            for ctl, r, s2 in self.display_into(I, s, fref, it[2], n):
                if ctl != OK:
                    out.append((ctl, r, s2))
                elif r[0] == "enum" and r[1] == ERRV:
                    out.append((OK, r, s2))
                else:
                    out.extend(go(i + 1, s2))
            return out
        return go(0, st)

    def parse_to(self, I, st, sv, ty, n):
        """str::parse::<ty>(sv)"""
        p = pieces_of(sv)
        if ty in ("alloc::string::String",):
            return [(OK, ("enum", OKV, (sv,)), st)]
        if ty == "bool":
            if p is not None and is_concrete(p):
                s = concrete(p)
                if s in ("true", "false"):
                    return [(OK, ("enum", OKV, (("bool", s == "true"),)), st)]
                return [(OK, ("enum", ERRV, (unk("parsebool"),)), st)]
        if re.fullmatch(r"(u|i)(8|16|32|64|128|size)", ty or ""):
            if p is not None and len(p) == 1 and p[0][0] == "atom" and p[0][2] == "int":
                return [(OK, ("enum", OKV, (sv,)), st)]
            if p is not None and is_concrete(p):
                s = concrete(p)
                if re.fullmatch(r"\+?[0-9]+", s):
                    nval = int(s)
                    bits = {"8": 8, "16": 16, "32": 32, "64": 64, "128": 128, "size": 64}[re.fullmatch(r"(u|i)(8|16|32|64|128|size)", ty).group(2)]
                    if nval >= (1 << (bits - (1 if ty.startswith("i") else 0))):
                        return [(OK, ("enum", ERRV, (atom("number too large to fit in target type", "word"),)), st)]
                    return [(OK, ("enum", OKV, (hirai.mkint(nval) if nval < 65536 else ("int", nval),)), st)]
                return [(OK, ("enum", ERRV, (unk("parseint"),)), st)]
            if p is not None and all(x[0] == "atom" and x[2] == "word" for x in p) and len(p) == 1:
                return [(OK, ("enum", ERRV, (unk("parseint"),)), st)]
            return [(OK, ("enum", OKV, (unk("int"),)), st), (OK, ("enum", ERRV, (unk("parseint"),)), st)]
        if ty in self.fromstr_impls:
            f = self.facts.fns[self.fromstr_impls[ty]]
            return I.inline(f, [sv], st)
        # opaque external type (url::Url, chrono, debversion::Version ...): an atom parses to itself
        if p is not None and len(p) == 1 and p[0][0] == "atom":
            return [(OK, ("enum", OKV, (sv,)), st)]
        if ty == "debversion::Version" and p is not None and p and all(x[0] == "lit" or x[2] in ("word", "int") for x in p) and not any(ch in WS for x in p if x[0] == "lit" for ch in x[1]):
            return [(OK, ("enum", OKV, (mk(p),)), st)]
        return [(OK, ("enum", OKV, (unk("parsed:" + str(ty)),)), st), (OK, ("enum", ERRV, (unk("parse-err"),)), st)]

    # ---- iterators: ('abs','siter', items_tuple, idx)
    def iter_next(self, I, st, ref, n):
        if ref[0] != "ref":
            return None
        it = I.read(st, ref[1])
        while it[0] == "ref":          # `&mut &mut I`: the for-loop's own binding of a borrowed iterator
            ref = it
            it = I.read(st, ref[1])
        if it[0] == "abs" and it[1] == "siter":
            items, i = it[2], it[3]
            if i < len(items):
                return [(OK, some(items[i]), I.write(st, ref[1], ("abs", "siter", items, i + 1)))]
            return [(OK, none(), st)]
        return None

    def intrinsic(self, I, callee, args, st, n):
        c = callee
        a0 = I.deref_val(st, args[0]) if args else None
        p0 = pieces_of(a0) if a0 is not None else None

        # ---------------- formatting
        if c == "core::fmt::Formatter::<'a>::write_str":
            p = pieces_of(I.deref_val(st, args[1]))
            return [(OK, ("enum", OKV, (UNIT,)), self.out_append(I, st, args[0], p))]
        if c == "core::fmt::Formatter::<'a>::write_fmt" or c == "core::fmt::Write::write_fmt" or c.endswith("::write_fmt"):
            fv = args[1]
            cur = I.read(st, args[0][1]) if args[0][0] == "ref" else None
            if cur is not None and cur[0] == "sstr":
                # write! into a String
                root = ("T", "wbuf")
                s = st.setroot(root, ("abs", "out", cur[1]))
                out = []
                for ctl, r, s2 in (self.fmt_into(I, s, ("ref", (root,)), fv, n) if fv[0] == "fmtv" else [(OK, unk("w"), s)]):
                    buf = s2.store.get(root)
                    s3 = s2.copy(); s3.store.pop(root, None)
                    nv = ("sstr", buf[2]) if buf and buf[2] is not None else unk("wfmt")
                    out.append((ctl, r, I.write(s3, args[0][1], nv)))
                return out
            if fv[0] == "fmtv":
                return self.fmt_into(I, st, args[0], fv, n)
            return [(OK, ("enum", OKV, (UNIT,)), self.out_append(I, st, args[0], None))]
        if c in ("alloc::fmt::format", "std::fmt::format"):
            fv = args[0]
            if fv[0] != "fmtv":
                return [(OK, unk("format"), st)]
            root = ("T", "fbuf%d" % st.depth)
            s = st.setroot(root, ("abs", "out", ()))
            out = []
            for ctl, r, s2 in self.fmt_into(I, s, ("ref", (root,)), fv, n):
                buf = s2.store.get(root)
                s3 = s2.copy(); s3.store.pop(root, None)
                if ctl != OK:
                    out.append((ctl, r, s3))
                elif buf and buf[2] is not None:
                    out.append((OK, ("sstr", buf[2]), s3))
                else:
                    out.append((OK, unk("format"), s3))
            return out
        if c.endswith("as core::fmt::Display>::fmt") and c not in self.facts.fns:
            # Display of a std type (String, str, usize, &T ...)
            return self.display_into(I, st, args[1], a0, n)
        if c == "core::fmt::Display::fmt":
            return self.display_into(I, st, args[1], a0, n)
        if c in ("<T as alloc::string::ToString>::to_string", "alloc::string::ToString::to_string"):
            if p0 is not None:
                return [(OK, mk(p0), st)]
            if a0[0] in ("enum", "struct", "int", "bool") or (a0[0] == "abs" and a0[1] == "opaque"):
                return self.render(I, st, a0, n)
            return [(OK, a0, st)]

        # ---------------- plain string ops
        if p0 is None and c.startswith(("core::str::<impl str>::", "alloc::str::<impl str>::", "alloc::string::String::")) and c not in ("alloc::string::String::new",):
            if a0 is not None and a0[0] == "unk":
                return None
        if c == "alloc::string::String::new" or c == "<alloc::string::String as core::default::Default>::default":
            return [(OK, lit(""), st)]
        if c in ("alloc::string::String::push_str", "alloc::string::String::push"):
            tgt = args[0]
            add = pieces_of(I.deref_val(st, args[1]))
            if tgt[0] == "ref":
                cur = pieces_of(I.read(st, tgt[1]))
                if cur is not None and add is not None:
                    nv = mk(cur + add)
                    if len(nv[1]) > self.str_cap or sum(len(x[1]) for x in nv[1] if x[0] == "lit") > 8 * self.str_cap:
                        nv = unk("longstring")
                    return [(OK, UNIT, I.write(st, tgt[1], nv))]
                return [(OK, UNIT, I.write(st, tgt[1], unk("push")))]
            return [(OK, UNIT, st)]
        if c in ("<alloc::string::String as core::ops::arith::Add<&str>>::add", "core::ops::arith::Add::add") and p0 is not None:
            b = pieces_of(I.deref_val(st, args[1]))
            if p0 is not None and b is not None:
                return [(OK, mk(p0 + b), st)]
            return [(OK, unk("add"), st)]
        if p0 is not None:
            if c == "core::str::<impl str>::strip_prefix":
                pre = pieces_of(I.deref_val(st, args[1]))
                if pre is not None and is_concrete(pre):
                    pre = concrete(pre)
                    r = starts_with(p0, pre)
                    if r is True:
                        rest = (("lit", p0[0][1][len(pre):]),) + p0[1:]
                        return [(OK, some(mk(rest)), st)]
                    if r is False:
                        return [(OK, none(), st)]
                return [(OK, none(), st), (OK, some(unk("strip")), st)]
            if c == "core::str::<impl str>::strip_suffix":
                suf = pieces_of(I.deref_val(st, args[1]))
                if suf is not None and is_concrete(suf):
                    suf = concrete(suf)
                    r = ends_with(p0, suf)
                    if r is True:
                        rest = p0[:-1] + (("lit", p0[-1][1][:len(p0[-1][1]) - len(suf)]),)
                        return [(OK, some(mk(rest)), st)]
                    if r is False:
                        return [(OK, none(), st)]
                return [(OK, none(), st), (OK, some(unk("strip")), st)]
            if c == "core::str::<impl str>::starts_with":
                pre = pieces_of(I.deref_val(st, args[1]))
                if pre is not None and is_concrete(pre):
                    r = starts_with(p0, concrete(pre))
                    if r is not None:
                        return [(OK, ("bool", r), st)]
                return [(OK, unk("starts_with"), st)]
            if c == "core::str::<impl str>::ends_with":
                suf = pieces_of(I.deref_val(st, args[1]))
                if suf is not None and is_concrete(suf):
                    r = ends_with(p0, concrete(suf))
                    if r is not None:
                        return [(OK, ("bool", r), st)]
                return [(OK, unk("ends_with"), st)]
            if c in ("core::str::<impl str>::is_empty", "alloc::string::String::is_empty"):
                return [(OK, ("bool", len(p0) == 0), st)]
            if c == "core::str::<impl str>::contains":
                pat = pieces_of(I.deref_val(st, args[1]))
                if pat is not None and is_concrete(pat):
                    pat = concrete(pat)
                    if any(x[0] == "lit" and pat in x[1] for x in p0):
                        return [(OK, ("bool", True), st)]
                    if all(x[0] == "lit" or x[2] in ("word", "int") for x in p0):
                        # atoms of class word/int contain no syntax characters
                        if not re.fullmatch(r"[A-Za-z0-9]+", pat):
                            return [(OK, ("bool", False), st)]
                return [(OK, unk("contains"), st)]
            # atoms of class 'raw' are arbitrary texts that may begin / end with blanks: trimming them gives a different text
            if c == "core::str::<impl str>::trim":
                q = list(p0)
                if q and q[0][0] == "lit":
                    q[0] = ("lit", q[0][1].lstrip())
                elif q and q[0][0] == "atom" and q[0][2] == "raw":
                    q[0] = ("atom", q[0][1] + ".trim_start", "raw")
                if q and q[-1][0] == "lit":
                    q[-1] = ("lit", q[-1][1].rstrip())
                elif q and q[-1][0] == "atom" and q[-1][2] == "raw":
                    q[-1] = ("atom", q[-1][1] + ".trim_end", "raw")
                return [(OK, mk(q), st)]
            if c in ("core::str::<impl str>::trim_start_matches", "core::str::<impl str>::trim_end_matches", "core::str::<impl str>::trim_matches") and len(args) > 1:
                pat = I.deref_val(st, args[1])
                chs = pat[1] if pat[0] == "char" else (concrete(pieces_of(pat)) if pat[0] in ("str", "sstr") and is_concrete(pieces_of(pat)) and len(concrete(pieces_of(pat))) == 1 else None)
                if chs is not None:
                    q = list(p0)
                    if not c.endswith("trim_end_matches"):
                        while q and q[0][0] == "lit":
                            t = q[0][1].lstrip(chs)
                            if t:
                                q[0] = ("lit", t)
                                break
                            q.pop(0)
                        else:
                            # free-text atoms may themselves begin with the character
                            if q and q[0][0] == "atom" and q[0][2] in ("text", "raw"):
                                q[0] = ("atom", q[0][1] + ".trim_start_matches", q[0][2])
                    if not c.endswith("trim_start_matches"):
                        while q and q[-1][0] == "lit":
                            t = q[-1][1].rstrip(chs)
                            if t:
                                q[-1] = ("lit", t)
                                break
                            q.pop()
                        else:
                            if q and q[-1][0] == "atom" and q[-1][2] in ("text", "raw"):
                                q[-1] = ("atom", q[-1][1] + ".trim_end_matches", q[-1][2])
                    return [(OK, mk(q), st)]
            if c == "core::str::<impl str>::trim_start":
                q = list(p0)
                if q and q[0][0] == "lit":
                    q[0] = ("lit", q[0][1].lstrip())
                elif q and q[0][0] == "atom" and q[0][2] == "raw":
                    q[0] = ("atom", q[0][1] + ".trim_start", "raw")
                return [(OK, mk(q), st)]
            if c == "core::str::<impl str>::trim_end":
                q = list(p0)
                if q and q[-1][0] == "lit":
                    q[-1] = ("lit", q[-1][1].rstrip())
                elif q and q[-1][0] == "atom" and q[-1][2] == "raw":
                    q[-1] = ("atom", q[-1][1] + ".trim_end", "raw")
                return [(OK, mk(q), st)]
            if c in ("alloc::str::<impl str>::to_lowercase", "alloc::str::<impl str>::to_ascii_lowercase", "alloc::str::<impl str>::to_uppercase", "alloc::str::<impl str>::to_ascii_uppercase"):
                low = "lower" in c
                # an atom stands for an arbitrary text of its class (mixed case possible): converting it gives another text
                return [(OK, mk([("lit", x[1].lower() if low else x[1].upper()) if x[0] == "lit" else (x if x[2] == "int" else ("atom", x[1] + (".lower" if low else ".upper"), x[2])) for x in p0]), st)]
            if c == "alloc::str::<impl str>::to_lowercase":
                if all(x[0] == "lit" or x[2] in ("int",) for x in p0):
                    return [(OK, mk([("lit", x[1].lower()) if x[0] == "lit" else x for x in p0]), st)]
                return [(OK, mk(p0), st)]   # atoms: assumed already canonical case
            if c == "core::str::<impl str>::char_indices" and is_concrete(p0):
                items, off = [], 0
                for ch in concrete(p0):
                    items.append(("tuple", (hirai.mkint(off), ("char", ch))))
                    off += len(ch.encode("utf-8"))
                return [(OK, ("abs", "siter", tuple(items), 0), st)]
            if c in ("core::str::<impl str>::len", "alloc::string::String::len"):
                if is_concrete(p0):
                    return [(OK, hirai.mkint(len(concrete(p0).encode("utf-8"))), st)]
                return [(OK, unk("strlen"), st)]
            if c in ("alloc::string::String::clear",) and args[0][0] == "ref":
                return [(OK, hirai.UNIT, I.write(st, args[0][1], lit("")))]
            if c == "alloc::str::<impl str>::repeat":
                cnt = I.deref_val(st, args[1])
                if is_concrete(p0) and cnt[0] == "int" and isinstance(cnt[1], int):
                    return [(OK, lit(concrete(p0) * cnt[1]), st)]
                return [(OK, unk("repeat"), st)]
            if c == "core::str::<impl str>::chars":
                if is_concrete(p0):
                    return [(OK, ("abs", "siter", tuple(("char", ch) for ch in concrete(p0)), 0), st)]
                return [(OK, unk("chars"), st)]
            if c in ("core::str::<impl str>::bytes", "core::str::<impl str>::as_bytes"):
                if is_concrete(p0):
                    items = tuple(("int", b) for b in concrete(p0).encode("utf-8"))
                    return [(OK, ("abs", "siter", items, 0) if c.endswith("::bytes") else ("abs", "svec", items), st)]
                return [(OK, unk("bytes"), st)]
            if c == "core::str::<impl str>::split_whitespace":
                toks = tokens_ws(p0)
                if toks is None:
                    return [(OK, unk("split_ws"), st)]
                return [(OK, ("abs", "siter", tuple(mk(t) for t in toks), 0), st)]
            if c in ("core::str::<impl str>::split", "core::str::<impl str>::splitn", "core::str::<impl str>::split_once", "core::str::<impl str>::lines"):
                if c.endswith("lines"):
                    sep, maxn = "\n", None
                    sp = p0
                else:
                    if c.endswith("splitn"):
                        cnt = I.deref_val(st, args[1])
                        sepv = pieces_of(I.deref_val(st, args[2]))
                        maxn = cnt[1] if cnt[0] == "int" and cnt[1] != "big" else None
                        if maxn is None:
                            return [(OK, unk("splitn"), st)]
                    else:
                        sepv = pieces_of(I.deref_val(st, args[1]))
                        maxn = 2 if c.endswith("split_once") else None
                    if sepv is None or not is_concrete(sepv):
                        return [(OK, unk("split"), st)]
                    sep = concrete(sepv)
                    sp = p0
                parts = split_lit(sp, sep, maxn)
                if parts is None:
                    return [(OK, unk("split"), st)]
                if c.endswith("lines"):
                    if parts and parts[-1] == ():
                        parts = parts[:-1]
                if c.endswith("split_once"):
                    if len(parts) < 2:
                        return [(OK, none(), st)]
                    return [(OK, some(("tuple", (mk(parts[0]), mk(parts[1])))), st)]
                return [(OK, ("abs", "siter", tuple(mk(t) for t in parts), 0), st)]
            if c == "core::str::<impl str>::parse":
                ty = n.get("ty", "")
                m = re.match(r"core::result::Result<(.*), ([^,]*(<.*>)?)>$", ty)
                tgt = m.group(1) if m else None
                # first generic arg may contain commas in generics; take balanced prefix
                if ty.startswith("core::result::Result<"):
                    inner = ty[len("core::result::Result<"):-1]
                    depth = 0
                    for i, ch in enumerate(inner):
                        if ch == "<":
                            depth += 1
                        elif ch == ">":
                            depth -= 1
                        elif ch == "," and depth == 0:
                            tgt = inner[:i]
                            break
                return self.parse_to(I, st, mk(p0), tgt, n)
            if c in ("core::cmp::PartialEq::eq", "core::cmp::PartialEq::ne") or c.endswith("PartialEq<str>>::eq") or "as core::cmp::PartialEq" in c:
                b = pieces_of(I.deref_val(st, args[1]))
                if b is not None:
                    eq = self.sstr_equal(p0, b)
                    if eq is not None:
                        return [(OK, ("bool", eq if not c.endswith("ne") else not eq), st)]
        m_ = re.fullmatch(r"core::num::<impl core::str::traits::FromStr for (\w+)>::from_str", c)
        if m_ and p0 is not None:
            return self.parse_to(I, st, mk(p0), m_.group(1), n)
        if c.endswith("as core::str::traits::FromStr>::from_str") and c not in self.facts.fns and p0 is not None:
            ty = c[1:].split(" as core::str::traits::FromStr>")[0]
            return self.parse_to(I, st, mk(p0), ty, n)
        # ---------------- iterators over piece lists
        if c.endswith("as core::iter::traits::iterator::Iterator>::next") or c == "core::iter::traits::iterator::Iterator::next":
            r = self.iter_next(I, st, args[0], n)
            if r is not None:
                return r
            if a0 is not None and a0[0] == "abs" and a0[1] == "siter" and args[0][0] != "ref":
                # next() on a temporary iterator: the advanced iterator is dropped
                return [(OK, some(a0[2][a0[3]]) if a0[3] < len(a0[2]) else none(), st)]
        if c in ("core::iter::traits::collect::IntoIterator::into_iter", "core::iter::traits::iterator::Iterator::by_ref") or c.endswith("IntoIterator>::into_iter"):
            if a0 is not None and a0[0] == "abs" and a0[1] == "siter":
                # `&mut I` is an iterator itself: iterating it advances the referenced iterator
                return [(OK, args[0] if c.endswith("by_ref") or args[0][0] == "ref" else a0, st)]
            if a0 is not None and a0[0] == "abs" and a0[1] == "sset":
                return [(OK, a0, st)]      # iterating a set: resolved when it is collected
        if (c == "core::iter::traits::iterator::Iterator::collect" or c.endswith("::collect")) and isinstance(n, dict) and n.get("ty") == "alloc::string::String":
            if a0 is not None and a0[0] == "abs" and a0[1] == "siter":
                ps = [pieces_of(I.deref_val(st, x)) for x in a0[2][a0[3]:]]
                if all(x is not None for x in ps):
                    out = []
                    for x in ps:
                        out.extend(x)
                    return [(OK, mk(out), st)]
                return [(OK, unk("collect-string"), st)]
        if c == "core::iter::traits::iterator::Iterator::collect" or c.endswith("::collect"):
            tyn = (n.get("ty") or "") if isinstance(n, dict) else ""
            if a0 is not None and a0[0] == "abs" and a0[1] == "siter" and tyn.startswith(("core::result::Result<", "core::option::Option<")) and not tyn.split("<", 1)[1].startswith("alloc::string::String"):
                # collecting Results / Options: the first Err / None is the result, otherwise the container of the payloads
                # (vectors, and maps as insertion-ordered pair lists)
                isres = tyn.startswith("core::result::Result<")
                vals, stop = [], None
                for it in a0[2][a0[3]:]:
                    it = I.deref_val(st, it)
                    if it[0] == "enum" and it[1] == (OKV if isres else SOME):
                        vals.append(it[2][0])
                    elif it[0] == "enum" and it[1] == (ERRV if isres else NONE):
                        stop = it
                        break
                    else:
                        stop = "?"
                        break
                if stop is None:
                    return [(OK, ("enum", OKV if isres else SOME, (("abs", "svec", tuple(vals)),)), st)]
                if stop != "?":
                    return [(OK, stop, st)]
            if a0 is not None and a0[0] == "abs" and a0[1] == "siter" and ("BTreeSet<" in tyn or "HashSet<" in tyn):
                # a set: order and multiplicity of the source are lost
                items = [I.deep_deref(st, I.deref_val(st, x), 0) for x in a0[2][a0[3]:]]
                uniq = sorted(set(items), key=repr)
                return [(OK, ("abs", "sset", tuple(uniq), "btree" if "BTreeSet<" in tyn else "hash"), st)]
            if a0 is not None and a0[0] == "abs" and a0[1] == "sset":
                ps = [pieces_of(x) if x[0] in ("sstr", "str") else None for x in a0[2]]
                if a0[3] == "btree" and all(p is not None and is_concrete(p) for p in ps):
                    return [(OK, ("abs", "svec", tuple(sorted(a0[2], key=lambda x: concrete(pieces_of(x)).encode()))), st)]
                if len(a0[2]) <= 1:
                    return [(OK, ("abs", "svec", tuple(a0[2])), st)]
                return [(OK, unk("iteration order of a set of symbolic texts"), st)]
            if a0 is not None and a0[0] == "abs" and a0[1] == "siter":
                return [(OK, ("abs", "svec", a0[2][a0[3]:]), st)]
        if c == "alloc::slice::<impl [T]>::concat" and a0 is not None and a0[0] == "abs" and a0[1] == "svec":
            ps = [pieces_of(I.deref_val(st, x)) for x in a0[2]]
            if all(x is not None for x in ps):
                out = []
                for x in ps:
                    out.extend(x)
                return [(OK, mk(out), st)]
            return [(OK, unk("concat"), st)]
        if c == "alloc::slice::<impl [T]>::join":
            if a0 is not None and a0[0] == "abs" and a0[1] == "svec":
                sep = pieces_of(I.deref_val(st, args[1]))
                ps = [pieces_of(I.deref_val(st, x)) for x in a0[2]]
                if sep is not None and all(x is not None for x in ps):
                    out = []
                    for i, x in enumerate(ps):
                        if i:
                            out.extend(sep)
                        out.extend(x)
                    return [(OK, mk(out), st)]
            return [(OK, unk("join"), st)]
        if c == "core::option::Option::<T>::ok_or_else":
            if a0[0] == "enum" and a0[1] == SOME:
                return [(OK, ("enum", OKV, a0[2]), st)]
            if a0[0] == "enum" and a0[1] == NONE:
                return I.then(I.apply(args[1], [], st, n), lambda r, s: [(OK, ("enum", ERRV, (r,)), s)])
            return [(OK, ("enum", OKV, (unk("ok_or"),)), st), (OK, ("enum", ERRV, (unk("ok_or"),)), st)]
        if c == "core::option::Option::<T>::ok_or":
            if a0[0] == "enum" and a0[1] == SOME:
                return [(OK, ("enum", OKV, a0[2]), st)]
            if a0[0] == "enum" and a0[1] == NONE:
                return [(OK, ("enum", ERRV, (args[1],)), st)]
            return [(OK, ("enum", OKV, (unk("ok_or"),)), st), (OK, ("enum", ERRV, (args[1],)), st)]
        if c == "core::result::Result::<T, E>::map_err":
            if a0[0] == "enum" and a0[1] == OKV:
                return [(OK, a0, st)]
            if a0[0] == "enum" and a0[1] == ERRV:
                return I.then(I.apply(args[1], [a0[2][0]], st, n), lambda r, s: [(OK, ("enum", ERRV, (r,)), s)])
            return [(OK, ("enum", OKV, (unk("map_err"),)), st), (OK, ("enum", ERRV, (unk("map_err"),)), st)]
        if c == "core::result::Result::<T, E>::map":
            if a0[0] == "enum" and a0[1] == ERRV:
                return [(OK, a0, st)]
            if a0[0] == "enum" and a0[1] == OKV:
                return I.then(I.apply(args[1], [a0[2][0]], st, n), lambda r, s: [(OK, ("enum", OKV, (r,)), s)])
        if c == "core::result::Result::<T, E>::ok":
            if a0[0] == "enum" and a0[1] == OKV:
                return [(OK, some(a0[2][0]), st)]
            if a0[0] == "enum" and a0[1] == ERRV:
                return [(OK, none(), st)]
        if c == "core::option::Option::<T>::unwrap_or_default":
            if a0[0] == "enum" and a0[1] == SOME:
                return [(OK, a0[2][0], st)]
            if a0[0] == "enum" and a0[1] == NONE:
                t = n.get("ty", "")
                if t in ("alloc::string::String", "&str"):
                    return [(OK, lit(""), st)]
                return [(OK, unk("default"), st)]
        if c == "regex::regex::string::Regex::new":
            if p0 is not None and is_concrete(p0):
                return [(OK, ("enum", OKV, (("abs", "regex", concrete(p0)),)), st)]
        if c == "core::char::methods::<impl char>::len_utf8" and a0 is not None and a0[0] == "char":
            return [(OK, hirai.mkint(len(a0[1].encode("utf-8"))), st)]
        if c == "core::hint::must_use":
            return [(OK, args[0], st)]
        import siterlib
        return siterlib.siter_intrinsic(I, c, args, st, n)

    def index(self, I, n, base, idx, st):
        """text[a..b] on a concrete text with concrete byte offsets"""
        b = I.deref_val(st, base)
        i = I.deref_val(st, idx)
        p = pieces_of(b) if b is not None and b[0] in ("str", "sstr") else None
        if p is None or not is_concrete(p) or i[0] != "struct" or not i[1].startswith("core::ops::range::Range") or "Inclusive" in i[1]:
            return None
        raw = concrete(p).encode("utf-8")
        d = {k: I.deref_val(st, v) for k, v in i[2]}
        lo = d["start"] if "start" in d else ("int", 0)
        hi = d["end"] if "end" in d else ("int", len(raw))
        if not (lo[0] == "int" and isinstance(lo[1], int) and hi[0] == "int" and isinstance(hi[1], int)):
            return None
        sp = n.get("sp") if isinstance(n, dict) else ""
        if lo[1] > hi[1] or hi[1] > len(raw):
            return [(PANIC, ("slice index out of range", sp), st)]
        try:
            return [(OK, lit(raw[lo[1]:hi[1]].decode("utf-8")), st)]
        except UnicodeDecodeError:
            return [(PANIC, ("slice index is not a char boundary", sp), st)]

    def sstr_equal(self, a, b):
        if is_concrete(a) and is_concrete(b):
            return concrete(a) == concrete(b)
        if a == b:
            return True
        # an atom never equals a literal keyword; differing atoms are different values
        if is_concrete(a) or is_concrete(b):
            return False
        return None

    def abs_equal(self, I, a, b):
        return None

    def match_abs(self, I, p, v, st):
        return None
