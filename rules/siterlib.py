"""Generic std::iter vocabulary over concrete item lists ('abs','siter', items, idx) / ('abs','svec', items).

The domain modules produce such lists for str::lines / split / chars, Vec contents etc.; this library gives the usual
adapters and consumers one uniform meaning, so that two spellings of the same computation (an explicit loop, a
`find`, a `filter().nth()`, a `next_if` ...) are interpreted alike.  Adapters are evaluated eagerly; that equals the
lazy semantics only when the closures have no side effect, so a closure that changes the abstract state makes the
call unknown (None is returned and the caller's fail-closed handling applies)."""
import hirai
from hirai import OK, some, none, unk, SOME, NONE, UNIT

IT = "core::iter::traits::iterator::Iterator::"
DE = "core::iter::traits::double_ended::DoubleEndedIterator::"
PK = "core::iter::adapters::peekable::Peekable::<I>::"


def is_siter(v):
    return v is not None and v[0] == "abs" and v[1] == "siter"


def mk(items):
    return ("abs", "siter", tuple(items), 0)


def _pure(before, after):
    if before.mon != after.mon:
        return False
    for k, v in before.store.items():
        if after.store.get(k) != v:
            return False
    return True


class Impure(Exception):
    pass


def _apply(I, fv, argv, st, n):
    """apply a closure expected to be pure; returns [(value, state)] for OK outcomes, other outcomes separately"""
    oks, others = [], []
    for ctl, r, s2 in I.apply(fv, argv, st, n):
        if ctl != OK:
            others.append((ctl, r, s2))
            continue
        if not _pure(st, s2):
            raise Impure()
        oks.append(r)
    return oks, others


def _walk(I, fv, items, st, n, step, init, finish, argf=lambda x: [x]):
    """sequential evaluation with forking: step(acc, item, result) -> ('go', acc) | ('stop', value)"""
    out = []
    work = [(0, init)]
    guard = 0
    while work:
        i, acc = work.pop()
        guard += 1
        if guard > 4000:
            return None
        if i == len(items):
            out.append((OK, finish(acc), st))
            continue
        oks, others = _apply(I, fv, argf(items[i]), st, n)
        out.extend(others)
        for r in oks:
            if r[0] == "ref":
                r = I.deref_val(st, r)
            act = step(acc, items[i], r, i)
            if act[0] == "go":
                work.append((i + 1, act[1]))
            elif act[0] == "stop":
                out.append((OK, act[1], st))
            else:       # undecided predicate
                return None
    return out


def _boolcase(r, yes, no):
    if r == ("bool", True):
        return yes
    if r == ("bool", False):
        return no
    return ("undecided",)


def _optcase(r, some_f, none_v):
    if r[0] == "enum" and r[1] == SOME:
        return some_f(r[2][0])
    if r[0] == "enum" and r[1] == NONE:
        return none_v
    return ("undecided",)


def siter_intrinsic(I, c, args, st, n):
    if c in ("core::iter::sources::empty::empty", "core::iter::empty"):
        return [(OK, mk(()), st)]
    if not args:
        return None
    if c in ("core::iter::sources::once::once", "core::iter::once"):
        return [(OK, mk((args[0],)), st)]
    if c in ("core::iter::sources::repeat_n::repeat_n",):
        k = I.deref_val(st, args[1])
        if k[0] == "int" and isinstance(k[1], int) and k[1] <= 16:
            return [(OK, mk((args[0],) * k[1]), st)]
    a_ = I.deref_val(st, args[0])
    if a_ is not None and a_[0] == "tuple" and ("[T; N]" in c or c in ("core::slice::<impl [T]>::iter",)) and (c.endswith("::into_iter") or c.endswith("::iter")):
        return [(OK, mk(a_[1]), st)]       # an array literal
    if a_ is not None and a_[0] == "enum" and a_[1] in (SOME, NONE) and (c in ("core::iter::traits::collect::IntoIterator::into_iter", "core::option::Option::<T>::iter", "core::option::Option::<T>::into_iter") or c.endswith("IntoIterator>::into_iter")):
        return [(OK, mk(a_[2]), st)]       # an Option iterates over its zero or one element
    a0 = I.deref_val(st, args[0])
    if a0 is None or a0[0] != "abs":
        return None
    if a0[1] == "svec":
        items = a0[2]
        if c in ("alloc::vec::Vec::<T, A>::as_slice", "alloc::vec::Vec::<T, A>::as_mut_slice") or c.endswith("Deref>::deref"):
            return [(OK, args[0], st)]
        if c in ("alloc::vec::Vec::<T, A>::len", "core::slice::<impl [T]>::len"):
            return [(OK, hirai.mkint(len(items)), st)]
        if c in ("alloc::vec::Vec::<T, A>::is_empty", "core::slice::<impl [T]>::is_empty"):
            return [(OK, ("bool", not items), st)]
        if c in ("core::slice::<impl [T]>::iter",) or c.endswith("IntoIterator>::into_iter") or c == "core::iter::traits::collect::IntoIterator::into_iter":
            return [(OK, mk(items), st)]
        if c in ("core::slice::<impl [T]>::get",):
            k = I.deref_val(st, args[1])
            if k[0] == "int" and isinstance(k[1], int):
                return [(OK, some(items[k[1]]) if k[1] < len(items) else none(), st)]
        if c in ("core::slice::<impl [T]>::split_first", "core::slice::<impl [T]>::split_last"):
            if not items:
                return [(OK, none(), st)]
            if c.endswith("first"):
                return [(OK, some(("tuple", (items[0], ("abs", "svec", tuple(items[1:]))))), st)]
            return [(OK, some(("tuple", (items[-1], ("abs", "svec", tuple(items[:-1]))))), st)]
        if c in ("core::slice::<impl [T]>::split", "core::slice::<impl [T]>::splitn") and c.endswith("::split"):
            # groups of elements between the elements the predicate selects
            try:
                groups, cur = [], []
                for it in items:
                    oks, others = _apply(I, args[1], [it], st, n)
                    if others or len(oks) != 1 or oks[0] not in (("bool", True), ("bool", False)):
                        return None
                    if oks[0][1]:
                        groups.append(("abs", "svec", tuple(cur)))
                        cur = []
                    else:
                        cur.append(it)
                groups.append(("abs", "svec", tuple(cur)))
                return [(OK, mk(groups), st)]
            except Impure:
                return None
        if c in ("core::slice::<impl [T]>::first",):
            return [(OK, some(items[0]) if items else none(), st)]
        if c in ("core::slice::<impl [T]>::last",) and args[0][0] != "ref":
            return [(OK, some(items[-1]) if items else none(), st)]
        return None
    if a0[1] != "siter":
        return None
    name = None
    for pre in (IT, DE, PK):
        if c.startswith(pre):
            name = c[len(pre):]
    if name is None and c.startswith("<") and ("Iterator>::" in c):
        name = c.rsplit("Iterator>::", 1)[1]          # a std iterator's own override of the trait method
        if name == "next":
            return None
    if name is None:
        return None
    items = tuple(a0[2][a0[3]:])
    isref = args[0][0] == "ref"

    def advance(k):
        """state after the receiver consumed k of its remaining items"""
        if isref:
            return I.write(st, args[0][1], ("abs", "siter", a0[2], min(len(a0[2]), a0[3] + k)))
        return st
    fv = args[1] if len(args) > 1 else None
    try:
        # ---------------- adapters (the receiver is moved: by value)
        if name in ("peekable", "fuse", "cloned", "copied", "into_iter"):
            return [(OK, a0 if not isref else args[0], st)]
        if name == "rev":
            return [(OK, mk(reversed(items)), advance(len(items)))]
        if name == "enumerate":
            return [(OK, mk(("tuple", (hirai.mkint(i), x)) for i, x in enumerate(items)), advance(len(items)))]
        if name in ("skip", "take", "step_by"):
            k = I.deref_val(st, args[1])
            if k[0] == "int" and isinstance(k[1], int):
                sel = items[k[1]:] if name == "skip" else (items[:k[1]] if name == "take" else items[::max(1, k[1])])
                return [(OK, mk(sel), advance(len(items)))]
            return None
        if name == "chain":
            b = I.deref_val(st, args[1])
            if is_siter(b):
                return [(OK, mk(items + tuple(b[2][b[3]:])), advance(len(items)))]
            if b[0] == "abs" and b[1] == "svec":
                return [(OK, mk(items + tuple(b[2])), advance(len(items)))]
            if b[0] == "enum" and b[1] in (SOME, NONE):
                return [(OK, mk(items + tuple(b[2])), advance(len(items)))]
            if b[0] == "tuple" and isinstance(n, dict) and "; " in str((n.get("args") or [{}])[0].get("ty", "")):
                return [(OK, mk(items + tuple(b[1])), advance(len(items)))]       # chained with an array
            return None
        if name == "map":
            r = _walk(I, fv, items, st, n, lambda acc, it, r, i: ("go", acc + (r,)), (), lambda acc: mk(acc))
            return r
        if name == "filter":
            return _walk(I, fv, items, st, n, lambda acc, it, r, i: _boolcase(r, ("go", acc + (it,)), ("go", acc)), (), lambda acc: mk(acc))
        if name == "filter_map":
            return _walk(I, fv, items, st, n, lambda acc, it, r, i: _optcase(r, lambda x: ("go", acc + (x,)), ("go", acc)), (), lambda acc: mk(acc))
        if name == "take_while":
            return _walk(I, fv, items, st, n, lambda acc, it, r, i: _boolcase(r, ("go", acc + (it,)), ("stop", mk(acc))), (), lambda acc: mk(acc))
        if name == "skip_while":
            return _walk(I, fv, items, st, n, lambda acc, it, r, i: _boolcase(r, ("go", None), ("stop", mk(items[i:]))), None, lambda acc: mk(()))
        if name == "inspect":
            return None
        if name in ("flat_map", "flatten"):
            def spread(r):
                r = I.deref_val(st, r) if r[0] == "ref" else r
                if is_siter(r):
                    return tuple(r[2][r[3]:])
                if r[0] == "abs" and r[1] == "svec":
                    return tuple(r[2])
                if r[0] == "enum" and r[1] in (SOME, NONE):
                    return tuple(r[2])
                return None
            if name == "flatten":
                parts = [spread(x) for x in items]
                if any(x is None for x in parts):
                    return None
                return [(OK, mk(y for x in parts for y in x), advance(len(items)))]

            def step(acc, it, r, i):
                sp_ = spread(r)
                return ("undecided",) if sp_ is None else ("go", acc + sp_)
            return _walk(I, fv, items, st, n, step, (), lambda acc: mk(acc))
        if name == "zip":
            b = I.deref_val(st, args[1])
            bi = tuple(b[2][b[3]:]) if is_siter(b) else (tuple(b[2]) if b[0] == "abs" and b[1] == "svec" else None)
            if bi is None:
                return None
            return [(OK, mk(("tuple", (x, y)) for x, y in zip(items, bi)), advance(len(items)))]
        # ---------------- consumers
        if name in ("fold", "for_each", "try_for_each"):
            # consumers run their closure in order: state changes are threaded through (no purity needed)
            outs = [(OK, I.deref_val(st, args[1]) if name == "fold" else UNIT, st)]
            f_ = args[2] if name == "fold" else args[1]
            for it in items:
                nxt = []
                for ctl, acc, s in outs:
                    if ctl != OK:
                        nxt.append((ctl, acc, s))
                        continue
                    for c2, r, s2 in I.apply(f_, [acc, it] if name == "fold" else [it], s, n):
                        if name == "try_for_each" and c2 == OK:
                            r = I.deref_val(s2, r)
                            if r[0] == "enum" and r[1].endswith(("::Err", "::None")):
                                nxt.append(("stop", r, s2))
                                continue
                        nxt.append((c2, r if name == "fold" else UNIT, s2))
                outs = nxt
                if len(outs) > 64:
                    return None
            final = []
            for ctl, v, s in outs:
                if ctl == "stop":
                    final.append((OK, v, s))
                elif ctl == OK and name == "try_for_each":
                    ty = (n.get("ty") or "") if isinstance(n, dict) else ""
                    if ty.startswith("core::result::Result<"):
                        final.append((OK, ("enum", "core::result::Result::Ok", (UNIT,)), s))
                    elif ty.startswith("core::option::Option<"):
                        final.append((OK, some(UNIT), s))
                    else:
                        return None      # the success value's type is not known here
                else:
                    final.append((ctl, v, s))
            if isref:
                final = [(c_, v_, I.write(s_, args[0][1], ("abs", "siter", a0[2], len(a0[2]))) if c_ == OK else s_) for c_, v_, s_ in final]
            return final
        if name == "count":
            return [(OK, hirai.mkint(len(items)), advance(len(items)))]
        if name == "last":
            return [(OK, some(items[-1]) if items else none(), advance(len(items)))]
        if name == "nth":
            k = I.deref_val(st, args[1])
            if k[0] == "int" and isinstance(k[1], int):
                if k[1] < len(items):
                    return [(OK, some(items[k[1]]), advance(k[1] + 1))]
                return [(OK, none(), advance(len(items)))]
            return None
        if name == "next_back":
            if not items:
                return [(OK, none(), st)]
            s2 = I.write(st, args[0][1], ("abs", "siter", a0[2][:len(a0[2]) - 1], a0[3])) if isref else st
            return [(OK, some(items[-1]), s2)]
        if name == "peek":
            return [(OK, some(items[0]) if items else none(), st)]
        if name == "next_if":
            if not items:
                return [(OK, none(), st)]
            oks, others = _apply(I, fv, [items[0]], st, n)
            out = list(others)
            for r in oks:
                if r == ("bool", True):
                    out.append((OK, some(items[0]), advance(1)))
                elif r == ("bool", False):
                    out.append((OK, none(), st))
                else:
                    return None
            return out
        if name in ("find", "position", "any", "all", "find_map"):
            res = {"find": none(), "position": none(), "any": ("bool", False), "all": ("bool", True), "find_map": none()}[name]
            out = []
            # sequential, with the receiver advanced past the element that stopped the search
            i = 0
            while True:
                if i == len(items):
                    out.append((OK, res, advance(len(items))))
                    break
                oks, others = _apply(I, fv, [items[i]], st, n)
                out.extend(others)
                if len(oks) != 1:
                    if not oks:
                        break
                    return None
                r = oks[0]
                if name == "find_map":
                    if r[0] == "enum" and r[1] == SOME:
                        out.append((OK, r, advance(i + 1)))
                        break
                    if not (r[0] == "enum" and r[1] == NONE):
                        return None
                elif r == ("bool", True) and name != "all":
                    out.append((OK, {"find": some(items[i]), "position": some(hirai.mkint(i)), "any": ("bool", True)}[name], advance(i + 1)))
                    break
                elif r == ("bool", False) and name == "all":
                    out.append((OK, ("bool", False), advance(i + 1)))
                    break
                elif r not in (("bool", True), ("bool", False)):
                    return None
                i += 1
            return out
    except Impure:
        return None
    return None
