"""C17 - copyright lookup: last matching Files paragraph wins; DEP-5 globs; licence fallback; machine-readable gate.

D3 glob table: glob_to_regex is interpreted on every single character (131 classes), on every escape pair and on
   a set of mixed patterns; the produced regex source must equal the DEP-5 translation ('*' -> '.*', '?' -> '.',
   '\\x' -> literal x for x in {*,?,\\}, anything else -> regex-escaped literal), anchored ^...$.
D1 find_files (both back-ends) is interpreted on all Files-paragraph lists of length <= 3 with every match
   assignment: result = last matching paragraph.  matches() = any over the paragraph's patterns.
D2 pattern tokeniser: lossless files() and lossy deserialize_file_list give the same whitespace-separated list.
D4 licence fallback (both back-ends): own licence when it carries text, else first stand-alone licence of the same name.
D5 gate: all three text entry points refuse text not starting with "Format:"."""
import itertools
import facts, hirai, symstr, roundtrip, rowanmodel, c08
from hirai import OK, RET, PANIC, OKV, ERRV, SOME, NONE, some, none, unk, UNIT
from report import Check

GLOB = "debian_copyright::glob::glob_to_regex"
LL = "debian_copyright::lossless::"
LY = "debian_copyright::lossy::"
REGEX_META = set("\\.+*?()|[]{}^$#&-~")
LIC = "debian_copyright::License::"


def regex_escape(s):
    return "".join("\\" + c if c in REGEX_META else c for c in s)


def dep5(glob):
    out = "^"
    i = 0
    while i < len(glob):
        c = glob[i]
        if c == "*":
            out += ".*"
        elif c == "?":
            out += "."
        elif c == "\\":
            if i + 1 < len(glob) and glob[i + 1] in "*?\\":
                out += regex_escape(glob[i + 1])
                i += 1
            else:
                return None   # invalid escape: no translation required
        else:
            out += regex_escape(c)
        i += 1
    return out + "$"


class Mod(rowanmodel.RowanMod):
    """adds: regex::escape / Regex::new model; tuple-vec iteration (c08.VecMod); lookup stubs"""

    def __init__(self, facts):
        super().__init__(facts, "deb822_lossless::lex::SyntaxKind")
        self.vec = c08.VecMod(facts)
        self.match_assign = {}
        self.regexes = []
        self.stub = {}

    def intrinsic(self, I, callee, args, st, n):
        c = callee
        if c in self.stub:
            r = self.stub[c](I, args, st, n)
            if r is not None:
                return r
        a0 = I.deref_val(st, args[0]) if args else None
        if c == "regex::escape::escape" or c == "regex::escape":
            p = symstr.pieces_of(a0)
            if p is not None and symstr.is_concrete(p):
                return [(OK, symstr.lit(regex_escape(symstr.concrete(p))), st)]
            return [(OK, unk("escape"), st)]
        if c == "regex::regex::string::Regex::new":
            p = symstr.pieces_of(a0)
            if p is not None and symstr.is_concrete(p):
                self.regexes.append(symstr.concrete(p))
                return [(OK, ("enum", OKV, (("abs", "regex", symstr.concrete(p)),)), st)]
        if a0 is not None and a0[0] == "char" and c in ("<T as alloc::string::ToString>::to_string", "alloc::string::ToString::to_string", "<char as alloc::string::ToString>::to_string"):
            return [(OK, symstr.lit(a0[1]), st)]
        r = self.vec.intrinsic(I, c, args, st, n) if (a0 is not None and a0[0] == "tuple") else None
        if r is not None:
            return r
        return super().intrinsic(I, c, args, st, n)


def run(tier):
    F = facts.Facts()
    hirai.INT_BOUND = 4
    C = Check("C17", "other", tier, "abstract interpretation: glob translation table over all characters/escapes; lookup functions of both back-ends on all short paragraph lists with stubbed match results; symbolic gate check",
              ["rustc HIR/typeck", "hirai", "regex crate semantics of the produced pattern (incl. '.' not matching newline)", "regex::escape as modelled (meta characters \\.+*?()|[]{}^$#&-~)"])
    mod = Mod(F)
    # ------------------------------------------------------------------ D3 glob table
    f = F.fn(GLOB)
    n = 0
    if C.ob("C17/anchor", GLOB, f is not None, "glob_to_regex not found"):
        import lexer
        pats = [ch for ch in lexer.CHARS if ch != "\\"] + ["\\*", "\\?", "\\\\"] + ["*.rs", "debian/*", "src/?.c", "a+b(1)", "x\\*y", "[ab]", "a.b?c*d\\\\e", "**", "é/*", "./tools/*", "./README", "../x", ".hidden", "a/./b", "\\**", "x\\?*"]
        for pat in pats:
            want = dep5(pat)
            mod.regexes = []
            I = hirai.Interp(F, mod)
            res = I.inline(f, [symstr.lit(pat)], hirai.State(depth=0))
            got = [v[2] if ctl == OK and v[0] == "abs" and v[1] == "regex" else ("?", ctl, str(v)[:60]) for ctl, v, s in res]
            n += 1
            C.ob("C17/glob-table", "glob %r" % pat, got == [want], "translates to %s, DEP-5 requires %r" % (got, want), f["sp"])
            if len(C.samples) < 8 and len(pat) > 1:
                C.sample({"glob": pat, "regex": got})
    C.floor("C17/glob-patterns", n, 140, "glob patterns interpreted")

    # ------------------------------------------------------------------ D1 find_files = last match (both back-ends)
    def lossless_find(assign):
        I = hirai.Interp(F, mod)
        paras = tuple(("abs", "fp", i) for i in range(len(assign)))
        mod.stub = {
            LL + "Copyright::iter_files": lambda I, a, st, n: [(OK, ("abs", "siter", paras, 0), st)],
            LL + "FilesParagraph::matches": lambda I, a, st, n: [(OK, ("bool", assign[I.deref_val(st, a[0])[2]]), st)],
        }
        res = I.inline(F.fn(LL + "Copyright::find_files"), [("abs", "copyright"), ("abs", "path")], hirai.State(depth=0))
        mod.stub = {}
        return res, I

    def lossy_find(assign):
        I = hirai.Interp(F, mod)
        files = tuple(("abs", "fp", i) for i in range(len(assign)))
        selfv = ("struct", LY + "Copyright", (("header", ("abs", "hdr")), ("files", ("tuple", files)), ("licenses", ("tuple", ()))))
        mod.stub = {LY + "FilesParagraph::matches": lambda I, a, st, n: [(OK, ("bool", assign[I.deref_val(st, a[0])[2]]), st)]}
        st = hirai.State(depth=0).setroot(("T", "c"), selfv)
        res = I.inline(F.fn(LY + "Copyright::find_files"), [("ref", (("T", "c"),)), ("abs", "path")], st)
        mod.stub = {}
        return res, I
    for k in (LL + "Copyright::find_files", LY + "Copyright::find_files", LL + "FilesParagraph::matches", LY + "FilesParagraph::matches"):
        C.ob("C17/anchor", k, F.fn(k) is not None, "not found")
    for ln in range(0, 4):
        for assign in itertools.product([True, False], repeat=ln):
            want = max([i for i, a in enumerate(assign) if a], default=None)
            for name, fn in (("lossless", lossless_find), ("lossy", lossy_find)):
                res, I = fn(assign)
                got = []
                for ctl, v, s in res:
                    v = I.deref_val(s, v)
                    if ctl == OK and v[0] == "enum" and v[1] == SOME:
                        x = I.deref_val(s, v[2][0])
                        got.append(x[2] if x[0] == "abs" and x[1] == "fp" else "?")
                    elif ctl == OK and v[0] == "enum" and v[1] == NONE:
                        got.append(None)
                    else:
                        got.append("?" + str(v)[:50])
                C.ob("C17/last-match-wins", "%s find_files, paragraphs match=%s" % (name, list(assign)), got == [want],
                     "returns paragraph %s, expected the last matching one (%s)" % (got, want), F.fn((LL if name == "lossless" else LY) + "Copyright::find_files")["sp"])

    # matches() = any over patterns
    def lossless_matches(assign):
        I = hirai.Interp(F, mod)
        pats = tuple(symstr.atom("pat%d" % i) for i in range(len(assign)))
        mod.stub = {
            LL + "FilesParagraph::files": lambda I, a, st, n: [(OK, ("abs", "svec", pats), st)],
            GLOB: lambda I, a, st, n: [(OK, ("abs", "re", symstr.show(I.deref_val(st, a[0]))), st)],
            "regex::regex::string::Regex::is_match": lambda I, a, st, n: [(OK, ("bool", assign[int(I.deref_val(st, a[0])[2][4:-1])]), st)],
            "std::path::Path::to_str": lambda I, a, st, n: [(OK, some(("abs", "pathstr")), st)],
        }
        res = I.inline(F.fn(LL + "FilesParagraph::matches"), [("abs", "fp"), ("abs", "path")], hirai.State(depth=0))
        mod.stub = {}
        return res

    def lossy_matches(assign):
        I = hirai.Interp(F, mod)
        pats = tuple(symstr.atom("pat%d" % i) for i in range(len(assign)))
        selfv = ("struct", LY + "FilesParagraph", (("files", ("tuple", pats)),))
        mod.stub = {
            GLOB: lambda I, a, st, n: [(OK, ("abs", "re", symstr.show(I.deref_val(st, a[0]))), st)],
            "regex::regex::string::Regex::is_match": lambda I, a, st, n: [(OK, ("bool", assign[int(I.deref_val(st, a[0])[2][4:-1])]), st)],
            "std::path::Path::to_str": lambda I, a, st, n: [(OK, some(("abs", "pathstr")), st)],
        }
        st = hirai.State(depth=0).setroot(("T", "fp"), selfv)
        res = I.inline(F.fn(LY + "FilesParagraph::matches"), [("ref", (("T", "fp"),)), ("abs", "path")], st)
        mod.stub = {}
        return res
    for ln in range(0, 4):
        for assign in itertools.product([True, False], repeat=ln):
            for name, fn in (("lossless", lossless_matches), ("lossy", lossy_matches)):
                res = fn(assign)
                got = [v for ctl, v, s in res if ctl == OK]
                C.ob("C17/matches-any-pattern", "%s matches, patterns match=%s" % (name, list(assign)), len(res) == 1 and got == [("bool", any(assign))],
                     "returns %s, expected %s" % (got, any(assign)), F.fn((LL if name == "lossless" else LY) + "FilesParagraph::matches")["sp"])

    # ------------------------------------------------------------------ D2 pattern tokeniser
    text = symstr.mk([("atom", "p1", "word"), ("lit", " "), ("atom", "p2", "word"), ("lit", "\n"), ("atom", "p3", "word"), ("lit", "  "), ("atom", "p4", "word")])
    want = ["<p1>", "<p2>", "<p3>", "<p4>"]
    I = hirai.Interp(F, mod)
    mod.stub = {"deb822_lossless::lossless::Paragraph::get": lambda I, a, st, n: [(OK, some(text), st)]}
    res = I.inline(F.fn(LL + "FilesParagraph::files"), [("struct", LL + "FilesParagraph", (("0", ("abs", "para")),))], hirai.State(depth=0)) if F.fn(LL + "FilesParagraph::files") else []
    mod.stub = {}
    got = [[symstr.show(x) for x in v[2]] if ctl == OK and v[0] == "abs" and v[1] == "svec" else str(v)[:60] for ctl, v, s in res]
    C.ob("C17/pattern-tokeniser", "lossless FilesParagraph::files", got == [want], "splits 'p1 p2\\np3  p4' into %s, expected %s" % (got, want))
    dk = LY + "deserialize_file_list"
    if C.ob("C17/anchor", dk, F.fn(dk) is not None, "not found"):
        I = hirai.Interp(F, mod)
        res = I.inline(F.fn(dk), [text], hirai.State(depth=0))
        got = []
        for ctl, v, s in res:
            if ctl == OK and v[0] == "enum" and v[1] == OKV and v[2][0][0] == "abs" and v[2][0][1] == "svec":
                got.append([symstr.show(x) for x in v[2][0][2]])
            else:
                got.append(str(v)[:60])
        C.ob("C17/pattern-tokeniser", "lossy deserialize_file_list", got == [want], "splits 'p1 p2\\np3  p4' into %s, expected %s (same as the lossless reader)" % (got, want), F.fn(dk)["sp"])

    # ------------------------------------------------------------------ D4a the files paragraph's own licence: synopsis = first line, text = all further lines
    import c15
    lk = LL + "FilesParagraph::license"
    lf = F.fn(lk)
    if C.ob("C17/anchor", lk, lf is not None, "not found"):
        cases = {"name only": ([("atom", "lname", "word")], ("enum", LIC + "Name", (symstr.atom("lname"),))),
                 "name and a three-line text": ([("atom", "lname", "word"), ("lit", "\n"), ("atom", "t1", "line"), ("lit", "\n"), ("atom", "t2", "line"), ("lit", "\n"), ("atom", "t3", "line")],
                                                ("enum", LIC + "Named", (symstr.atom("lname"), symstr.mk([("atom", "t1", "line"), ("lit", "\n"), ("atom", "t2", "line"), ("lit", "\n"), ("atom", "t3", "line")])))),
                 "two-line text without name": ([("lit", "\n"), ("atom", "t1", "line"), ("lit", "\n"), ("atom", "t2", "line")],
                                                ("enum", LIC + "Text", (symstr.mk([("atom", "t1", "line"), ("lit", "\n"), ("atom", "t2", "line")]),)))}
        for nm, (ps, want) in cases.items():
            para = ("abs", "para", ((symstr.lit("Files"), symstr.atom("pat", "word")), (symstr.lit("License"), symstr.mk(ps))))
            I = hirai.Interp(F, c15.Mod(F))
            st = hirai.State(depth=0).setroot(("T", "fp"), ("struct", LL + "FilesParagraph", (("0", para),)))
            res = I.inline(lf, [("ref", (("T", "fp"),))], st)
            got = [roundtrip.normalize(I.deep_deref(s, I.deref_val(s, v), 0)) if ctl == OK else (ctl, str(v)[:60]) for ctl, v, s in res]
            C.ob("C17/files-licence-reading", nm, got == [roundtrip.normalize(some(want))], "license() on %r returns %s, expected %s" % (symstr.show(symstr.mk(ps)), [roundtrip.show_value(g)[:100] if isinstance(g, tuple) and g and g[0] != "panic" else str(g) for g in got], roundtrip.show_value(some(want))), lf["sp"])

    # ------------------------------------------------------------------ D4 licence fallback
    lic_vals = {
        "Name": ("enum", LIC + "Name", (symstr.atom("lname"),)),
        "Text": ("enum", LIC + "Text", (symstr.atom("ltext", "text"),)),
        "Named": ("enum", LIC + "Named", (symstr.atom("lname"), symstr.atom("ltext", "text"))),
    }
    for lv_name, lv in lic_vals.items():
        # lossless
        I = hirai.Interp(F, mod)
        calls = []
        mod.stub = {
            LL + "Copyright::find_files": lambda I, a, st, n: [(OK, some(("abs", "fp", 0)), st)],
            LL + "FilesParagraph::license": lambda I, a, st, n: [(OK, some(lv), st)],
            LL + "Copyright::find_license_by_name": lambda I, a, st, n: (calls.append(symstr.show(I.deref_val(st, a[1]))) or [(OK, some(("abs", "standalone")), st)]),
        }
        res = I.inline(F.fn(LL + "Copyright::find_license_for_file"), [("abs", "c"), ("abs", "path")], hirai.State(depth=0))
        mod.stub = {}
        got = [I.deref_val(s, v) for ctl, v, s in res if ctl == OK]
        if lv_name == "Name":
            ok = got == [some(("abs", "standalone"))] and calls == ["<lname>"]
        else:
            ok = got == [some(lv)] and not calls
        C.ob("C17/licence-fallback", "lossless, files licence is %s" % lv_name, ok, "returns %s (by-name lookups %s)" % ([roundtrip.show_value(g) for g in got], calls), F.fn(LL + "Copyright::find_license_for_file")["sp"])
        # lossy
        I = hirai.Interp(F, mod)
        calls2 = []
        fpv = ("struct", LY + "FilesParagraph", (("license", lv),))
        mod.stub = {
            LY + "Copyright::find_files": lambda I, a, st, n: [(OK, some(fpv), st)],
            LY + "Copyright::find_license_by_name": lambda I, a, st, n: (calls2.append(symstr.show(I.deref_val(st, a[1]))) or [(OK, some(("abs", "standalone")), st)]),
        }
        st = hirai.State(depth=0).setroot(("T", "fpv"), fpv)
        res = I.inline(F.fn(LY + "Copyright::find_license_for_file"), [("abs", "c"), ("abs", "path")], st)
        mod.stub = {}
        got = [I.deref_val(s, v) for ctl, v, s in res if ctl == OK]
        got = [some(I.deref_val(res[0][2], g[2][0])) if g[0] == "enum" and g[1] == SOME else g for g in got] if res else got
        if lv_name == "Name":
            ok = got == [some(("abs", "standalone"))] and calls2 == ["<lname>"]
        else:
            ok = got == [some(lv)] and not calls2
        C.ob("C17/licence-fallback", "lossy, files licence is %s" % lv_name, ok, "returns %s (by-name lookups %s)" % ([roundtrip.show_value(g) for g in got], calls2), F.fn(LY + "Copyright::find_license_for_file")["sp"])
    # no files paragraph -> None
    I = hirai.Interp(F, mod)
    mod.stub = {LL + "Copyright::find_files": lambda I, a, st, n: [(OK, none(), st)]}
    res = I.inline(F.fn(LL + "Copyright::find_license_for_file"), [("abs", "c"), ("abs", "path")], hirai.State(depth=0))
    mod.stub = {}
    C.ob("C17/licence-fallback", "lossless, no matching paragraph", [v for c_, v, s in res] == [none()], "returns %s" % [str(v)[:50] for _, v, _ in res])

    # find_license_by_name: first stand-alone paragraph of that name
    for ln in range(0, 4):
        for names in itertools.product(["X", "Y"], repeat=ln):
            want = next((i for i, nm in enumerate(names) if nm == "X"), None)
            # lossless
            I = hirai.Interp(F, mod)
            paras = tuple(("abs", "lp", i) for i in range(ln))
            mod.stub = {
                LL + "Copyright::iter_licenses": lambda I, a, st, n: [(OK, ("abs", "siter", paras, 0), st)],
                LL + "LicenseParagraph::name": lambda I, a, st, n: [(OK, some(symstr.lit(names[I.deref_val(st, a[0])[2]])), st)],
                "<T as core::convert::Into<U>>::into": lambda I, a, st, n: [(OK, ("abs", "license-of", I.deref_val(st, a[0])[2]), st)] if I.deref_val(st, a[0])[0] == "abs" and I.deref_val(st, a[0])[1] == "lp" else None,
            }
            # the same conversion spelt License::from(p) / .map(License::from)
            for fk in ("<debian_copyright::License as core::convert::From<debian_copyright::lossless::LicenseParagraph>>::from", "core::convert::From::from",
                       "debian_copyright::lossless::<impl core::convert::From<debian_copyright::lossless::LicenseParagraph> for debian_copyright::License>::from"):
                mod.stub[fk] = mod.stub["<T as core::convert::Into<U>>::into"]
            res = I.inline(F.fn(LL + "Copyright::find_license_by_name"), [("abs", "c"), symstr.lit("X")], hirai.State(depth=0))
            mod.stub = {}
            got = []
            for ctl, v, s in res:
                v = I.deref_val(s, v)
                if v[0] == "enum" and v[1] == SOME:
                    x = I.deref_val(s, v[2][0])
                    got.append(x[2] if x[0] == "abs" and x[1] == "license-of" else "?" + str(x)[:40])
                elif v[0] == "enum" and v[1] == NONE:
                    got.append(None)
                else:
                    got.append("?" + str(v)[:40])
            C.ob("C17/licence-by-name-first", "lossless, stand-alone licences %s" % list(names), got == [want], "returns %s, expected the first paragraph named X (%s)" % (got, want), F.fn(LL + "Copyright::find_license_by_name")["sp"])
            # lossy
            I = hirai.Interp(F, mod)
            lps = tuple(("struct", LY + "LicenseParagraph", (("license", ("enum", LIC + "Named", (symstr.lit(nm), symstr.atom("t%d" % i, "text")))),)) for i, nm in enumerate(names))
            selfv = ("struct", LY + "Copyright", (("licenses", ("tuple", lps)),))
            st = hirai.State(depth=0).setroot(("T", "c"), selfv)
            res = I.inline(F.fn(LY + "Copyright::find_license_by_name"), [("ref", (("T", "c"),)), symstr.lit("X")], st)
            got = []
            for ctl, v, s in res:
                v = I.deref_val(s, v)
                if v[0] == "enum" and v[1] == SOME:
                    x = I.deref_val(s, v[2][0])
                    got.append(symstr.show(x[2][1]) if x[0] == "enum" and len(x[2]) == 2 else "?" + str(x)[:40])
                elif v[0] == "enum" and v[1] == NONE:
                    got.append(None)
                else:
                    got.append("?" + str(v)[:40])
            C.ob("C17/licence-by-name-first", "lossy, stand-alone licences %s" % list(names), got == ["<t%d>" % want if want is not None else None], "returns %s, expected the first paragraph named X" % got, F.fn(LY + "Copyright::find_license_by_name")["sp"])

    # ------------------------------------------------------------------ D5 gate
    gates = [(LL + "Copyright::from_str_relaxed", "NotMachineReadable"), ("<" + LL + "Copyright as core::str::traits::FromStr>::from_str", "NotMachineReadable"),
             ("<" + LY + "Copyright as core::str::traits::FromStr>::from_str", "Not machine readable")]
    # the file-reading constructors read the text and must pass through the same gate
    for k in sorted(F.fns):
        if k.startswith((LL + "Copyright::from_file", LY + "Copyright::from_file")) and "{closure" not in k:
            gates.append((k, "achine"))
    bad_inputs = {"text starting with another field": symstr.mk([("lit", "Files: *\n"), ("atom", "rest", "text")]), "leading blank line": symstr.mk([("lit", "\nFormat: x\n")]),
                  "lower-case format": symstr.mk([("lit", "format: x\n")]), "empty": symstr.lit("")}
    for key, marker in gates:
        f = F.fn(key)
        if not C.ob("C17/anchor", key, f is not None, "entry point not found"):
            continue
        for nm, inp in bad_inputs.items():
            I = hirai.Interp(F, mod)
            mod.stub = {"<deb822_lossless::lossless::Deb822 as core::str::traits::FromStr>::from_str": lambda I, a, st, n: [(OK, ("enum", OKV, (("abs", "doc"),)), st)],
                        "deb822_lossless::lossless::Deb822::from_str_relaxed": lambda I, a, st, n: [(OK, ("tuple", (("abs", "doc"), ("abs", "errs"))), st)],
                        "core::str::<impl str>::parse": lambda I, a, st, n: [(OK, ("enum", OKV, (("abs", "doc"),)), st)],
                        "deb822_lossless::lossless::Deb822::from_file": lambda I, a, st, n: [(OK, ("enum", OKV, (("abs", "doc"),)), st)],
                        "deb822_lossless::lossless::Deb822::from_file_relaxed": lambda I, a, st, n: [(OK, ("enum", OKV, (("tuple", (("abs", "doc"), ("abs", "errs"))),)), st)],
                        "std::fs::read_to_string": lambda I, a, st, n, inp=inp: [(OK, ("enum", OKV, (inp,)), st)]}
            res = I.inline(f, [inp] if "from_file" not in key else [("abs", "path")], hirai.State(depth=0))
            mod.stub = {}
            ok = bool(res)
            for ctl, v, s in res:
                v = I.deref_val(s, v)
                if not (ctl == OK and v[0] == "enum" and v[1] == ERRV and marker in str(v)):
                    ok = False
            C.ob("C17/gate", "%s on %s" % (key.split("::")[-1] if not key.startswith("<") else key[1:].split(" as ")[0], nm), ok,
                 "returns %s, expected the not-machine-readable error" % [str(v)[:80] for _, v, _ in res], f["sp"])
    C.assumptions += ["the regex crate matches the produced anchored pattern as documented ('.' does not match a newline)", "paths are valid UTF-8 (to_str().unwrap())",
                      "lookup functions are validated on lists of <= 3 paragraphs / patterns (uniform iterator chains)"]
    return C.finish("glob_to_regex is interpreted character by character against the DEP-5 table; find_files / matches / find_license_for_file / find_license_by_name of both back-ends are interpreted on all short lists "
                    "with stubbed per-paragraph results; the pattern tokenisers are compared on a mixed-whitespace field; the Format gate is interpreted on non-conforming inputs.")
