"""specification side for relationship fields: structured field model, token generation with whitespace styles,
a reference reader for (re-lexed) token sequences, and symbolic re-lexing of printed text."""
import symstr
from docbuild import rt, ident, ws, REL_LIT

OPS = {"<<": ["L_ANGLE", "L_ANGLE"], "<=": ["L_ANGLE", "EQUAL"], "=": ["EQUAL"], ">=": ["R_ANGLE", "EQUAL"], ">>": ["R_ANGLE", "R_ANGLE"]}
VC = {"<<": "LessThan", "<=": "LessThanEqual", "=": "Equal", ">=": "GreaterThanEqual", ">>": "GreaterThan"}


def rel(name, archqual=None, version=None, archs=None, profiles=()):
    """version: (op, text) where text may contain ':' epoch;  archs: [(neg, name)];  profiles: [[(neg, name)]]"""
    return {"name": name, "archqual": archqual, "version": version, "archs": archs, "profiles": [list(g) for g in profiles]}


def rel_tokens(r, style="tight", sym=False):
    """styles: tight (no optional blanks), canonical, loose (two blanks everywhere), tabs (a tab wherever a blank may
    stand), wrapped (a line break + blank wherever a blank may stand inside the relation)"""
    if style == "wrapped":
        gap = lambda: [rt("NEWLINE"), ws(" ")]
        sp, opsp, sp1, sep = gap(), gap(), gap(), gap
    elif style == "tabs":
        sp, opsp, sp1, sep = [ws("\t")], [ws("\t")], [ws("\t")], (lambda: [ws("\t")])
    else:
        sp = [ws("  ")] if style == "loose" else []                    # optional extra blanks inside brackets
        opsp = [] if style == "tight" else [ws("  " if style == "loose" else " ")]   # between operator and version
        sp1 = [ws()] if style != "tight" else []                       # single space in canonical positions
        sep = lambda: [ws()]
    out = [ident(r["name"], sym)]
    if r["archqual"]:
        out += [rt("COLON"), ident(r["archqual"], sym)]
    if r["version"]:
        op, v = r["version"]
        out += list(sp1) + [rt("L_PARENS")] + list(sp) + [rt(k) for k in OPS[op]] + list(opsp)
        parts = v.split(":")
        for i, p in enumerate(parts):
            if i:
                out.append(rt("COLON"))
            out.append(ident(p, sym))
        out += list(sp) + [rt("R_PARENS")]
    if r["archs"] is not None:
        out += list(sp1) + [rt("L_BRACKET")] + list(sp)
        for i, (neg, a) in enumerate(r["archs"]):
            if i:
                out += sep()
            if neg:
                out.append(rt("NOT"))
            out.append(ident(a, sym))
        out += list(sp) + [rt("R_BRACKET")]
    for g in r["profiles"]:
        out += list(sp1) + [rt("L_ANGLE")] + list(sp)
        for i, (neg, p) in enumerate(g):
            if i:
                out += sep()
            if neg:
                out.append(rt("NOT"))
            out.append(ident(p, sym))
        out += list(sp) + [rt("R_ANGLE")]
    return out


def field_tokens(entries, style="tight", trailing_comma=False, substvars=(), sym=False):
    """entries: list of entries; entry = list of alternatives (rel dicts); [] = empty entry"""
    out = []
    rstyle = style
    if style == "wrapped":
        style = "newlines"
    if style == "tabs":
        style = "canonical"
    if style == "newlines":
        out.append(ws(" "))
    first = True
    items = [("e", e) for e in entries] + [("s", s) for s in substvars]
    for kind, e in items:
        if not first:
            out.append(rt("COMMA"))
            if style == "tight":
                pass
            elif style == "newlines":
                out += [rt("NEWLINE"), ws(" ")]
            else:
                out.append(ws(" " if style == "canonical" else "  "))
        first = False
        if kind == "s":
            out += [rt("DOLLAR"), rt("L_CURLY")]
            for i, p in enumerate(e.split(":")):
                if i:
                    out.append(rt("COLON"))
                out.append(ident(p, False))
            out.append(rt("R_CURLY"))
            continue
        for j, r in enumerate(e):
            if j:
                if style == "tight":
                    out.append(rt("PIPE"))
                elif style == "newlines":
                    out += [rt("NEWLINE"), ws(" "), rt("PIPE"), ws(" ")]
                else:
                    out += [ws(), rt("PIPE"), ws()]
            out += rel_tokens(r, rstyle if rstyle in ("wrapped", "tabs") else ("canonical" if style == "newlines" else style), sym)
    if trailing_comma:
        out.append(rt("COMMA"))
    return out


def show_rel(r):
    return r


# ----------------------------------------------------------------------------- re-lexing and reference reader
def relex(tokens):
    """emulate re-lexing of the printed text: adjacent IDENT tokens fuse, adjacent WHITESPACE fuse,
    a multi-character operator token (e.g. R_ANGLE '>=') splits into its characters"""
    CH = {v: k for k, v in REL_LIT.items()}
    out = []
    for k, t in tokens:
        s = symstr.show(t)
        if k not in ("IDENT", "WHITESPACE", "ERROR") and len(s) > 1 and symstr.is_concrete(symstr.pieces_of(t)):
            for ch in s:
                out.append((CH.get(ch, "ERROR"), symstr.lit(ch)))
            continue
        if out and out[-1][0] == k and k in ("IDENT", "WHITESPACE"):
            out[-1] = (k, symstr.mk(symstr.pieces_of(out[-1][1]) + symstr.pieces_of(t)))
            continue
        out.append((k, t))
    return out


class NotWellFormed(Exception):
    pass


def read_field(tokens, substvars=True):
    """reference reader of the Policy 7.1 grammar over a token list -> (entries, substvars); raises NotWellFormed"""
    toks = [(k, symstr.show(t)) for k, t in tokens if k not in ("WHITESPACE", "NEWLINE")]
    pos = [0]

    def peek():
        return toks[pos[0]][0] if pos[0] < len(toks) else None

    def take(k):
        if peek() != k:
            raise NotWellFormed("expected %s at token %d, found %s (%s)" % (k, pos[0], peek(), toks[pos[0]][1] if pos[0] < len(toks) else "end"))
        pos[0] += 1
        return toks[pos[0] - 1][1]

    def relation():
        r = rel(take("IDENT"))
        if peek() == "COLON":
            take("COLON")
            r["archqual"] = take("IDENT")
        if peek() == "L_PARENS":
            take("L_PARENS")
            op = ""
            while peek() in ("L_ANGLE", "R_ANGLE", "EQUAL"):
                op += take(peek())
            if op not in OPS:
                raise NotWellFormed("bad operator %r" % op)
            v = take("IDENT")
            if peek() == "COLON":
                take("COLON")
                v += ":" + take("IDENT")
            take("R_PARENS")
            r["version"] = (op, v)
        if peek() == "L_BRACKET":
            take("L_BRACKET")
            archs = []
            while peek() in ("NOT", "IDENT"):
                neg = False
                if peek() == "NOT":
                    take("NOT")
                    neg = True
                archs.append((neg, take("IDENT")))
            take("R_BRACKET")
            if not archs:
                raise NotWellFormed("empty architecture list")
            r["archs"] = archs
        while peek() == "L_ANGLE":
            take("L_ANGLE")
            g = []
            while peek() in ("NOT", "IDENT"):
                neg = False
                if peek() == "NOT":
                    take("NOT")
                    neg = True
                g.append((neg, take("IDENT")))
            take("R_ANGLE")
            if not g:
                raise NotWellFormed("empty profile group")
            r["profiles"].append(g)
        return r
    entries, svars = [], []
    while pos[0] < len(toks):
        if peek() == "COMMA":
            take("COMMA")
            continue
        if peek() == "DOLLAR" and substvars:
            take("DOLLAR")
            take("L_CURLY")
            s = ""
            while peek() in ("IDENT", "COLON"):
                s += take(peek())
            take("R_CURLY")
            svars.append(s)
        else:
            e = [relation()]
            while peek() == "PIPE":
                take("PIPE")
                e.append(relation())
            entries.append(e)
        if pos[0] < len(toks) and peek() != "COMMA":
            raise NotWellFormed("expected ',' at token %d, found %s (%s)" % (pos[0], peek(), toks[pos[0]][1]))
    return entries, svars
