"""abstract model of rowan syntax trees for hirai: concrete shapes, symbolic token texts.

node : ('abs','node', kind, children_tuple, nid)      token: ('abs','tok', kind, text_sstr)
element values are wrapped the way rowan does: NodeOrToken::Node(n) / NodeOrToken::Token(t).
Used to validate accessor pipelines (iterator chains over children) on all small child sequences.
"""
import hirai, symstr, roundtrip
from hirai import OK, SOME, NONE, some, none, unk, UNIT

NOT_NODE = "rowan::utility_types::NodeOrToken::Node"
NOT_TOK = "rowan::utility_types::NodeOrToken::Token"


def tok(kind, text):
    return ("abs", "tok", kind, text)


def node(kind, children, nid=0):
    return ("abs", "node", kind, tuple(children), nid)


def wrap(x):
    return ("enum", NOT_NODE if x[1] == "node" else NOT_TOK, (x,))


def text_of(x):
    if x[1] == "tok":
        return symstr.pieces_of(x[3])
    out = ()
    for c in x[3]:
        out += text_of(c)
    return out


class RowanMod(roundtrip.RTMod):
    def __init__(self, facts, kind_enum):
        super().__init__(facts)
        self.kind_enum = kind_enum

    def kval(self, k):
        return ("enum", self.kind_enum + "::" + k, ())

    def elem(self, I, st, v):
        v = I.deref_val(st, v)
        if v[0] == "enum" and v[1] in (NOT_NODE, NOT_TOK):
            return I.deref_val(st, v[2][0])
        return v

    def intrinsic(self, I, callee, args, st, n):
        c = callee
        a0 = self.elem(I, st, args[0]) if args else None
        is_node = a0 is not None and a0[0] == "abs" and a0[1] == "node"
        is_tok = a0 is not None and a0[0] == "abs" and a0[1] == "tok"
        raw0 = I.deref_val(st, args[0]) if args else None
        if is_node:
            if c == "rowan::api::SyntaxNode::<L>::children_with_tokens":
                return [(OK, ("abs", "siter", tuple(wrap(x) for x in a0[3]), 0), st)]
            if c == "rowan::api::SyntaxNode::<L>::children":
                return [(OK, ("abs", "siter", tuple(x for x in a0[3] if x[1] == "node"), 0), st)]
            if c in ("rowan::api::SyntaxNode::<L>::kind", "rowan::utility_types::NodeOrToken::<rowan::api::SyntaxNode<L>, rowan::api::SyntaxToken<L>>::kind"):
                return [(OK, self.kval(a0[2]), st)]
            if c == "rowan::api::SyntaxNode::<L>::text":
                return [(OK, symstr.mk(text_of(a0)), st)]
            if c.endswith("as core::clone::Clone>::clone"):
                return [(OK, a0, st)]
        if is_tok:
            if c in ("rowan::api::SyntaxToken::<L>::kind", "rowan::utility_types::NodeOrToken::<rowan::api::SyntaxNode<L>, rowan::api::SyntaxToken<L>>::kind"):
                return [(OK, self.kval(a0[2]), st)]
            if c == "rowan::api::SyntaxToken::<L>::text":
                return [(OK, a0[3], st)]
            if c.endswith("as core::clone::Clone>::clone"):
                return [(OK, a0, st)]
        if raw0 is not None and raw0[0] == "enum" and raw0[1] in (NOT_NODE, NOT_TOK):
            m = c.rsplit("::", 1)[-1]
            if c.startswith("rowan::utility_types::NodeOrToken::<"):
                if m in ("into_token", "as_token"):
                    return [(OK, some(raw0[2][0]) if raw0[1] == NOT_TOK else none(), st)]
                if m in ("into_node", "as_node"):
                    return [(OK, some(raw0[2][0]) if raw0[1] == NOT_NODE else none(), st)]
        # iterator adapters over siter
        if raw0 is not None and raw0[0] == "abs" and raw0[1] == "siter":
            items = raw0[2][raw0[3]:]
            m = c.rsplit("::", 1)[-1]
            if "Iterator" in c and m in ("filter_map", "filter", "find", "find_map", "any", "all", "position", "skip_while", "take_while", "count", "last", "nth", "enumerate"):
                return self.adapter(I, st, m, items, args, n)
        return super().intrinsic(I, c, args, st, n)

    def adapter(self, I, st, m, items, args, n):
        if m == "count":
            return [(OK, hirai.mkint(len(items)), st)]
        if m == "last":
            return [(OK, some(items[-1]) if items else none(), st)]
        if m == "enumerate":
            return [(OK, ("abs", "siter", tuple(("tuple", (hirai.mkint(i), x)) for i, x in enumerate(items)), 0), st)]
        if m == "nth":
            i = I.deref_val(st, args[1])
            if i[0] == "int" and isinstance(i[1], int):
                return [(OK, some(items[i[1]]) if i[1] < len(items) else none(), st)]
            return [(OK, unk("nth"), st)]
        f = args[1]

        def go(i, acc, s):
            if i == len(items):
                if m in ("filter_map", "filter", "skip_while", "take_while"):
                    return [(OK, ("abs", "siter", tuple(acc), 0), s)]
                if m in ("find", "find_map", "position"):
                    return [(OK, none(), s)]
                return [(OK, ("bool", m == "all"), s)]
            x = items[i]
            arg = x
            if m in ("filter", "find", "skip_while", "take_while"):
                s, p = I.newtemp(s, x)
                arg = ("ref", p)
            out = []
            for ctl, r, s2 in I.apply(f, [arg], s, n):
                if ctl != OK:
                    out.append((ctl, r, s2))
                    continue
                r = I.deref_val(s2, r)
                if m == "filter_map":
                    if r[0] == "enum" and r[1] == SOME:
                        out.extend(go(i + 1, acc + [r[2][0]], s2))
                    elif r[0] == "enum" and r[1] == NONE:
                        out.extend(go(i + 1, acc, s2))
                    else:
                        out.append((OK, unk("filter_map"), s2))
                elif m == "find_map":
                    if r[0] == "enum" and r[1] == SOME:
                        out.append((OK, r, s2))
                    elif r[0] == "enum" and r[1] == NONE:
                        out.extend(go(i + 1, acc, s2))
                    else:
                        out.append((OK, unk("find_map"), s2))
                elif r[0] != "bool":
                    out.append((OK, unk(m), s2))
                elif m == "filter":
                    out.extend(go(i + 1, acc + [x] if r[1] else acc, s2))
                elif m == "find":
                    if r[1]:
                        out.append((OK, some(x), s2))
                    else:
                        out.extend(go(i + 1, acc, s2))
                elif m == "position":
                    if r[1]:
                        out.append((OK, some(hirai.mkint(i)), s2))
                    else:
                        out.extend(go(i + 1, acc, s2))
                elif m == "any":
                    if r[1]:
                        out.append((OK, ("bool", True), s2))
                    else:
                        out.extend(go(i + 1, acc, s2))
                elif m == "all":
                    if not r[1]:
                        out.append((OK, ("bool", False), s2))
                    else:
                        out.extend(go(i + 1, acc, s2))
                elif m == "skip_while":
                    if r[1] and not acc:
                        out.extend(go(i + 1, acc, s2))
                    else:
                        return [(OK, ("abs", "siter", tuple(items[i:]), 0), s2)]
                elif m == "take_while":
                    if r[1]:
                        out.extend(go(i + 1, acc + [x], s2))
                    else:
                        out.append((OK, ("abs", "siter", tuple(acc), 0), s2))
            return out
        return go(0, [], st)


def display_writes_text(F, key):
    """interpret a Display::fmt impl of a syntax-node wrapper with `text()` replaced by a raw atom (arbitrary text, may
    begin / end with blanks or line breaks): the formatter must receive exactly that text.  Returns (ok, detail)."""
    import hirai, symstr, roundtrip
    f = F.fn(key)
    if f is None:
        return False, "Display impl not found"
    RAW = symstr.atom("node-text", "raw")

    class M(roundtrip.RTMod):
        def intrinsic(self, I, callee, args, st, n):
            if callee.endswith("SyntaxNode::<L>::text"):
                return [(hirai.OK, RAW, st)]
            return super().intrinsic(I, callee, args, st, n)
    mod = M(F)
    I = hirai.Interp(F, mod)
    st = hirai.State(depth=0).setroot(("T", "self"), ("enum", key[1:].split(" as ")[0], (("abs", "node"),))).setroot(("T", "fmt"), ("abs", "out", ()))
    res = I.inline(f, [("ref", (("T", "self"),)), ("ref", (("T", "fmt"),))], st)
    outs = []
    for ctl, v, s in res:
        buf = s.store.get(("T", "fmt"))
        outs.append((ctl, symstr.show(("sstr", buf[2])) if buf and buf[2] is not None else "?"))
    ok = outs == [(hirai.OK, symstr.show(RAW))]
    return ok, "writes %s, expected exactly the node's text" % outs
