"""A small regular-expression matcher over symbolic strings (units = literal characters and opaque atoms).

Supported syntax (what the repository's patterns use, and a little more): literal characters, escapes (\\[ \\] \\. \\\\ \\s
\\d \\w ...), '.', character classes [...] / [^...] with ranges, groups ( ) and (?: ), alternation, the greedy
quantifiers * + ? and {m,n}, anchors ^ $.  Semantics: leftmost-first (the regex crate's), by backtracking.

An atom stands for a non-empty text over the atom class's alphabet (everything except the class's excluded
characters).  A quantified single-character class swallows an atom whole when the class contains the whole alphabet;
a literal or class that can match none of the alphabet fails on it; everything else raises Undecided - the
caller then treats the result as unknown (fail closed)."""

WS = " \t\n\r\x0b\x0c"
EXCLUDED = {
    "word": set(WS) | set("[]()<>|,"),
    "url": set(WS) | set("[]"),
    "int": None,            # digits only: handled as alphabet
    "line": set("\n\r"),
    "text": set(),
    "raw": set(),
}


class Undecided(Exception):
    pass


class Unsupported(Exception):
    pass


# ------------------------------------------------------------------ parsing
def parse(src):
    pos = [0]

    def peek():
        return src[pos[0]] if pos[0] < len(src) else None

    def eat():
        ch = src[pos[0]]
        pos[0] += 1
        return ch

    def cls_escape(ch):
        if ch == "s":
            return ("set", False, frozenset(WS))
        if ch == "d":
            return ("set", False, frozenset("0123456789"))
        if ch == "w":
            return ("set", False, frozenset("abcdefghijklmnopqrstuvwxyzABCDEFGHIJKLMNOPQRSTUVWXYZ0123456789_"))
        if ch in "SDWbB" or ch.isalnum() and ch not in "nrt":
            raise Unsupported("escape \\" + ch)
        return None

    def escape_char(ch):
        return {"n": "\n", "r": "\r", "t": "\t"}.get(ch, ch)

    def alt():
        branches = [seq()]
        while peek() == "|":
            eat()
            branches.append(seq())
        return ("alt", tuple(branches)) if len(branches) > 1 else branches[0]

    def seq():
        items = []
        while peek() is not None and peek() not in "|)":
            a = atom()
            while peek() is not None and peek() in "*+?{":
                q = eat()
                if q == "{":
                    spec = ""
                    while peek() != "}":
                        spec += eat()
                    eat()
                    lo, _, hi = spec.partition(",")
                    lo = int(lo)
                    hi = lo if "," not in spec else (int(hi) if hi else None)
                else:
                    lo, hi = {"*": (0, None), "+": (1, None), "?": (0, 1)}[q]
                if peek() == "?":
                    raise Unsupported("lazy quantifier")
                a = ("rep", a, lo, hi)
            items.append(a)
        return ("seq", tuple(items))

    def atom():
        ch = eat()
        if ch == "(":
            if src.startswith("?:", pos[0]):
                pos[0] += 2
            elif peek() == "?":
                raise Unsupported("group flags")
            inner = alt()
            if peek() != ")":
                raise Unsupported("unbalanced group")
            eat()
            return inner
        if ch == "[":
            neg = False
            if peek() == "^":
                eat()
                neg = True
            chars = set()
            first = True
            while True:
                c = eat()
                if c == "]" and not first:
                    break
                first = False
                if c == "\\":
                    e = eat()
                    ce = cls_escape(e)
                    if ce is not None:
                        chars |= ce[2]
                        continue
                    c = escape_char(e)
                if peek() == "-" and pos[0] + 1 < len(src) and src[pos[0] + 1] != "]":
                    eat()
                    hi = eat()
                    if hi == "\\":
                        hi = escape_char(eat())
                    chars |= {chr(x) for x in range(ord(c), ord(hi) + 1)}
                else:
                    chars.add(c)
            return ("set", neg, frozenset(chars))
        if ch == ".":
            return ("set", True, frozenset("\n"))
        if ch == "^":
            return ("bol",)
        if ch == "$":
            return ("eol",)
        if ch == "\\":
            e = eat()
            ce = cls_escape(e)
            if ce is not None:
                return ce
            return ("chr", escape_char(e))
        if ch in "*+?{":
            raise Unsupported("dangling quantifier")
        return ("chr", ch)
    tree = alt()
    if pos[0] != len(src):
        raise Unsupported("trailing %r" % src[pos[0]:])
    return tree


# ------------------------------------------------------------------ units
def units_of(pieces):
    out = []
    for p in pieces:
        if p[0] == "lit":
            out.extend(("c", ch) for ch in p[1])
        else:
            out.append(("a", p[1], p[2]))
    return out


def pieces_of_units(us):
    return tuple(("lit", u[1]) if u[0] == "c" else ("atom", u[1], u[2]) for u in us)


def alphabet_relation(node, unit):
    """how a single-character matcher relates to an atom's alphabet: 'all' (matches every character the atom can
    contain), 'none', or 'some'"""
    cls = unit[2]
    if cls == "int":
        digits = set("0123456789")
        if node[0] == "chr":
            return "some" if node[1] in digits else "none"
        inside = {d for d in digits if (d in node[2]) != node[1]}
        return "all" if inside == digits else ("none" if not inside else "some")
    ex = EXCLUDED.get(cls)
    if ex is None:
        return "some"
    if node[0] == "chr":
        return "none" if node[1] in ex else "some"
    neg, chars = node[1], node[2]
    if neg:
        return "all" if chars <= ex else "some"     # every non-excluded character is outside `chars`
    return "none" if chars <= ex else "some"


def match_char(node, unit):
    """True/False for a literal unit; for an atom: False when impossible, Undecided otherwise (an atom is at least one
    character long and a single-character matcher cannot be shown to consume exactly the atom)"""
    if unit[0] == "c":
        if node[0] == "chr":
            return unit[1] == node[1]
        return (unit[1] in node[2]) != node[1]
    rel = alphabet_relation(node, unit)
    if rel == "none":
        return False
    raise Undecided("single-character matcher %s against atom <%s>" % (node, unit[1]))


def first_single(node):
    """the single-character matchers a match of `node` can begin with (None entries = can be empty)"""
    k = node[0]
    if k in ("chr", "set"):
        return [node]
    if k in ("bol", "eol"):
        return [None]
    if k == "rep":
        f = first_single(node[1])
        return f + ([None] if node[2] == 0 else [])
    if k == "alt":
        out = []
        for b in node[1]:
            out += first_single(b)
        return out
    if k == "seq":
        out = []
        for it in node[1]:
            f = first_single(it)
            out += [x for x in f if x is not None]
            if None not in f:
                return out
        return out + [None]
    return [None]


def seq_first(items, kf):
    out = []
    for it in items:
        f = first_single(it)
        out += [x for x in f if x is not None]
        if None not in f:
            return out
    return out + list(kf)


def m(node, us, i, k, kf):
    """backtracking matcher: match node at unit index i, then the continuation k(j); kf = the single-character matchers
    the continuation can begin with (None = it may match the empty string / succeed at once).  Returns end index or None"""
    kind = node[0]
    if kind in ("chr", "set"):
        if i < len(us) and match_char(node, us[i]):
            return k(i + 1)
        return None
    if kind == "bol":
        return k(i) if i == 0 else None
    if kind == "eol":
        return k(i) if i == len(us) else None
    if kind == "seq":
        items = node[1]

        def go(idx, j):
            if idx == len(items):
                return k(j)
            return m(items[idx], us, j, lambda j2: go(idx + 1, j2), seq_first(items[idx + 1:], kf))
        return go(0, i)
    if kind == "alt":
        for b in node[1]:
            r = m(b, us, i, k, kf)
            if r is not None:
                return r
        return None
    if kind == "rep":
        inner, lo, hi = node[1], node[2], node[3]
        if inner[0] in ("chr", "set"):
            # greedy run of a single-character matcher
            j = i
            stops = [i]
            while j < len(us) and (hi is None or len(stops) - 1 < hi):
                u = us[j]
                if u[0] == "c":
                    if not match_char(inner, u):
                        break
                else:
                    rel = alphabet_relation(inner, u)
                    if rel == "none":
                        break
                    if rel != "all":
                        raise Undecided("quantified %s against atom <%s>" % (inner, u[1]))
                    if hi is not None:
                        raise Undecided("bounded repetition against atom <%s>" % u[1])
                j += 1
                stops.append(j)
            for jj in reversed(stops):
                if jj - i < lo:          # an atom counts as at least one repetition
                    break
                r = k(jj)
                if r is not None:
                    return r
                # giving back part of an atom: the continuation would have to match inside the atom
                if jj > i and us[jj - 1][0] == "a":
                    for x in kf:
                        if x is not None and alphabet_relation(x, us[jj - 1]) != "none":
                            raise Undecided("backtracking into atom <%s>" % us[jj - 1][1])
            return None
        inner_first = [x for x in first_single(inner) if x is not None]

        def more(count, j):
            if hi is None or count < hi:
                r = m(inner, us, j, lambda j2: more(count + 1, j2) if j2 > j else None, inner_first + list(kf))
                if r is not None:
                    return r
            if count >= lo:
                return k(j)
            return None
        return more(0, i)
    raise Unsupported(kind)


def find(src, pieces):
    """leftmost-first match of the pattern in the symbolic string: (start, end, units) or None; raises Undecided"""
    tree = parse(src)
    us = units_of(pieces)
    firsts = first_single(tree)
    for start in range(len(us) + 1):
        # a match could also begin inside the atom just passed: only when a first matcher can match its alphabet
        if start > 0 and us[start - 1][0] == "a":
            for x in firsts:
                if x is not None and alphabet_relation(x, us[start - 1]) != "none":
                    raise Undecided("a match could begin inside atom <%s>" % us[start - 1][1])
        end = m(tree, us, start, lambda j: j, [None])
        if end is not None:
            return start, end, us
    return None
