#!/usr/bin/env python3
"""Confirmation aid (not a registered check): turn C11 histories dumped by `C11_DUMP=<file> ./check C11` into a Rust
program over the real crate and run it in a scratch crate, to see whether a reported violation is reproduced by the
real code.  usage: c11_replay.py <failing.json> <scratch crate dir>"""
import json, os, subprocess, sys
sys.path.insert(0, os.path.join(os.path.dirname(os.path.dirname(os.path.abspath(__file__))), "rules"))
import relspec, docbuild as db, c11

VC = {"<<": "LessThan", "<=": "LessThanEqual", "=": "Equal", ">=": "GreaterThanEqual", ">>": "GreaterThan"}


def rtext(r):
    return db.text_of_tokens(relspec.rel_tokens(r, "canonical"))


def rs(s):
    return json.dumps(s)


def ver(v):
    return "Some((VersionConstraint::%s, %s.parse().unwrap()))" % (VC[v[0]], rs(v[1])) if v else "None"


def mk_rel(r, how):
    if how == "parsed":
        return "%s.parse::<Relation>().unwrap()" % rs(rtext(r))
    if how == "padded":
        return "%s.parse::<Relation>().unwrap()" % rs("  " + rtext(r) + " ")
    if how == "new":
        out = "{ let mut r = Relation::new(%s, %s);" % (rs(r["name"]), ver(r["version"]))
    else:
        out = "{ let mut r = Relation::simple(%s);" % rs(r["name"])
        if r["version"]:
            out += " r.set_version(%s);" % ver(r["version"])
    if r["archqual"]:
        out += " r.set_archqual(%s);" % rs(r["archqual"])
    if r["archs"] is not None:
        out += " r.set_architectures(vec![%s].into_iter());" % ", ".join(rs(("!" if n else "") + a) for n, a in r["archs"])
    for g in r["profiles"]:
        out += " r.add_profile(&[%s]);" % ", ".join("BuildProfile::%s(%s.to_string())" % ("Disabled" if n else "Enabled", rs(x)) for n, x in g)
    return out + " r }"


def mk_entry(e, how):
    if how == "parsed":
        return "%s.parse::<Entry>().unwrap()" % rs(" | ".join(rtext(r) for r in e))
    if how == "padded":
        return "%s.parse::<Entry>().unwrap()" % rs("  " + " | ".join(rtext(r) for r in e) + " ")
    return "Entry::from(vec![%s])" % ", ".join(mk_rel(r, "new" if how == "ctor" else "builder") for r in e)


def op_code(op):
    kind, idx, arg, how = op
    if kind == "push":
        return "rels.push(%s);" % mk_entry(arg, how)
    if kind in ("insert", "replace"):
        return "rels.%s(%d, %s);" % (kind, idx, mk_entry(arg, how))
    if kind == "remove_entry":
        return "rels.remove_entry(%d);" % idx
    if kind == "entry.push":
        return "{ let mut e = rels.get_entry(%d).unwrap(); e.push(%s); }" % (idx, mk_rel(arg, how))
    i, j = idx
    if kind == "entry.replace":
        return "{ let mut e = rels.get_entry(%d).unwrap(); e.replace(%d, %s); }" % (i, j, mk_rel(arg, how))
    if kind == "entry.remove_relation":
        return "{ let e = rels.get_entry(%d).unwrap(); e.remove_relation(%d); }" % (i, j)
    pre = "{ let e = rels.get_entry(%d).unwrap(); let mut r = e.get_relation(%d).unwrap(); " % (i, j)
    if kind == "relation.remove":
        return pre + "r.remove(); }"
    if kind == "set_version":
        return pre + "r.set_version(%s); }" % ver(arg)
    if kind == "drop_constraint":
        return pre + "r.drop_constraint(); }"
    if kind == "set_archqual":
        return pre + "r.set_archqual(%s); }" % rs(arg)
    if kind == "set_architectures":
        return pre + "r.set_architectures(vec![%s].into_iter()); }" % ", ".join(rs(("!" if n else "") + a) for n, a in arg)
    if kind == "add_profile":
        return pre + "r.add_profile(&[%s]); }" % ", ".join("BuildProfile::%s(%s.to_string())" % ("Disabled" if n else "Enabled", rs(x)) for n, x in arg)
    raise ValueError(kind)


def main():
    hist = json.load(open(sys.argv[1]))
    crate = sys.argv[2]
    fns = []
    for k, h in enumerate(hist):
        entries, style, trailing, svars = c11.LAYOUTS[h["layout"]]
        text = db.text_of_tokens(relspec.field_tokens(entries, style, trailing, svars))
        ops = [tuple(tuple(x) if isinstance(x, list) and i == 1 else x for i, x in enumerate(o)) for o in h["ops"]]
        start = "Relations::new()" if not entries and not svars else "Relations::parse_relaxed(%s, %s).0" % (rs(text), "true" if svars else "false")
        body = "let mut rels = %s; %s rels.to_string()" % (start, " ".join(op_code(o) for o in ops))
        fns.append("    run(%d, %s, || { %s });" % (k, rs(h["layout"] + " :: " + " ; ".join(c11.op_label(o) for o in ops)), body))
    src = """#![allow(unused_mut, unused_variables)]
use debian_control::lossless::relations::{Relations, Entry, Relation};
use debian_control::relations::{VersionConstraint, BuildProfile};
fn run(k: usize, label: &str, f: impl FnOnce() -> String + std::panic::UnwindSafe) {
    match std::panic::catch_unwind(f) {
        Ok(s) => { let (r, errs) = Relations::parse_relaxed(&s, true); println!("{}\\tOK\\t{:?}\\tstrict_errors={:?}\\t{}", k, s, errs, label); let _ = r; }
        Err(_) => println!("{}\\tPANIC\\t\\t\\t{}", k, label),
    }
}
fn main() {
    std::panic::set_hook(Box::new(|_| {}));
%s
}
""" % "\n".join(fns)
    open(os.path.join(crate, "src", "main.rs"), "w").write(src)
    env = dict(os.environ, CARGO_NET_OFFLINE="true", CARGO_TARGET_DIR=crate + "-target")
    p = subprocess.run(["cargo", "run", "--offline", "-q"], cwd=crate, env=env, capture_output=True, text=True)
    if p.returncode != 0:
        print(p.stderr[-3000:])
    print(p.stdout)


main()
