#!/bin/bash
# run the property's check (and optionally extra checks) against every seeded mutant; writes seeded/RESULTS.tsv
# usage: run_seeded.sh            all mutants
#        run_seeded.sh ID...      only these (their rows in RESULTS.tsv are replaced)
cd /verif
: > seeded/RESULTS.tsv.new
if [ $# -gt 0 ]; then LIST=$(for i in "$@"; do echo seeded/$i; done); grep -v -F -f <(printf "%s\t\n" "$@") seeded/RESULTS.tsv > seeded/RESULTS.tsv.new; else LIST=$(ls -d seeded/C*-m*); fi
for d in $LIST; do
  id=$(basename $d); prop=${id%%-*}
  extra=$(python3 -c "import json;print(' '.join(json.load(open('$d/meta.json')).get('also_check',[])))" 2>/dev/null)
  cd /repo && git diff --quiet || { echo "repo dirty"; exit 2; }
  git apply /verif/$d/patch.diff || { echo -e "$id\tPATCH-FAILS" >> /verif/seeded/RESULTS.tsv.new; cd /verif; continue; }
  cd /verif
  res=""
  for c in $prop $extra; do
    out=$(timeout 900 ./check $c 2>&1)
    if echo "$out" | grep -q "^VIOLATION"; then
      rules=$(echo "$out" | grep "^  rule=" | sed 's/^  rule=//' | sort | uniq -c | sort -rn | head -3 | awk '{printf "%s(x%s) ", $2, $1}')
      res="$res $c:DETECTED[$rules]"
    else res="$res $c:missed"; fi
  done
  git -C /repo checkout -- .
  echo -e "$id\t$res" >> seeded/RESULTS.tsv.new
done
sort seeded/RESULTS.tsv.new > seeded/RESULTS.tsv; rm -f seeded/RESULTS.tsv.new
