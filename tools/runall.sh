#!/bin/bash
# run every claimed check (quick tier by default) against /repo, 4 at a time; prints one summary line per check
cd /verif
TIER=${1:-quick}
ids=$(python3 -c "import json;print(' '.join(c['property_id'] for c in json.load(open('MANIFEST.json'))['checks']))")
printf "%s\n" $ids | xargs -P 6 -I{} sh -c "timeout 3000 ./check {} --tier $TIER > /tmp/runall-{}.log 2>&1; echo \"{} exit=\$? \$(tail -1 /tmp/runall-{}.log)\""
