#!/bin/bash
# usage: mutcheck.sh <patch-file> <Cnn> [<Cnn>...]   apply a patch to /repo, run checks, revert
set -u
P=$1; shift
cd /repo || exit 2
if ! git diff --quiet; then echo "repo dirty"; exit 2; fi
git apply "$P" || { echo "patch does not apply"; exit 2; }
for c in "$@"; do
  (cd /verif && ./check "$c" 2>&1 | grep -E "VIOLATION|KNOWN-FINDING|obligations|rule=|instance=|factgen" | head -30)
done
git -C /repo checkout -- .
