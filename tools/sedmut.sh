#!/bin/bash
# usage: sedmut.sh <file-in-repo> <sed-expr> <Cnn> [...]  : apply a one-line mutation, run checks, revert
F=$1; E=$2; shift 2
cd /repo || exit 2
if ! git diff --quiet; then echo "repo dirty"; exit 2; fi
sed -i "$E" "$F"
if git diff --quiet; then echo "MUTATION DID NOT APPLY: $E"; exit 3; fi
git diff | grep '^[-+][^-+]' | head -6
for c in "$@"; do
  (cd /verif && ./check "$c" 2>&1 | grep -E "VIOLATION|^C[0-9]+:|instance=|factgen|error" | head -12)
done
git -C /repo checkout -- .
