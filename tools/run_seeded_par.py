#!/usr/bin/env python3
"""Parallel variant of run_seeded.sh: every seeded mutant is applied to a scratch worktree of /repo HEAD (never to
/repo), the property's check and the mutant's `also_check` list run against that worktree (VERIF_REPO), and the patch
is reverted.  Same output format (seeded/RESULTS.tsv).  usage: run_seeded_par.py [-j N] [ID ...]"""
import glob, json, os, re, shutil, subprocess, sys
from concurrent.futures import ThreadPoolExecutor
V = os.path.dirname(os.path.dirname(os.path.abspath(__file__)))
BASE = "/tmp/seedrun"


def sh(cmd, cwd=None, env=None, timeout=3000):
    p = subprocess.run(cmd, cwd=cwd, env=env, shell=True, capture_output=True, text=True, timeout=timeout)
    return p.returncode, p.stdout + p.stderr


def work(k, ids, head):
    wt = "%s/wt%d" % (BASE, k)
    sh("git -C /repo worktree remove --force %s" % wt)
    shutil.rmtree(wt, ignore_errors=True)
    rc, out = sh("git -C /repo worktree add --detach %s %s" % (wt, head))
    assert rc == 0, out
    env = dict(os.environ, VERIF_REPO=wt, CARGO_NET_OFFLINE="true")
    rows = []
    for mid in ids:
        d = os.path.join(V, "seeded", mid)
        prop = mid.split("-")[0]
        meta = json.load(open(d + "/meta.json"))
        sh("git checkout -q -- .", cwd=wt)
        rc, out = sh("git apply %s/patch.diff" % d, cwd=wt)
        if rc != 0:
            rows.append((mid, "PATCH-FAILS"))
            continue
        res = ""
        for c in [prop] + [x for x in meta.get("also_check", []) if x != prop]:
            rc, out = sh("timeout 2400 ./check %s" % c, cwd=V, env=env)
            if re.search(r"^VIOLATION", out, re.M):
                rules = {}
                for r in re.findall(r"^  rule=(\S+)", out, re.M):
                    rules[r] = rules.get(r, 0) + 1
                top = sorted(rules.items(), key=lambda kv: -kv[1])[:3]
                res += " %s:DETECTED[%s]" % (c, " ".join("%s(x%d)" % kv for kv in top) + " ")
            else:
                res += " %s:missed" % c
        sh("git checkout -q -- .", cwd=wt)
        rows.append((mid, res))
        print(mid, res[:140], flush=True)
    sh("git -C /repo worktree remove --force %s" % wt)
    return rows


def main():
    args = sys.argv[1:]
    j = 5
    if args[:1] == ["-j"]:
        j = int(args[1])
        args = args[2:]
    ids = args or sorted(os.path.basename(p) for p in glob.glob(os.path.join(V, "seeded", "C*-m*")))
    head = subprocess.run("git -C /repo rev-parse --short HEAD", shell=True, capture_output=True, text=True).stdout.strip()
    os.makedirs(BASE, exist_ok=True)
    chunks = [ids[i::j] for i in range(j)]
    rows = []
    with ThreadPoolExecutor(j) as ex:
        for r in ex.map(lambda kc: work(kc[0], kc[1], head), enumerate(chunks)):
            rows += r
    done = {r[0] for r in rows}
    if args:
        try:
            for l in open(os.path.join(V, "seeded", "RESULTS.tsv")):
                p = l.rstrip("\n").split("\t")
                if len(p) == 2 and p[0] not in done:
                    rows.append(tuple(p))
        except OSError:
            pass
    rows.sort()
    with open(os.path.join(V, "seeded", "RESULTS.tsv"), "w") as fh:
        for r in rows:
            fh.write("%s\t%s\n" % r)
    missed = [r for r in rows if "DETECTED" not in r[1]]
    print("%d mutants, %d not detected: %s" % (len(rows), len(missed), [r[0] for r in missed]))
    shutil.rmtree(BASE, ignore_errors=True)


main()
