#!/usr/bin/env python3
"""False-alarm test: behaviour-preserving refactorings (benign/<ID>-r<k>/patch.diff) are applied to scratch worktrees of
/repo HEAD; the existing suite must stay green and the property's check (plus every other check whose anchored files
the patch touches) must stay SILENT.  Writes benign/RESULTS.tsv.   usage: run_benign.py [--no-suite] [-j N] [--import DIR] [ID ...]"""
import glob, json, os, re, shutil, subprocess, sys
from concurrent.futures import ThreadPoolExecutor
V = os.path.dirname(os.path.dirname(os.path.abspath(__file__)))
BASE = "/tmp/benrun"
PROPS = {json.loads(l)["id"]: json.loads(l) for l in open(os.path.join(V, "properties.jsonl"))}


def sh(cmd, cwd=None, env=None, timeout=3000):
    p = subprocess.run(cmd, cwd=cwd, env=env, shell=True, capture_output=True, text=True, timeout=timeout)
    return p.returncode, p.stdout + p.stderr


def checks_for(mid, patch):
    prop = mid.split("-")[0]
    touched = set(re.findall(r"^\+\+\+ b/(\S+)", patch, re.M))
    out = [prop]
    for pid, p in sorted(PROPS.items()):
        if pid != prop and touched & set(p["anchors"]["files"]):
            out.append(pid)
    return out


NO_SUITE = False


def work(k, ids, head):
    wt = "%s/wt%d" % (BASE, k)
    sh("git -C /repo worktree remove --force %s" % wt)
    shutil.rmtree(wt, ignore_errors=True)
    rc, out = sh("git -C /repo worktree add --detach %s %s" % (wt, head))
    assert rc == 0, out
    env = dict(os.environ, VERIF_REPO=wt, CARGO_NET_OFFLINE="true", CARGO_TARGET_DIR="%s/target%d" % (BASE, k))
    rows = []
    for mid in ids:
        d = os.path.join(V, "benign", mid)
        patch = open(d + "/patch.diff").read()
        sh("git checkout -q -- .", cwd=wt)
        rc, out = sh("git apply %s/patch.diff" % d, cwd=wt)
        if rc != 0:
            rows.append((mid, "PATCH-FAILS"))
            continue
        rc, out = (0, "") if NO_SUITE else sh("timeout 1500 cargo test --workspace --offline", cwd=wt, env=env)
        failed = sum(int(x) for x in re.findall(r"test result: \w+\. \d+ passed; (\d+) failed", out))
        if rc != 0 or failed:
            rows.append((mid, "SUITE-FAILS (not a valid refactoring)"))
            sh("git checkout -q -- .", cwd=wt)
            continue
        res = ""
        for c in checks_for(mid, patch):
            rc, out = sh("timeout 2400 ./check %s" % c, cwd=V, env=env)
            if re.search(r"^VIOLATION", out, re.M):
                rules = sorted(set(re.findall(r"^  rule=(\S+)", out, re.M)))[:3]
                res += " %s:ALARM[%s]" % (c, " ".join(rules))
            else:
                res += " %s:silent" % c
        sh("git checkout -q -- .", cwd=wt)
        rows.append((mid, res))
        print(mid, res[:200], flush=True)
    sh("git -C /repo worktree remove --force %s" % wt)
    return rows


def main():
    global NO_SUITE
    args = sys.argv[1:]
    if "--no-suite" in args:      # the suite was already seen green with this patch (an earlier run); only re-run the checks
        NO_SUITE = True
        args.remove("--no-suite")
    j = 5
    if args[:1] == ["-j"]:
        j = int(args[1])
        args = args[2:]
    if args[:1] == ["--import"]:
        src = args[1]
        args = args[2:]
        for d in sorted(glob.glob(src + "/C*/r*")):
            if os.path.exists(d + "/patch.diff"):
                mid = "%s-%s" % (os.path.basename(os.path.dirname(d)), os.path.basename(d))
                out = os.path.join(V, "benign", mid)
                os.makedirs(out, exist_ok=True)
                shutil.copy(d + "/patch.diff", out)
                if os.path.exists(d + "/meta.json"):
                    shutil.copy(d + "/meta.json", out)
    ids = args or sorted(os.path.basename(p) for p in glob.glob(os.path.join(V, "benign", "C*-r*")))
    head = subprocess.run("git -C /repo rev-parse --short HEAD", shell=True, capture_output=True, text=True).stdout.strip()
    os.makedirs(BASE, exist_ok=True)
    chunks = [ids[i::j] for i in range(j)]
    rows = []
    with ThreadPoolExecutor(j) as ex:
        for r in ex.map(lambda kc: work(kc[0], kc[1], head), enumerate(chunks)):
            rows += r
    done = {r[0] for r in rows}
    try:
        for l in open(os.path.join(V, "benign", "RESULTS.tsv")):
            p = l.rstrip("\n").split("\t")
            if len(p) == 2 and p[0] not in done:
                rows.append(tuple(p))
    except OSError:
        pass
    rows.sort()
    with open(os.path.join(V, "benign", "RESULTS.tsv"), "w") as fh:
        for r in rows:
            fh.write("%s\t%s\n" % r)
    alarms = [r for r in rows if "ALARM" in r[1]]
    print("%d refactorings, %d with an alarm: %s" % (len(rows), len(alarms), [r[0] for r in alarms]))
    shutil.rmtree(BASE, ignore_errors=True)


main()
