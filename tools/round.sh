#!/bin/bash
# usage: ROUND=<r> tools/round.sh ID...   stage round-r mutants (m<3(r-1)+1..3r>) of these properties, confirm them on scratch
# worktrees, drop the unconfirmed ones, and run the property's check (+ also_check) on each, several at a time
cd /verif
R=${ROUND:?set ROUND}
python3 tools/seed_import2.py "$@" | grep -c staged
ids=""
for ID in "$@"; do for k in $((3*R-2)) $((3*R-1)) $((3*R)); do [ -d seeded/$ID-m$k ] && ids="$ids $ID-m$k"; done; done
python3 tools/reconfirm.py -j 6 $ids | tail -4
python3 tools/seed_import2.py --prune
ids=""
for ID in "$@"; do for k in $((3*R-2)) $((3*R-1)) $((3*R)); do [ -d seeded/$ID-m$k ] && ids="$ids $ID-m$k"; done; done
python3 tools/run_seeded_par.py -j 6 $ids | tail -40
