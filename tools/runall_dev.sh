#!/bin/bash
# run every claimed check against the development worktree /tmp/head2 (evidence goes to evidence/scratch)
cd /verif
ids=$(python3 -c "import json;print(' '.join(c['property_id'] for c in json.load(open('MANIFEST.json'))['checks']))")
printf "%s\n" $ids | xargs -P 6 -I{} sh -c "VERIF_REPO=/tmp/head2 timeout 3000 ./check {} > /tmp/runalldev-{}.log 2>&1; echo \"{} exit=\$? \$(tail -1 /tmp/runalldev-{}.log)\""
