#!/bin/bash
# usage: round2.sh ID...   stage round-2 mutants of these properties, confirm them, drop unconfirmed, run the property's check on each (dev worktree)
cd /verif
python3 tools/seed_import2.py "$@" | grep -c staged
ids=""
KS=${KS:-"4 5 6"}
for ID in "$@"; do for k in $KS; do [ -d seeded/$ID-m$k ] && ids="$ids $ID-m$k"; done; done
python3 tools/reconfirm.py -j 5 $ids | tail -5
python3 tools/seed_import2.py --prune
for ID in "$@"; do for k in $KS; do
  [ -d seeded/$ID-m$k ] || continue
  out=$(tools/devmut.sh /verif/seeded/$ID-m$k/patch.diff $ID 2>&1)
  if echo "$out" | grep -q "^VIOLATION"; then echo "$ID-m$k DETECTED $(echo "$out" | grep -c '^VIOLATION')"; else echo "$ID-m$k MISSED :: $(echo "$out" | tail -1)"; fi
done; done
