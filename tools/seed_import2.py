#!/usr/bin/env python3
"""stage round-2 agent mutants from /tmp/mut2/out/<ID>/m<i> as seeded/<ID>-m<i+3> (unconfirmed); confirm them with
tools/reconfirm.py <ids> afterwards and drop the ones that are not confirmed (tools/seed_import2.py --prune)"""
import json, os, shutil, sys
V = os.path.dirname(os.path.dirname(os.path.abspath(__file__)))
ROUND = int(os.environ.get("ROUND", "2"))      # round r: agent output under /tmp/mut<r>/out, stored as m<3(r-1)+i>
if sys.argv[1:2] == ["--prune"]:
    conf = {}
    for l in open(os.path.join(V, "seeded", "RECONFIRM.tsv")):
        p = l.rstrip("\n").split("\t")
        if len(p) > 1:
            conf[p[0]] = p[1]
    for d in sorted(os.listdir(os.path.join(V, "seeded"))):
        mp = os.path.join(V, "seeded", d, "meta.json")
        if os.path.exists(mp):
            m = json.load(open(mp))
            if m.get("round", 1) >= 2 and "reconfirmed_at" not in m:
                print("dropping unconfirmed", d, conf.get(d))
                shutil.rmtree(os.path.join(V, "seeded", d))
    sys.exit(0)
for ID in sys.argv[1:]:
    base = "/tmp/mut%d/out/%s" % (ROUND, ID)
    if not os.path.isdir(base):
        print("no output for", ID)
        continue
    for m in sorted(os.listdir(base)):
        d = os.path.join(base, m)
        if not (m.startswith("m") and m[1:].isdigit() and os.path.exists(os.path.join(d, "patch.diff")) and os.path.exists(os.path.join(d, "demo.rs"))):
            continue
        out = os.path.join(V, "seeded", "%s-m%d" % (ID, int(m[1:]) + 3 * (ROUND - 1)))
        os.makedirs(out, exist_ok=True)
        shutil.copy(os.path.join(d, "patch.diff"), out)
        shutil.copy(os.path.join(d, "demo.rs"), out)
        try:
            meta = json.load(open(os.path.join(d, "meta.json")))
        except Exception:
            meta = {}
        meta["property"] = ID
        meta["round"] = ROUND
        json.dump(meta, open(os.path.join(out, "meta.json"), "w"), indent=1)
        print("staged", out)
