#!/usr/bin/env python3
"""import confirmed agent mutants from /tmp/mut/out/<ID>/m<i> into /verif/seeded/<ID>-m<i>/"""
import json, os, shutil, sys
V = os.path.dirname(os.path.dirname(os.path.abspath(__file__)))
for ID in sys.argv[1:]:
    base = "/tmp/mut/out/%s" % ID
    for m in sorted(os.listdir(base)):
        d = os.path.join(base, m)
        if not (m.startswith("m") and os.path.exists(os.path.join(d, "confirm.json"))):
            continue
        conf = json.load(open(os.path.join(d, "confirm.json")))
        ok = conf.get("applies") and conf.get("suite_exit") == 0 and conf.get("demo_clean_exit") == 0 and conf.get("demo_mutated_exit") not in (0, None)
        if not ok:
            print("NOT CONFIRMED", ID, m, conf)
            continue
        out = os.path.join(V, "seeded", "%s-%s" % (ID, m))
        os.makedirs(out, exist_ok=True)
        shutil.copy(os.path.join(d, "patch.diff"), out)
        shutil.copy(os.path.join(d, "demo.rs"), out)
        try:
            meta = json.load(open(os.path.join(d, "meta.json")))
        except Exception:
            meta = {}
        meta["property"] = ID
        meta["confirmed_by_me"] = {"what": "applied in a scratch worktree of /repo HEAD; cargo test --workspace --offline (145 unit + doc tests) stays green; the demo passes on the clean tree and fails with the patch",
                                   "suite_passed": conf["suite_passed"], "suite_failed": conf["suite_failed"], "demo_clean_exit": conf["demo_clean_exit"], "demo_mutated_exit": conf["demo_mutated_exit"],
                                   "script": "tools/confirm_mutants.sh"}
        json.dump(meta, open(os.path.join(out, "meta.json"), "w"), indent=1)
        print("imported", out)
