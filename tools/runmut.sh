#!/bin/bash
# usage: runmut.sh <patch.diff> <Cnn> [...]: apply an agent-produced mutation to /repo, run checks, revert
P=$1; shift
cd /repo || exit 2
git diff --quiet || { echo "repo dirty"; exit 2; }
git apply "$P" || { echo "PATCH DOES NOT APPLY"; exit 3; }
for c in "$@"; do
  (cd /verif && timeout 900 ./check "$c" 2>&1 | grep -E "VIOLATION|^C[0-9]+:|instance=|factgen|rror" | head -8)
done
git -C /repo checkout -- .
