#!/usr/bin/env python3
"""Re-confirm every seeded mutant against the CURRENT /repo HEAD in scratch worktrees (never in /repo):
the patch applies, the workspace still compiles, the whole existing suite stays green, and the mutant's demo passes
without and fails with the patch.  Writes seeded/RECONFIRM.tsv; updates meta.json["reconfirmed_at"].
usage: reconfirm.py [-j N] [ID ...]"""
import glob, json, os, re, shutil, subprocess, sys
from concurrent.futures import ThreadPoolExecutor
V = os.path.dirname(os.path.dirname(os.path.abspath(__file__)))
BASE = "/tmp/reconf"
ENV = dict(os.environ, CARGO_NET_OFFLINE="true")


def sh(cmd, cwd=None, env=None, timeout=1800):
    p = subprocess.run(cmd, cwd=cwd, env=env or ENV, shell=True, capture_output=True, text=True, timeout=timeout)
    return p.returncode, p.stdout + p.stderr


def lock_version(name):
    m = re.search(r'name = "%s"\nversion = "([^"]+)"' % re.escape(name), open("/repo/Cargo.lock").read())
    return m.group(1) if m else None


def setup(k, head):
    wt = "%s/wt%d" % (BASE, k)
    sh("git -C /repo worktree remove --force %s" % wt)
    shutil.rmtree(wt, ignore_errors=True)
    rc, out = sh("git -C /repo worktree add --detach %s %s" % (wt, head))
    assert rc == 0, out
    crate = "%s/demo%d" % (BASE, k)
    shutil.rmtree(crate, ignore_errors=True)
    os.makedirs(crate + "/tests")
    os.makedirs(crate + "/src")
    open(crate + "/src/lib.rs", "w").write("")
    deps = ['deb822-lossless = { path = "%s", features = ["derive"] }' % wt]
    for c in ("debian-control", "debian-copyright", "dep3", "apt-sources"):
        deps.append('%s = { path = "%s/%s" }' % (c, wt, c))
    for c in ("debversion", "url", "chrono", "regex"):
        v = lock_version(c)
        if v:
            deps.append('%s = "=%s"' % (c, v))
    open(crate + "/Cargo.toml", "w").write('[package]\nname = "democrate"\nversion = "0.0.0"\nedition = "2021"\n\n[workspace]\n\n[dependencies]\n' + "\n".join(deps) + "\n")
    shutil.copy("/repo/Cargo.lock", crate + "/Cargo.lock")
    return wt, crate


def work(k, ids, head):
    wt, crate = setup(k, head)
    tgt = "%s/target%d" % (BASE, k)
    env = dict(ENV, CARGO_TARGET_DIR=tgt)
    rows = []
    for mid in ids:
        d = os.path.join(V, "seeded", mid)
        for f in glob.glob(crate + "/tests/*.rs"):
            os.remove(f)
        shutil.copy(d + "/demo.rs", crate + "/tests/demo.rs")
        sh("git checkout -q -- .", cwd=wt)
        c_rc, c_out = sh("timeout 900 cargo test --offline --test demo", cwd=crate, env=env)
        a_rc, a_out = sh("git apply %s/patch.diff" % d, cwd=wt)
        if a_rc != 0:
            rows.append((mid, "PATCH-FAILS", "", "", ""))
            continue
        s_rc, s_out = sh("timeout 1500 cargo test --workspace --offline", cwd=wt, env=env)
        passed = sum(int(x) for x in re.findall(r"test result: \w+\. (\d+) passed", s_out))
        failed = sum(int(x) for x in re.findall(r"test result: \w+\. \d+ passed; (\d+) failed", s_out))
        m_rc, m_out = sh("timeout 900 cargo test --offline --test demo", cwd=crate, env=env)
        sh("git checkout -q -- .", cwd=wt)
        ok = c_rc == 0 and s_rc == 0 and failed == 0 and m_rc != 0 and "error: could not compile" not in m_out
        rows.append((mid, "CONFIRMED" if ok else "NOT-CONFIRMED", "demo_clean=%d" % c_rc, "suite=%d (%d passed, %d failed)" % (s_rc, passed, failed), "demo_mutated=%d" % m_rc))
        if not ok:
            open("%s/%s.log" % (BASE, mid), "w").write(c_out[-3000:] + "\n=====\n" + s_out[-3000:] + "\n=====\n" + m_out[-3000:])
        else:
            meta = json.load(open(d + "/meta.json"))
            meta["reconfirmed_at"] = {"repo_head": head, "suite_passed": passed, "suite_failed": failed, "demo_clean_exit": c_rc, "demo_mutated_exit": m_rc, "script": "tools/reconfirm.py"}
            if "confirmed_by_me" not in meta:
                meta["confirmed_by_me"] = {"what": "applied in a scratch worktree of /repo HEAD %s; cargo test --workspace --offline stays green; the demo passes on the clean tree and fails with the patch" % head,
                                           "suite_passed": passed, "suite_failed": failed, "demo_clean_exit": c_rc, "demo_mutated_exit": m_rc, "script": "tools/reconfirm.py"}
            json.dump(meta, open(d + "/meta.json", "w"), indent=1)
    sh("git -C /repo worktree remove --force %s" % wt)
    shutil.rmtree(tgt, ignore_errors=True)
    shutil.rmtree(crate, ignore_errors=True)
    return rows


def main():
    args = sys.argv[1:]
    j = 4
    if args[:1] == ["-j"]:
        j = int(args[1])
        args = args[2:]
    ids = args or sorted(os.path.basename(p) for p in glob.glob(os.path.join(V, "seeded", "C*-m*")))
    head = subprocess.run("git -C /repo rev-parse --short HEAD", shell=True, capture_output=True, text=True).stdout.strip()
    os.makedirs(BASE, exist_ok=True)
    chunks = [ids[i::j] for i in range(j)]
    rows = []
    with ThreadPoolExecutor(j) as ex:
        for r in ex.map(lambda kc: work(kc[0], kc[1], head), enumerate(chunks)):
            rows += r
    if args:
        done = {r[0] for r in rows}
        try:
            for l in open(os.path.join(V, "seeded", "RECONFIRM.tsv")):
                p = tuple(l.rstrip("\n").split("\t"))
                if not l.startswith("#") and p[0] not in done and len(p) > 1:
                    rows.append(p)
        except OSError:
            pass
    rows.sort()
    with open(os.path.join(V, "seeded", "RECONFIRM.tsv"), "w") as fh:
        fh.write("# re-confirmation of the seeded mutants against /repo HEAD %s (tools/reconfirm.py)\n" % head)
        for r in rows:
            fh.write("\t".join(r) + "\n")
    print("\n".join("\t".join(r) for r in rows if r[1] != "CONFIRMED") or "all %d confirmed" % len(rows))
    if not os.listdir(BASE) or all(x.endswith(".log") for x in os.listdir(BASE)):
        pass


main()
