#!/bin/bash
# confirm agent-produced mutants: compiles, existing suite green, demo fails with / passes without.
# usage: confirm_mutants.sh ID...   (worktree /tmp/mut/ID, outputs /tmp/mut/out/ID/mN/confirm.json)
export CARGO_NET_OFFLINE=true
for ID in "$@"; do
  WT=/tmp/mut/$ID
  OUT=/tmp/mut/out/$ID
  [ -d "$WT" ] || continue
  for M in $OUT/m*; do
    [ -f "$M/patch.diff" ] || continue
    [ -f "$M/confirm.json" ] && continue
    n=$(basename $M)
    cd $WT && git checkout -q -- . 
    # demo without mutation
    ( cd $OUT/democrate && CARGO_TARGET_DIR=$WT-target timeout 900 cargo test --offline --test $n > $M/demo_clean.log 2>&1 ); clean=$?
    git apply $M/patch.diff || { echo "{\"applies\": false}" > $M/confirm.json; continue; }
    ( CARGO_TARGET_DIR=$WT-target timeout 1500 cargo test --workspace --offline > $M/suite.log 2>&1 ); suite=$?
    ( cd $OUT/democrate && CARGO_TARGET_DIR=$WT-target timeout 900 cargo test --offline --test $n > $M/demo_mut.log 2>&1 ); mut=$?
    passed=$(grep -h "^test result" $M/suite.log | awk '{s+=$4} END {print s}')
    failed=$(grep -h "^test result" $M/suite.log | awk '{s+=$6} END {print s}')
    echo "{\"applies\": true, \"suite_exit\": $suite, \"suite_passed\": ${passed:-0}, \"suite_failed\": ${failed:-0}, \"demo_clean_exit\": $clean, \"demo_mutated_exit\": $mut}" > $M/confirm.json
    git checkout -q -- .
  done
  rm -rf $WT-target
done
