#!/bin/bash
# development aid: apply a mutant to the scratch worktree /tmp/head (never /repo), run checks there, revert
P=$1; shift
git -C /tmp/head diff --quiet || { echo "worktree dirty"; exit 2; }
git -C /tmp/head apply "$P" || { echo "PATCH DOES NOT APPLY"; exit 3; }
for c in "$@"; do
  (cd /verif && VERIF_REPO=/tmp/head timeout 1500 ./check "$c" 2>&1 | grep -E "^VIOLATION|^C[0-9]+:|instance=|factgen|rror" | head -${DEVMUT_LINES:-4})
done
git -C /tmp/head checkout -- .
