#!/usr/bin/env python3
"""regenerates MANIFEST.json from the table below (single source of truth for claimed checks)"""
import json, os
V = os.path.dirname(os.path.dirname(os.path.abspath(__file__)))
props = [json.loads(l) for l in open(os.path.join(V, "properties.jsonl"))]

CLAIMED = {
 "C12": dict(level="proof", ref="4/C12",
   technique="finite-domain abstract interpretation of the evaluators' HIR over the complete decision table (static; no execution)",
   text="Every cell of the satisfaction decision table (installed absent/lower/equal/higher x constraint none/<</<=/=/>=/>>) and every AND/OR composition of up to 2x2 is decided by abstract interpretation of both evaluators' type-checked HIR, with comparison operators identified by resolved trait method and operand role. The table is finite, so this is exhaustive; a swapped operator, operand order, any/all mix-up or presence rule is reported with the cell.",
   note="Trusted: rustc's HIR/typeck, debversion::Version's Ord (Debian version ordering), the hirai interpreter; the Relation::version()/name() accessors are assumed to return what was parsed (that is C10)."),
}
NA_REASON = "check not built yet (construction in progress; see DESIGN.md section 9 build order)"

m = {
 "version": 1,
 "setup_cmd": "cd /verif/factgen && CARGO_NET_OFFLINE=true cargo build --offline",
 "hooks": {"guard": "deb822_verif", "enable": "none needed: the analysis reads /repo's source through a rustc_private driver (RUSTC_WORKSPACE_WRAPPER under cargo +nightly check); no instrumentation in /repo",
           "baseline_off_cmd": "cd /repo && cargo test --workspace --no-fail-fast --offline", "source_commits": [], "add_only": True},
 "engines": [
  {"name": "factgen", "path": "factgen/", "serves_properties": sorted(CLAIMED), "kind_free_text": "rustc_private driver dumping resolved HIR (callees, types, patterns, format templates), MIR CFG terminators, ADTs and impls of every workspace crate as JSON facts"},
  {"name": "hirai", "path": "rules/hirai.py", "serves_properties": sorted(CLAIMED), "kind_free_text": "finite-domain abstract interpreter over the HIR facts (set-valued big-step semantics, loop fixpoints); used for decision tables, lexer tables, token-cursor analyses"},
  {"name": "rules", "path": "rules/", "serves_properties": sorted(CLAIMED), "kind_free_text": "per-property rule modules (python3, stdlib only) + report/evidence writer"},
 ],
 "checks": [],
 "notes": "All checks are static: they compile /repo with a fact-dumping rustc driver (cached by content hash of the working tree) and decide rules over the dumped program. ./check <id> [--tier quick|thorough] [--replay file].",
 "not_applicable": [],
}
for p in props:
    pid = p["id"]
    if pid in CLAIMED:
        c = CLAIMED[pid]
        m["checks"].append({
            "property_id": pid,
            "quick_cmd": "./check %s --tier quick" % pid,
            "thorough_cmd": "./check %s --tier thorough" % pid,
            "evidence_file": "/verif/evidence/%s.json" % pid,
            "replay_cmd_template": "./check %s --replay {path}" % pid,
            "engine": "rules",
            "level_claimed": {"category": c["level"], "text": c["text"], "design_ref": c["ref"]},
            "level_note": c["note"],
            "technique": c["technique"],
        })
    else:
        m["not_applicable"].append({"property_id": pid, "reason": NA_REASON})
json.dump(m, open(os.path.join(V, "MANIFEST.json"), "w"), indent=1)
print("claimed:", sorted(CLAIMED))
