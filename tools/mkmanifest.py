#!/usr/bin/env python3
"""regenerates MANIFEST.json from the table below (single source of truth for claimed checks)"""
import json, os
V = os.path.dirname(os.path.dirname(os.path.abspath(__file__)))
props = [json.loads(l) for l in open(os.path.join(V, "properties.jsonl"))]

CLAIMED = {
 "C12": dict(level="proof", ref="4/C12",
   technique="finite-domain abstract interpretation of the evaluators' HIR over the complete decision table (static; no execution)",
   text="Every cell of the satisfaction decision table (installed absent/lower/equal/higher x constraint none/<</<=/=/>=/>>) and every AND/OR composition of up to 2x2 is decided by abstract interpretation of both evaluators' type-checked HIR, with comparison operators identified by resolved trait method and operand role. The table is finite, so this is exhaustive; a swapped operator, operand order, any/all mix-up or presence rule is reported with the cell.",
   note="Trusted: rustc's HIR/typeck, debversion::Version's Ord (Debian version ordering), the hirai interpreter; the Relation::version()/name() accessors are assumed to return what was parsed (that is C10)."),
 "C16": dict(level="other", ref="4/C16",
   technique="abstract interpretation of the derive-generated from_paragraph/to_paragraph/update_paragraph impls (macro expansions in the type-checked HIR) against a list-of-pairs paragraph model, with a symbolic string domain for the (de)serialisers",
   text="For each of the 12 deriving structs shipped in the workspace (158 fields) the generated code itself is interpreted over symbolic values with all optional fields present and all absent: key set/order, custom serialiser vs deserialiser agreement (from_paragraph(to_paragraph(v)) must be exactly Ok(v)), update touching only own keys, removal of absent optionals, a foreign field staying untouched, read-back after update, the missing-field error naming the field, genericity in the paragraph back-end and delegation of both back-end adapters. Decides the structural/codec part of the round trip for representative symbolic values; not a value-level proof for arbitrary strings.",
   note="Atoms stand for valid component strings (no whitespace/syntax characters, distinct from keywords). Opaque field types (lossy Relations, Version, Url, NaiveDate, PathBuf, ParsedVcs) are assumed to print/parse an atom unchanged. Paragraph back-ends are assumed to be ordered lists (C04/C08). The macro is analysed through its expansions in the shipped structs, not for arbitrary struct definitions."),
 "C18": dict(level="other", ref="4/C18",
   technique="symbolic print/parse round trip: abstract interpretation of each Display/ToString and FromStr pair over literal-piece + atom strings; exhaustive over enumeration variants",
   text="Every value codec found in the anchored files (19 types; Vcs::{to_field,from_field}; format_origin/parse_origin) is printed and parsed back inside the abstract interpreter: parse(print(v)) must be exactly {Ok(v)} for every enumeration variant and every Option-field combination of every record; pure enumerations must reject an unknown keyword and print distinct keywords. Enumerations are covered exhaustively, records per field position and separator.",
   note="Atoms = valid component strings (non-empty, no whitespace/syntax characters, not a keyword/prefix). ParsedVcs (regex + slicing) and parse_identity are free-text codecs and are listed as undecided in the evidence, not claimed."),
 "C01": dict(level="proof", ref="4/C01",
   technique="abstract interpretation: deb822 lexer transition table over all reachable modes x 131 character classes; token-cursor fixpoint of the parser and its entry points over all token-kind sequences with conservation/order/balance/progress monitors",
   text="Structural proof obligations, all of which must discharge: (D1) every lexer cell returns a non-empty prefix split at a char boundary and continues with the exact suffix; (D2) on every path of the parser, for every token-kind sequence, each consumed token reaches builder.token unchanged, exactly once and in input order, nodes balance and finish() sees one root; (D3) Display writes text(); (D4) the caller's text reaches the lexer unmodified through all six entry points, strict returns Ok exactly when the error list is empty, tolerant returns the unfiltered list, the returned tree is the mutable root over the parse's green node. Together with rowan's contract this is the property.",
   note="Trusted: rustc HIR/typeck, rowan (text() = concatenation of builder.token texts), str::find/split_at contracts, the hirai interpreter. Token texts are opaque to the parser: any other use of a token is reported as an escape from the cursor vocabulary."),
 "C09": dict(level="proof", ref="4/C09",
   technique="abstract interpretation: relation lexer per character class with a consumed-equals-appended monitor; token-cursor fixpoint of the relation parser (substvars on/off) and its five entry points over all token-kind sequences",
   text="As C01 for the relationship-field reader: lexer literal arms print exactly the one character they consume, run arms append every consumed character, EOF yields None; the parser conserves tokens (including the direct pop in parse_entry), keeps order, balances nodes and makes progress in every loop for every token-kind sequence; strict = no errors with substvars disallowed; tolerant returns the unfiltered list; Entry/Relation readers return child nodes of the parsed tree; Display writes the syntax text.",
   note="Trusted as C01; the look-ahead helper peek_past_ws is replaced by a summary (first kind outside {WHITESPACE, NEWLINE} from the top) that is validated by interpreting the helper on all token vectors of length <= 3."),
 "C03": dict(level="other", ref="4/C03",
   technique="inclusion of the well-formed line grammar in the extracted lexer table; model checking of the product (parser token-cursor interpretation x role-annotated well-formed token DFA); accessor pipelines interpreted on all short child sequences",
   text="Decides the acceptance, structure, accessor and rejection clauses for the whole well-formed grammar at the level of character classes and token kinds: every line form over its complete character sets is tokenised as the grammar requires; in the product with the token grammar no syntax error is reachable, names/values land under ROOT>PARAGRAPH>ENTRY with correct entry and paragraph boundaries and strict returns Ok; with one junk line every outcome is an error; key/value/get/get_all/keys/items/contains_key/paragraphs equal the list model on all child sequences of length <= 3. Value texts are opaque (the lexer partition of C01 gives their extent).",
   note="Oracle grammars are hand-written and conservative (LF line ends, comments in column 0, empty blank lines, no '#'-led continuation lines). Accessor validation is exhaustive only up to 3 children over a 4-kind alphabet (uniform iterator chains). Trusted: rowan child order, hirai."),
 "C02": dict(level="other", ref="4/C02",
   technique="enumeration of panic-capable sites (MIR asserts, partial-API calls) and loops over the MIR call graph of all text-parsing entry points; discharge by all-input abstract interpretation (token-cursor fixpoints, lexer tables), syntactic termination arguments, and a reviewed table; recursion/SCC and loop-nesting degree on the call graph",
   text="For the 65 text-parsing entry points (every FromStr impl plus the relaxed/reader/pgp/vcs/identity functions) the reachable workspace functions (~500) are computed from MIR; every panic-capable site in them must be discharged: parser and lexer code by interpretation over all token-kind sequences / character classes with partial calls modelled as may-panic, the rest by tables/reviewed_sites.json (exact function+callee+ordinal, one reason each). Every loop needs a termination argument (consumes a token of the monotone cursor on every cycle; for-loop or next()-driven loop over a finite iterator; reviewed). No recursion may be reachable; the reported loop-nesting degree (2) bounds the running time polynomially. Any new unwrap/index/slice/assert/loop in reachable code is an undischarged obligation until analysed or reviewed.",
   note="Trusted: external parsers (regex, url, debversion, chrono) return Result as typed; external callees not matching the partial-API patterns are total (listed in the evidence); reviewed entries are human arguments; memory use is not bounded beyond termination and the degree."),
 "C06": dict(level="other", ref="4/C06",
   technique="model checking of both readers' token-cursor interpretations in product with one role-annotated well-formed token grammar (sibling cross-check by shared roles)",
   text="Both readers consume the same lexer on the unmodified text; each is explored in product with the same well-formed token DFA whose transitions carry roles. Lossless: names/values under the field's ENTRY, paragraph boundaries at blank lines (with C03's accessor validation this fixes what it reports). Lossy: a Field is recorded for every name with the KEY text, every value line's text is appended to that field with newlines between lines, nothing else is appended or dropped, paragraphs end at blank lines, the last paragraph is kept, no Err/panic. Agreement is decided for well-formed documents at the granularity of token kinds.",
   note="For arbitrary (not well-formed) texts accepted by both readers only the shared lexer is established; value texts are opaque. Oracle grammar is hand-written (rules/deb822_parse.py)."),
 "C08": dict(level="other", ref="4/C08",
   technique="abstract interpretation of the lossy paragraph operations on all field vectors of length <= 3 (list model) and of the Display impls on every value shape of the domain (symbolic strings)",
   text="get/set/insert/remove/len/is_empty are interpreted on every field vector up to length 3 over two names and compared with the ordered-list model (first match, in-place update or append, always-append, delete all of the name). Field/Paragraph/Deb822 Display are interpreted for single-line, multi-line, empty and empty-first-line values and must print exactly NAME ':' [' ' line] LF (' ' line LF)* with one blank line between paragraphs, i.e. the line forms whose tokenisation and reading C03/C06 decide. The equality parse(print(d)) == d itself is not evaluated.",
   note="Bounded shapes (<= 3 fields, <= 3 lines); value lines are opaque non-empty atoms without newline/leading whitespace/'#'."),
 "C19": dict(level="other", ref="4/C19",
   technique="abstract interpretation of strip_pgp_signature over symbolic clear-signed messages (literal marker lines, opaque other lines), all truncation points and trailing additions",
   text="The function body is interpreted on every combination of 0..2 armour headers, 7 payload shapes (0..3 lines incl. empty lines) and 1..2 signature lines, with and without final newline; every cut after a line must yield the error of the phase that was cut, trailing junk JunkAfterPgpSignature, unsigned text is returned unchanged; the Ok result must be exactly the payload lines each followed by LF and the concatenated signature lines (438 symbolic messages).",
   note="Line atoms are non-empty, newline-free and differ from the markers (no dash-escaping); shapes are bounded - the per-phase loops are uniform; str::lines semantics as modelled in rules/symstr.py."),
 "C17": dict(level="other", ref="4/C17",
   technique="abstract interpretation: glob translation table over every character class, escape pair and mixed patterns; both back-ends' lookup functions on all paragraph/pattern lists of length <= 3 with stubbed match results; symbolic Format gate",
   text="glob_to_regex's output is compared with the DEP-5 translation for all 131 single characters, the three escapes and mixed patterns (anchors included); find_files of both back-ends must return the last matching paragraph for every match assignment on lists up to 3; matches = any over the patterns; lossless files() and lossy deserialize_file_list tokenise the same whitespace-separated list; find_license_for_file returns the own licence when it carries text and otherwise the by-name lookup of exactly that name; find_license_by_name returns the first stand-alone paragraph of the name; the three text entry points return the not-machine-readable error for inputs not starting with 'Format:'.",
   note="Regex matching semantics are trusted to the regex crate ('.' vs newline); regex::escape is modelled from its documented meta-character set; lists are bounded to length 3 (uniform iterator chains)."),
 "C15": dict(level="other", ref="4/C15",
   technique="abstract interpretation of every setter/getter pair of the lossless typed views against an ordered list-of-pairs paragraph model with symbolic values",
   text="All 146 set_x/x pairs of the typed views (145 decidable today) are interpreted: the setter on an empty paragraph and on a paragraph that already holds the field between two foreign fields; checks: exactly one field written, its name equals the Debian name derived from the accessor (explicit exception table), set-not-insert, replacement in place, foreign fields untouched, clearing removes the field, and the getter applied to the stored text returns the argument (so separators, yes/no flags and FromStr/Display codecs of getter and setter must agree). Control::source/binaries select by Source/Package; Source::vcs reaches Vcs::from_field with a table name.",
   note="Values are opaque single-line atoms; heavy value types (lossless/lossy Relations, Version, Url, dates, Vcs) are assumed to print/parse an atom unchanged; the paragraph is the ordered-list model (C04 decides the real editor). One genuine defect is a known finding (set_long_description on a header without description)."),
 "C20": dict(level="other", ref="4/C20",
   technique="sibling table agreement (lossy derive keys extracted by interpreting the generated to_paragraph vs lossless accessor field names extracted by interpreting every accessor); classification loops of lossy Control/Copyright interpreted on all paragraph sequences <= 3; printer separators and routing",
   text="Decides the structural clauses: (D4) for the 100+ (document, field) pairs present in both back-ends the lossy key equals the lossless accessor's field name; (D1) lossy Control/Copyright classify paragraphs by Source/Package resp. Files/License exactly as the document model says and reject no/several sources, paragraphs of neither kind; (D2) Control, Copyright and Repositories print paragraphs separated by exactly one empty line; (D3) every lossy document reads through the deb822 reader + its own derived from_paragraph and prints its own to_paragraph. The print/reparse fixpoint itself is not evaluated: it follows from these clauses with C16 (per-field codecs), C08 (printer forms) and C03/C06 (readers).",
   note="Bounded paragraph sequences (<= 3); paragraph conversions are stubbed in the classification runs (their correctness is C16)."),
 "C04": dict(level="other", ref="4/C04",
   technique="abstract interpretation of Paragraph::{set,insert,remove,rename} on syntax trees obtained by interpreting the repository's own parser on symbolic documents, with a model of rowan 0.16's mutable-tree API; list-model comparison of the printed document; ownership / who-may-mutate rules on the resolved call sites",
   text="For 5 symbolic layouts (comments between fields, duplicate names, multi-line values with odd indentation, missing final newline, trailing comment, second paragraph) x 13 operations the document after the edit must print exactly what the list model prescribes (only the touched field re-rendered as 'Name: l0 LF ( l_i LF)*', everything else byte-identical, appends after a terminated last line, every field of a name removed), the live items() must agree, no child iterator may be advanced after its last yielded node was detached, Entry::new / FromIterator emit the canonical token shapes on mutable trees, every root in src/lossless.rs is new_root_mut and only the editing API calls splice_children/detach. Bounded, single-edit histories; not an equivalence proof over arbitrary histories.",
   note="Rowan's behaviour is modelled by hand (rules/treemodel.py: splice_children, detach, index, lazy child iterators continuing from the previously yielded node) and validated against the observed behaviour of the pre-fix defects. Re-reading the printed result is delegated to C03 (expected text consists of well-formed line forms)."),
 "C05": dict(level="other", ref="4/C05",
   technique="abstract interpretation of Deb822::{add_paragraph,insert_paragraph,remove_paragraph} (+ a field edit on the returned paragraph) on interpreted-parser trees with the rowan model; list model + acceptance and paragraph split of the flattened token sequence by the well-formed token grammar",
   text="For 7 symbolic layouts (empty, several blank lines, leading / intermediate comments, missing final newline, trailing blanks) and every index 0..n+1 the live paragraph list must equal push/insert(i)/remove(i) on the list model (out-of-range insert appends, out-of-range remove is a no-op), the printed token sequence must be accepted by the well-formed grammar and split into exactly the model's paragraphs (i.e. re-reads identically, paragraphs stay separated by a blank line), and every comment must survive in order. Bounded: one paragraph operation per run.",
   note="As C04: hand-written rowan model; the flattened token sequence is assumed to re-lex to itself when the grammar accepts it."),
 "C07": dict(level="other", ref="4/C07",
   technique="abstract interpretation of Deb822/Paragraph/Entry::wrap_and_sort + rebuild_value on interpreted-parser trees over a settings matrix, with the rowan model and symbolic texts (forks on unknown lengths); per-outcome predicates incl. a second application",
   text="For 3 symbolic layouts (comments between fields and before paragraphs, multi-line values, duplicate names, extra blank lines, missing final newline) x the settings matrix (Spaces(1)/Spaces(4)/FieldNameLength x immediate_empty_line x one-liner limit none/some x sort by name or not; 24 combinations thorough, 18 quick) every outcome must: parse strictly, keep paragraphs/fields/value lines in the requested (stable) order, keep each comment on its own line in front of the same field, indent continuation lines by exactly the requested width, separate paragraphs by exactly one blank line, report live content equal to its re-read, be returned as a mutable tree, and be reproduced by a second application.",
   note="The value-formatter (format_value / control-file formatter) path is not covered (multi-line formatter output is re-lexed; out of reach of the symbolic lexer); comparators depend on names only; bounded layouts; rowan model hand-written."),
}
NA_REASON = "check not built yet (construction in progress; see DESIGN.md section 9 build order)"

m = {
 "version": 1,
 "setup_cmd": "cd /verif/factgen && CARGO_NET_OFFLINE=true cargo build --offline",
 "hooks": {"guard": "deb822_verif", "enable": "none needed: the analysis reads /repo's source through a rustc_private driver (RUSTC_WORKSPACE_WRAPPER under cargo +nightly check); no instrumentation in /repo",
           "baseline_off_cmd": "cd /repo && cargo test --workspace --no-fail-fast --offline", "source_commits": [], "add_only": True},
 "engines": [
  {"name": "factgen", "path": "factgen/", "serves_properties": sorted(CLAIMED), "kind_free_text": "rustc_private driver dumping resolved HIR (callees, types, patterns, format templates), MIR CFG terminators, ADTs and impls of every workspace crate as JSON facts"},
  {"name": "hirai", "path": "rules/hirai.py", "serves_properties": sorted(CLAIMED), "kind_free_text": "finite-domain abstract interpreter over the HIR facts (set-valued big-step semantics, loop fixpoints); used for decision tables, lexer tables, token-cursor analyses"},
  {"name": "rules", "path": "rules/", "serves_properties": sorted(CLAIMED), "kind_free_text": "per-property rule modules (python3, stdlib only) + report/evidence writer"},
 ],
 "checks": [],
 "notes": "All checks are static: they compile /repo with a fact-dumping rustc driver (cached by content hash of the working tree) and decide rules over the dumped program. ./check <id> [--tier quick|thorough] [--replay file].",
 "not_applicable": [],
}
for p in props:
    pid = p["id"]
    if pid in CLAIMED:
        c = CLAIMED[pid]
        m["checks"].append({
            "property_id": pid,
            "quick_cmd": "./check %s --tier quick" % pid,
            "thorough_cmd": "./check %s --tier thorough" % pid,
            "evidence_file": "/verif/evidence/%s.json" % pid,
            "replay_cmd_template": "./check %s --replay {path}" % pid,
            "engine": "rules",
            "level_claimed": {"category": c["level"], "text": c["text"], "design_ref": c["ref"]},
            "level_note": c["note"],
            "technique": c["technique"],
        })
    else:
        m["not_applicable"].append({"property_id": pid, "reason": NA_REASON})
json.dump(m, open(os.path.join(V, "MANIFEST.json"), "w"), indent=1)
print("claimed:", sorted(CLAIMED))
