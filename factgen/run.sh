#!/bin/bash
# usage: run.sh <out_dir> [extra cargo args...]   -- dumps facts for /repo (or $VERIF_REPO) into out_dir
set -e
OUT=$1; shift
REPO=${VERIF_REPO:-/repo}
mkdir -p "$OUT"
T=$(mktemp -d /tmp/factgen-target.XXXXXX)
trap 'rm -rf "$T"' EXIT
cd "$REPO"
LD_LIBRARY_PATH=$(rustc +nightly --print sysroot)/lib \
RUSTFLAGS="-Zmir-opt-level=0 -Awarnings" \
RUSTC_WORKSPACE_WRAPPER=/verif/factgen/target/debug/factgen \
FACTGEN_OUT="$OUT" CARGO_TARGET_DIR="$T" CARGO_NET_OFFLINE=true \
cargo +nightly check --offline --workspace --lib "$@" 2>"$OUT/cargo.log" || { tail -40 "$OUT/cargo.log"; exit 2; }
