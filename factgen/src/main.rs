// factgen: rustc_private driver that dumps the resolved program (HIR bodies with
// resolved callees/types, MIR CFG terminators, ADTs, impls) of each workspace crate
// as one JSON file.  Invoked as RUSTC_WORKSPACE_WRAPPER.  No execution of the
// analysed code takes place.
#![feature(rustc_private)]
#![allow(clippy::all)]

extern crate rustc_ast;
extern crate rustc_driver;
extern crate rustc_hir;
extern crate rustc_interface;
extern crate rustc_middle;
extern crate rustc_span;

mod json;
use json::J;

use rustc_hir as hir;
use rustc_hir::def::{DefKind, Res};
use rustc_hir::def_id::{DefId, LocalDefId};
use rustc_middle::mir;
use rustc_middle::ty::print::PrintTraitRefExt;
use rustc_middle::ty::{self, TyCtxt, TypeckResults};
use rustc_span::Span;

struct Cb {
    out_dir: String,
}

impl rustc_driver::Callbacks for Cb {
    fn after_analysis<'tcx>(
        &mut self,
        _c: &rustc_interface::interface::Compiler,
        tcx: TyCtxt<'tcx>,
    ) -> rustc_driver::Compilation {
        let crate_name = tcx.crate_name(rustc_hir::def_id::LOCAL_CRATE).to_string();
        let _ = CRATE.set(crate_name.clone());
        let j = dump_crate(tcx, &crate_name);
        let mut s = String::new();
        j.write(&mut s);
        let features: Vec<String> = std::env::vars()
            .filter(|(k, _)| k.starts_with("CARGO_FEATURE_"))
            .map(|(k, _)| k)
            .collect();
        let _ = features;
        let path = format!("{}/{}.json", self.out_dir, crate_name);
        let tmp = format!("{}.tmp.{}", path, std::process::id());
        std::fs::write(&tmp, s).expect("write facts");
        std::fs::rename(&tmp, &path).expect("rename facts");
        rustc_driver::Compilation::Continue
    }
}

fn main() {
    // RUSTC_WORKSPACE_WRAPPER: argv[1] is the real rustc; drop it.
    let mut args: Vec<String> = std::env::args().collect();
    if args.len() > 1 && (args[1].ends_with("rustc") || args[1].contains("/rustc")) {
        args.remove(1);
    }
    args[0] = "rustc".to_string();
    let out_dir = std::env::var("FACTGEN_OUT").unwrap_or_default();
    // Only dump for real compilations of workspace members (wrapper is only applied to
    // workspace members); `--print` / `-vV` probing invocations have no input file.
    let is_probe = out_dir.is_empty()
        || args.iter().any(|a| a == "-vV" || a.starts_with("--print"))
        || !args.iter().any(|a| a.ends_with(".rs"));
    if is_probe {
        struct Nop;
        impl rustc_driver::Callbacks for Nop {}
        rustc_driver::run_compiler(&args, &mut Nop);
        return;
    }
    let mut cb = Cb { out_dir };
    rustc_driver::run_compiler(&args, &mut cb);
}

// ---------------------------------------------------------------------------------

fn span_str(tcx: TyCtxt<'_>, sp: Span) -> String {
    // file:line:col of the call-site (outermost user-written location)
    let sp = sp.source_callsite();
    let sm = tcx.sess.source_map();
    let lo = sm.lookup_char_pos(sp.lo());
    let name = match &lo.file.name {
        rustc_span::FileName::Real(r) => match r.local_path() {
            Some(p) => p.display().to_string(),
            None => format!("{:?}", r),
        },
        other => format!("{:?}", other),
    };
    format!("{}:{}:{}", name, lo.line, lo.col.0 + 1)
}

fn expn_tag(sp: Span) -> Option<String> {
    if !sp.from_expansion() {
        return None;
    }
    let d = sp.ctxt().outer_expn_data();
    Some(match d.kind {
        rustc_span::ExpnKind::Macro(k, name) => format!("m:{:?}:{}", k, name),
        rustc_span::ExpnKind::Desugaring(k) => format!("d:{:?}", k),
        rustc_span::ExpnKind::AstPass(k) => format!("a:{:?}", k),
        rustc_span::ExpnKind::Root => "root".to_string(),
    })
}

static CRATE: std::sync::OnceLock<String> = std::sync::OnceLock::new();
fn fixcrate(s: String) -> String {
    if s.contains("crate::") {
        let c = CRATE.get().map(|x| x.as_str()).unwrap_or("crate");
        s.replace("crate::", &format!("{}::", c))
    } else {
        s
    }
}

fn defpath(tcx: TyCtxt<'_>, d: DefId) -> String {
    // Closures (and other anonymous defs) print their source location through
    // def_path_str; use a location-free form so keys stay stable under edits elsewhere.
    match tcx.def_kind(d) {
        DefKind::Closure | DefKind::InlineConst | DefKind::AnonConst => {
            let parent = tcx.parent(d);
            let dp = tcx.def_path(d);
            let last = dp.data.last().map(|x| x.disambiguator).unwrap_or(0);
            format!("{}::{{closure#{}}}", defpath(tcx, parent), last)
        }
        _ => fixcrate(ty::print::with_crate_prefix!(ty::print::with_no_visible_paths!(ty::print::with_no_trimmed_paths!(tcx.def_path_str(d))))),
    }
}

struct Ctx<'a, 'tcx> {
    tcx: TyCtxt<'tcx>,
    tr: &'tcx TypeckResults<'tcx>,
    owner: LocalDefId,
    _m: std::marker::PhantomData<&'a ()>,
}

fn tystr<'tcx>(t: ty::Ty<'tcx>) -> String {
    fixcrate(ty::print::with_crate_prefix!(ty::print::with_no_visible_paths!(ty::print::with_no_trimmed_paths!(format!("{}", t)))))
}

impl<'a, 'tcx> Ctx<'a, 'tcx> {
    fn res(&self, r: Res) -> Vec<(&'static str, J)> {
        match r {
            Res::Local(id) => {
                let name = self.tcx.hir_name(id).to_string();
                vec![("k", J::s("Local")), ("name", J::S(name)), ("id", J::N(id.local_id.as_u32() as i64))]
            }
            Res::Def(kind, did) => {
                let mut v = vec![
                    ("k", J::s("Def")),
                    ("dk", J::S(format!("{:?}", kind))),
                    ("def", J::S(defpath(self.tcx, did))),
                ];
                if let DefKind::Ctor(..) = kind {
                    v.push(("def", J::S(defpath(self.tcx, self.tcx.parent(did)))));
                    v.remove(2);
                }
                v
            }
            Res::SelfCtor(did) | Res::SelfTyAlias { alias_to: did, .. } => {
                // resolve `Self` to the ADT it names
                let t = self.tcx.type_of(did).instantiate_identity().skip_norm_wip();
                if let ty::Adt(adt, _) = t.kind() {
                    let dk = if matches!(r, Res::SelfCtor(_)) { "Ctor(Struct, Fn)" } else { "Struct" };
                    vec![("k", J::s("Def")), ("dk", J::s(dk)), ("def", J::S(defpath(self.tcx, adt.did()))), ("selfty", J::B(true))]
                } else {
                    vec![("k", J::s("SelfTy")), ("def", J::S(defpath(self.tcx, did)))]
                }
            }
            Res::SelfTyParam { .. } => vec![("k", J::s("SelfTyParam"))],
            Res::PrimTy(p) => vec![("k", J::s("Prim")), ("name", J::S(format!("{:?}", p)))],
            other => vec![("k", J::s("OtherRes")), ("name", J::S(format!("{:?}", other)))],
        }
    }

    fn resolve_inst(&self, did: DefId, hir_id: hir::HirId) -> Option<String> {
        // try to resolve a (trait) method / fn to the concrete instance
        let args = self.tr.node_args(hir_id);
        if args.len() != self.tcx.generics_of(did).count() {
            return None;
        }
        let env = ty::TypingEnv::post_analysis(self.tcx, self.owner.to_def_id());
        // normalisation may fail for generic code; guard against ICE by checking for params
        match ty::Instance::try_resolve(self.tcx, env, did, args) {
            Ok(Some(inst)) => {
                let d = inst.def_id();
                if d != did {
                    Some(defpath(self.tcx, d))
                } else {
                    None
                }
            }
            _ => None,
        }
    }

    fn lit(&self, l: &hir::Lit) -> J {
        use rustc_ast::LitKind::*;
        match l.node {
            Str(s, _) => J::O(vec![("k", J::s("Lit")), ("t", J::s("str")), ("v", J::S(s.to_string()))]),
            Char(c) => J::O(vec![("k", J::s("Lit")), ("t", J::s("char")), ("v", J::S(c.to_string()))]),
            Byte(b) => J::O(vec![("k", J::s("Lit")), ("t", J::s("byte")), ("v", J::N(b as i64))]),
            Int(n, _) => J::O(vec![("k", J::s("Lit")), ("t", J::s("int")), ("v", J::N(n.get() as i64))]),
            Bool(b) => J::O(vec![("k", J::s("Lit")), ("t", J::s("bool")), ("v", J::B(b))]),
            ByteStr(ref b, _) => J::O(vec![
                ("k", J::s("Lit")),
                ("t", J::s("bytestr")),
                ("v", J::A(b.as_byte_str().iter().map(|x| J::N(*x as i64)).collect())),
            ]),
            Float(s, _) => J::O(vec![("k", J::s("Lit")), ("t", J::s("float")), ("v", J::S(s.to_string()))]),
            _ => J::O(vec![("k", J::s("Lit")), ("t", J::s("other"))]),
        }
    }

    fn qpath(&self, q: &hir::QPath<'tcx>, id: hir::HirId) -> Vec<(&'static str, J)> {
        let r = self.tr.qpath_res(q, id);
        self.res(r)
    }

    fn pat(&self, p: &hir::Pat<'tcx>) -> J {
        use hir::PatKind::*;
        let mut o: Vec<(&'static str, J)> = Vec::new();
        match p.kind {
            Wild => o.push(("p", J::s("Wild"))),
            Missing => o.push(("p", J::s("Missing"))),
            Never => o.push(("p", J::s("Never"))),
            Binding(mode, id, ident, sub) => {
                o.push(("p", J::s("Bind")));
                o.push(("name", J::S(ident.name.to_string())));
                o.push(("id", J::N(id.local_id.as_u32() as i64)));
                o.push(("byref", J::B(matches!(mode.0, hir::ByRef::Yes(..)))));
                o.push(("mut", J::B(matches!(mode.1, hir::Mutability::Mut))));
                if let Some(s) = sub {
                    o.push(("sub", self.pat(s)));
                }
            }
            Struct(ref q, fields, rest) => {
                o.push(("p", J::s("Struct")));
                o.push(("path", J::O(self.qpath(q, p.hir_id))));
                o.push((
                    "fields",
                    J::A(fields
                        .iter()
                        .map(|f| J::O(vec![("name", J::S(f.ident.name.to_string())), ("pat", self.pat(f.pat))]))
                        .collect()),
                ));
                o.push(("rest", J::B(rest.is_some())));
            }
            TupleStruct(ref q, pats, dd) => {
                o.push(("p", J::s("TupleStruct")));
                o.push(("path", J::O(self.qpath(q, p.hir_id))));
                o.push(("pats", J::A(pats.iter().map(|x| self.pat(x)).collect())));
                if let Some(n) = dd.as_opt_usize() {
                    o.push(("dd", J::N(n as i64)));
                }
            }
            Or(pats) => {
                o.push(("p", J::s("Or")));
                o.push(("pats", J::A(pats.iter().map(|x| self.pat(x)).collect())));
            }
            Tuple(pats, dd) => {
                o.push(("p", J::s("Tuple")));
                o.push(("pats", J::A(pats.iter().map(|x| self.pat(x)).collect())));
                if let Some(n) = dd.as_opt_usize() {
                    o.push(("dd", J::N(n as i64)));
                }
            }
            Box(x) | Deref(x) => {
                o.push(("p", J::s("Deref")));
                o.push(("pat", self.pat(x)));
            }
            Ref(x, _, _) => {
                o.push(("p", J::s("Ref")));
                o.push(("pat", self.pat(x)));
            }
            Expr(pe) => {
                self.patexpr(pe, &mut o);
            }
            Guard(x, e) => {
                o.push(("p", J::s("Guard")));
                o.push(("pat", self.pat(x)));
                o.push(("guard", self.expr(e)));
            }
            Range(lo, hi, end) => {
                o.push(("p", J::s("Range")));
                if let Some(lo) = lo {
                    let mut v = Vec::new();
                    self.patexpr(lo, &mut v);
                    o.push(("lo", J::O(v)));
                }
                if let Some(hi) = hi {
                    let mut v = Vec::new();
                    self.patexpr(hi, &mut v);
                    o.push(("hi", J::O(v)));
                }
                o.push(("incl", J::B(matches!(end, hir::RangeEnd::Included))));
            }
            Slice(a, m, b) => {
                o.push(("p", J::s("Slice")));
                o.push(("before", J::A(a.iter().map(|x| self.pat(x)).collect())));
                if let Some(m) = m {
                    o.push(("mid", self.pat(m)));
                }
                o.push(("after", J::A(b.iter().map(|x| self.pat(x)).collect())));
            }
            Err(_) => o.push(("p", J::s("Err"))),
        }
        J::O(o)
    }

    fn patexpr(&self, pe: &hir::PatExpr<'tcx>, o: &mut Vec<(&'static str, J)>) {
        match pe.kind {
            hir::PatExprKind::Lit { lit, negated } => {
                o.push(("p", J::s("Lit")));
                o.push(("lit", self.lit(&lit)));
                if negated {
                    o.push(("neg", J::B(true)));
                }
            }
            hir::PatExprKind::Path(ref q) => {
                o.push(("p", J::s("Path")));
                o.push(("path", J::O(self.qpath(q, pe.hir_id))));
            }
        }
    }

    fn block(&self, b: &hir::Block<'tcx>) -> J {
        let mut stmts = Vec::new();
        for s in b.stmts {
            match s.kind {
                hir::StmtKind::Let(l) => {
                    let mut o = vec![("k", J::s("LetStmt")), ("pat", self.pat(l.pat))];
                    if let Some(i) = l.init {
                        o.push(("init", self.expr(i)));
                    }
                    if let Some(e) = l.els {
                        o.push(("els", self.block(e)));
                    }
                    o.push(("sp", J::S(span_str(self.tcx, l.span))));
                    stmts.push(J::O(o));
                }
                hir::StmtKind::Item(_) => {}
                hir::StmtKind::Expr(e) => stmts.push(J::O(vec![("k", J::s("ExprStmt")), ("e", self.expr(e))])),
                hir::StmtKind::Semi(e) => stmts.push(J::O(vec![("k", J::s("Semi")), ("e", self.expr(e))])),
            }
        }
        let mut o = vec![("k", J::s("Block")), ("stmts", J::A(stmts))];
        if let Some(e) = b.expr {
            o.push(("expr", self.expr(e)));
        }
        J::O(o)
    }

    fn try_fmt(&self, b: &hir::Block<'tcx>) -> Option<J> {
        // recognise the lowering of format_args!: see rustc_ast_lowering::format
        let tail = b.expr?;
        let inner_call = match tail.kind {
            hir::ExprKind::Block(ib, None) if ib.stmts.is_empty() => ib.expr?,
            _ => return None,
        };
        let (callee, cargs) = match inner_call.kind {
            hir::ExprKind::Call(c, a) => (c, a),
            _ => return None,
        };
        let cdef = match callee.kind {
            hir::ExprKind::Path(ref q) => match self.tr.qpath_res(q, callee.hir_id) {
                Res::Def(_, d) => defpath(self.tcx, d),
                _ => return None,
            },
            _ => return None,
        };
        if !(cdef.ends_with("fmt::Arguments::<'a>::new") || cdef.ends_with("fmt::Arguments::new")) {
            return None;
        }
        let bytes: Vec<u8> = match cargs.get(0)?.kind {
            hir::ExprKind::Lit(l) => match l.node {
                rustc_ast::LitKind::ByteStr(ref b, _) => b.as_byte_str().to_vec(),
                _ => return None,
            },
            _ => return None,
        };
        // argument tuple and argument array
        let mut tuple: Vec<&hir::Expr<'tcx>> = Vec::new();
        let mut arr: Vec<(usize, String)> = Vec::new();
        for (i, s) in b.stmts.iter().enumerate() {
            if let hir::StmtKind::Let(l) = s.kind {
                let init = l.init?;
                if i == 0 {
                    if let hir::ExprKind::Tup(es) = init.kind {
                        for e in es {
                            match e.kind {
                                hir::ExprKind::AddrOf(_, _, inner) => tuple.push(inner),
                                _ => tuple.push(e),
                            }
                        }
                    } else {
                        return None;
                    }
                } else if let hir::ExprKind::Array(es) = init.kind {
                    for e in es {
                        if let hir::ExprKind::Call(f, a) = e.kind {
                            let fname = match f.kind {
                                hir::ExprKind::Path(ref q) => match self.tr.qpath_res(q, f.hir_id) {
                                    Res::Def(_, d) => self.tcx.item_name(d).to_string(),
                                    _ => "?".into(),
                                },
                                _ => "?".into(),
                            };
                            let idx = match a.get(0).map(|x| &x.kind) {
                                Some(hir::ExprKind::Field(_, id)) => id.name.as_str().parse::<usize>().ok()?,
                                _ => return None,
                            };
                            arr.push((idx, fname));
                        } else {
                            return None;
                        }
                    }
                } else {
                    return None;
                }
            }
        }
        // decode bytecode
        let mut pieces: Vec<J> = Vec::new();
        let mut i = 0usize;
        let mut implicit = 0usize;
        while i < bytes.len() {
            let c = bytes[i];
            if c == 0 {
                break;
            }
            if c < 0x80 {
                let n = c as usize;
                let s = String::from_utf8_lossy(&bytes[i + 1..i + 1 + n]).to_string();
                pieces.push(J::S(s));
                i += 1 + n;
            } else if c == 0x80 {
                let n = u16::from_le_bytes([bytes[i + 1], bytes[i + 2]]) as usize;
                let s = String::from_utf8_lossy(&bytes[i + 3..i + 3 + n]).to_string();
                pieces.push(J::S(s));
                i += 3 + n;
            } else {
                let mut j = i + 1;
                let mut opts = false;
                if c & 1 != 0 {
                    j += 4;
                    opts = true;
                }
                if c & 2 != 0 {
                    j += 2;
                }
                if c & 4 != 0 {
                    j += 2;
                }
                let pos = if c & 8 != 0 {
                    let p = u16::from_le_bytes([bytes[j], bytes[j + 1]]) as usize;
                    j += 2;
                    p
                } else {
                    implicit
                };
                implicit = pos + 1;
                let (ti, tr) = arr.get(pos).cloned().unwrap_or((usize::MAX, "?".into()));
                let mut o = vec![("t", J::S(tr))];
                if opts {
                    o.push(("opts", J::B(true)));
                }
                match tuple.get(ti) {
                    Some(e) => o.push(("a", self.expr(e))),
                    None => o.push(("a", J::Null)),
                }
                pieces.push(J::O(o));
                i = j;
            }
        }
        Some(J::O(vec![("k", J::s("Fmt")), ("p", J::A(pieces))]))
    }

    fn expr(&self, e: &hir::Expr<'tcx>) -> J {
        use hir::ExprKind::*;
        let mut o: Vec<(&'static str, J)> = Vec::new();
        match e.kind {
            ConstBlock(_) => o.push(("k", J::s("ConstBlock"))),
            Array(es) => {
                o.push(("k", J::s("Array")));
                o.push(("es", J::A(es.iter().map(|x| self.expr(x)).collect())));
            }
            Call(f, args) => {
                // Arguments::from_str("lit") -> Fmt with one literal piece
                let mut done = false;
                if let Path(ref q) = f.kind {
                    if let Res::Def(_, d) = self.tr.qpath_res(q, f.hir_id) {
                        let dp = defpath(self.tcx, d);
                        if dp.contains("fmt::Arguments") && (dp.ends_with("::from_str") || dp.ends_with("::from_str_nonconst")) {
                            if let Some(hir::Expr { kind: Lit(l), .. }) = args.get(0) {
                                if let rustc_ast::LitKind::Str(s, _) = l.node {
                                    o.push(("k", J::s("Fmt")));
                                    o.push(("p", J::A(vec![J::S(s.to_string())])));
                                    done = true;
                                }
                            }
                        }
                    }
                }
                if !done {
                    o.push(("k", J::s("Call")));
                    // resolved callee if the callee is a path to a fn
                    if let Path(ref q) = f.kind {
                        let r = self.tr.qpath_res(q, f.hir_id);
                        if let Res::Def(dk, d) = r {
                            match dk {
                                DefKind::Fn | DefKind::AssocFn => {
                                    o.push(("def", J::S(defpath(self.tcx, d))));
                                    if let Some(i) = self.resolve_inst(d, f.hir_id) {
                                        o.push(("inst", J::S(i)));
                                    }
                                }
                                DefKind::Ctor(..) => {
                                    o.push(("ctor", J::S(defpath(self.tcx, self.tcx.parent(d)))));
                                }
                                _ => {}
                            }
                        } else if let Res::SelfCtor(d) = r {
                            let t = self.tcx.type_of(d).instantiate_identity().skip_norm_wip();
                            if let ty::Adt(adt, _) = t.kind() {
                                o.push(("ctor", J::S(defpath(self.tcx, adt.did()))));
                            } else {
                                o.push(("ctor", J::S(defpath(self.tcx, d))));
                            }
                        }
                    }
                    o.push(("f", self.expr(f)));
                    o.push(("args", J::A(args.iter().map(|x| self.expr(x)).collect())));
                }
            }
            MethodCall(seg, recv, args, _) => {
                o.push(("k", J::s("MCall")));
                o.push(("m", J::S(seg.ident.name.to_string())));
                if let Some(d) = self.tr.type_dependent_def_id(e.hir_id) {
                    o.push(("def", J::S(defpath(self.tcx, d))));
                    if let Some(i) = self.resolve_inst(d, e.hir_id) {
                        o.push(("inst", J::S(i)));
                    }
                }
                o.push(("rty", J::S(tystr(self.tr.expr_ty_adjusted(recv)))));
                o.push(("recv", self.expr(recv)));
                o.push(("args", J::A(args.iter().map(|x| self.expr(x)).collect())));
            }
            Use(x, _) => {
                o.push(("k", J::s("Use")));
                o.push(("e", self.expr(x)));
            }
            Tup(es) => {
                o.push(("k", J::s("Tup")));
                o.push(("es", J::A(es.iter().map(|x| self.expr(x)).collect())));
            }
            Binary(op, a, b) => {
                o.push(("k", J::s("Binary")));
                o.push(("op", J::S(op.node.as_str().to_string())));
                if let Some(d) = self.tr.type_dependent_def_id(e.hir_id) {
                    o.push(("def", J::S(defpath(self.tcx, d))));
                }
                o.push(("l", self.expr(a)));
                o.push(("r", self.expr(b)));
            }
            Unary(op, a) => {
                o.push(("k", J::s("Unary")));
                o.push(("op", J::S(op.as_str().to_string())));
                if let Some(d) = self.tr.type_dependent_def_id(e.hir_id) {
                    o.push(("def", J::S(defpath(self.tcx, d))));
                }
                o.push(("e", self.expr(a)));
            }
            Lit(l) => return self.lit(&l),
            Cast(x, _) => {
                o.push(("k", J::s("Cast")));
                o.push(("e", self.expr(x)));
            }
            Type(x, _) => {
                o.push(("k", J::s("Type")));
                o.push(("e", self.expr(x)));
            }
            DropTemps(x) => return self.expr(x),
            Let(l) => {
                o.push(("k", J::s("Let")));
                o.push(("pat", self.pat(l.pat)));
                o.push(("init", self.expr(l.init)));
            }
            If(c, t, f) => {
                o.push(("k", J::s("If")));
                o.push(("c", self.expr(c)));
                o.push(("t", self.expr(t)));
                if let Some(f) = f {
                    o.push(("f", self.expr(f)));
                }
            }
            Loop(b, label, src, _) => {
                o.push(("k", J::s("Loop")));
                o.push(("src", J::S(format!("{:?}", src))));
                if let Some(l) = label {
                    o.push(("label", J::S(l.ident.name.to_string())));
                }
                o.push(("id", J::N(e.hir_id.local_id.as_u32() as i64)));
                o.push(("body", self.block(b)));
            }
            Match(s, arms, src) => {
                o.push(("k", J::s("Match")));
                let srcs = format!("{:?}", src);
                let srcs = srcs.split('(').next().unwrap_or("").to_string();
                o.push(("src", J::S(srcs)));
                o.push(("e", self.expr(s)));
                o.push((
                    "arms",
                    J::A(arms
                        .iter()
                        .map(|a| {
                            let mut ao = vec![("pat", self.pat(a.pat))];
                            if let Some(g) = a.guard {
                                ao.push(("guard", self.expr(g)));
                            }
                            ao.push(("body", self.expr(a.body)));
                            ao.push(("sp", J::S(span_str(self.tcx, a.span))));
                            J::O(ao)
                        })
                        .collect()),
                ));
            }
            Closure(c) => {
                o.push(("k", J::s("Closure")));
                o.push(("def", J::S(defpath(self.tcx, c.def_id.to_def_id()))));
                let body = self.tcx.hir_body(c.body);
                // closures share the typeck results of their parent
                o.push(("params", J::A(body.params.iter().map(|p| self.pat(p.pat)).collect())));
                o.push(("body", self.expr(body.value)));
            }
            Block(b, label) => {
                if let Some(f) = self.try_fmt(b) {
                    return self.finish(e, match f { J::O(v) => v, _ => unreachable!() });
                }
                let j = self.block(b);
                if let J::O(v) = j {
                    o = v;
                }
                if let Some(l) = label {
                    o.push(("label", J::S(l.ident.name.to_string())));
                }
                o.push(("id", J::N(e.hir_id.local_id.as_u32() as i64)));
            }
            Assign(l, r, _) => {
                o.push(("k", J::s("Assign")));
                o.push(("l", self.expr(l)));
                o.push(("r", self.expr(r)));
            }
            AssignOp(op, l, r) => {
                o.push(("k", J::s("AssignOp")));
                o.push(("op", J::S(op.node.as_str().to_string())));
                if let Some(d) = self.tr.type_dependent_def_id(e.hir_id) {
                    o.push(("def", J::S(defpath(self.tcx, d))));
                }
                o.push(("l", self.expr(l)));
                o.push(("r", self.expr(r)));
            }
            Field(b, id) => {
                o.push(("k", J::s("Field")));
                o.push(("name", J::S(id.name.to_string())));
                o.push(("e", self.expr(b)));
            }
            Index(b, i, _) => {
                o.push(("k", J::s("Index")));
                if let Some(d) = self.tr.type_dependent_def_id(e.hir_id) {
                    o.push(("def", J::S(defpath(self.tcx, d))));
                }
                o.push(("bty", J::S(tystr(self.tr.expr_ty_adjusted(b)))));
                o.push(("e", self.expr(b)));
                o.push(("i", self.expr(i)));
            }
            Path(ref q) => {
                o.push(("k", J::s("Path")));
                let r = self.tr.qpath_res(q, e.hir_id);
                o.push(("res", J::O(self.res(r))));
                if let Res::Def(DefKind::Fn | DefKind::AssocFn, d) = r {
                    if let Some(i) = self.resolve_inst(d, e.hir_id) {
                        o.push(("inst", J::S(i)));
                    }
                }
            }
            AddrOf(_, m, x) => {
                o.push(("k", J::s("AddrOf")));
                o.push(("mut", J::B(matches!(m, hir::Mutability::Mut))));
                o.push(("e", self.expr(x)));
            }
            Break(dest, x) => {
                o.push(("k", J::s("Break")));
                if let Ok(t) = dest.target_id {
                    o.push(("target", J::N(t.local_id.as_u32() as i64)));
                }
                if let Some(x) = x {
                    o.push(("e", self.expr(x)));
                }
            }
            Continue(dest) => {
                o.push(("k", J::s("Continue")));
                if let Ok(t) = dest.target_id {
                    o.push(("target", J::N(t.local_id.as_u32() as i64)));
                }
            }
            Ret(x) => {
                o.push(("k", J::s("Ret")));
                if let Some(x) = x {
                    o.push(("e", self.expr(x)));
                }
            }
            Become(x) => {
                o.push(("k", J::s("Become")));
                o.push(("e", self.expr(x)));
            }
            Struct(q, fields, tail) => {
                o.push(("k", J::s("Struct")));
                o.push(("path", J::O(self.qpath(q, e.hir_id))));
                o.push((
                    "fields",
                    J::A(fields
                        .iter()
                        .map(|f| J::O(vec![("name", J::S(f.ident.name.to_string())), ("e", self.expr(f.expr))]))
                        .collect()),
                ));
                if let hir::StructTailExpr::Base(b) = tail {
                    o.push(("base", self.expr(b)));
                }
            }
            Repeat(x, _) => {
                o.push(("k", J::s("Repeat")));
                o.push(("e", self.expr(x)));
            }
            Yield(x, _) => {
                o.push(("k", J::s("Yield")));
                o.push(("e", self.expr(x)));
            }
            InlineAsm(_) => o.push(("k", J::s("InlineAsm"))),
            OffsetOf(..) => o.push(("k", J::s("OffsetOf"))),
            UnsafeBinderCast(_, x, _) => {
                o.push(("k", J::s("UnsafeBinderCast")));
                o.push(("e", self.expr(x)));
            }
            Err(_) => o.push(("k", J::s("Err"))),
        }
        self.finish(e, o)
    }

    fn finish(&self, e: &hir::Expr<'tcx>, mut o: Vec<(&'static str, J)>) -> J {
        if let Some(t) = self.tr.expr_ty_opt(e) {
            o.push(("ty", J::S(tystr(t))));
        }
        o.push(("sp", J::S(span_str(self.tcx, e.span))));
        if let Some(x) = expn_tag(e.span) {
            o.push(("x", J::S(x)));
        }
        J::O(o)
    }
}

fn dump_mir<'tcx>(tcx: TyCtxt<'tcx>, did: LocalDefId) -> J {
    let body: &mir::Body<'tcx> = tcx.optimized_mir(did.to_def_id());
    let env = ty::TypingEnv::post_analysis(tcx, did.to_def_id());
    let mut blocks = Vec::new();
    for (_bb, data) in body.basic_blocks.iter_enumerated() {
        let term = data.terminator();
        let succ: Vec<J> = term.successors().map(|s| J::N(s.as_usize() as i64)).collect();
        let mut o: Vec<(&'static str, J)> = Vec::new();
        let sp = term.source_info.span;
        match &term.kind {
            mir::TerminatorKind::Call { func, target, unwind, .. } => {
                o.push(("t", J::s("Call")));
                if let Some((d, args)) = func.const_fn_def() {
                    o.push(("def", J::S(defpath(tcx, d))));
                    if args.len() == tcx.generics_of(d).count() {
                        if let Ok(Some(inst)) = ty::Instance::try_resolve(tcx, env, d, args) {
                            let id = inst.def_id();
                            if id != d {
                                o.push(("inst", J::S(defpath(tcx, id))));
                            }
                        }
                    }
                    let a = ty::print::with_no_trimmed_paths!(format!("{:?}", args));
                    o.push(("ga", J::S(a)));
                } else {
                    o.push(("def", J::s("<indirect>")));
                    let t = func.ty(&body.local_decls, tcx);
                    o.push(("fty", J::S(tystr(t))));
                }
                o.push(("ret", match target { Some(t) => J::N(t.as_usize() as i64), None => J::Null }));
                let _ = unwind;
            }
            mir::TerminatorKind::Assert { msg, expected, .. } => {
                o.push(("t", J::s("Assert")));
                let kind = match &**msg {
                    mir::AssertKind::BoundsCheck { .. } => "BoundsCheck".to_string(),
                    mir::AssertKind::Overflow(op, ..) => format!("Overflow({:?})", op),
                    mir::AssertKind::OverflowNeg(..) => "OverflowNeg".to_string(),
                    mir::AssertKind::DivisionByZero(..) => "DivisionByZero".to_string(),
                    mir::AssertKind::RemainderByZero(..) => "RemainderByZero".to_string(),
                    other => format!("{:?}", std::mem::discriminant(other)),
                };
                o.push(("msg", J::S(kind)));
                o.push(("expected", J::B(*expected)));
            }
            mir::TerminatorKind::Goto { .. } => o.push(("t", J::s("Goto"))),
            mir::TerminatorKind::SwitchInt { .. } => o.push(("t", J::s("Switch"))),
            mir::TerminatorKind::Return => o.push(("t", J::s("Return"))),
            mir::TerminatorKind::Unreachable => o.push(("t", J::s("Unreachable"))),
            mir::TerminatorKind::Drop { .. } => o.push(("t", J::s("Drop"))),
            mir::TerminatorKind::UnwindResume => o.push(("t", J::s("Resume"))),
            mir::TerminatorKind::UnwindTerminate(..) => o.push(("t", J::s("Terminate"))),
            other => o.push(("t", J::S(format!("{:?}", std::mem::discriminant(other))))),
        }
        o.push(("cleanup", J::B(data.is_cleanup)));
        o.push(("succ", J::A(succ)));
        o.push(("sp", J::S(span_str(tcx, sp))));
        if let Some(x) = expn_tag(sp) {
            o.push(("x", J::S(x)));
        }
        blocks.push(J::O(o));
    }
    J::A(blocks)
}

fn dump_crate<'tcx>(tcx: TyCtxt<'tcx>, crate_name: &str) -> J {
    let mut fns = Vec::new();
    let ev = tcx.effective_visibilities(());
    for ldid in tcx.hir_body_owners() {
        let did = ldid.to_def_id();
        let dk = tcx.def_kind(did);
        let mut o: Vec<(&'static str, J)> = Vec::new();
        o.push(("key", J::S(defpath(tcx, did))));
        o.push(("dk", J::S(format!("{:?}", dk))));
        let sp = tcx.def_span(did);
        o.push(("sp", J::S(span_str(tcx, sp))));
        if let Some(x) = expn_tag(sp) {
            o.push(("x", J::S(x)));
        }
        match dk {
            DefKind::Fn | DefKind::AssocFn => {
                o.push(("pub", J::B(ev.is_reachable(ldid))));
                let sig = tcx.fn_sig(did).instantiate_identity().skip_norm_wip().skip_binder();
                o.push(("inputs", J::A(sig.inputs().iter().map(|t| J::S(tystr(*t))).collect())));
                o.push(("output", J::S(tystr(sig.output()))));
                if dk == DefKind::AssocFn {
                    let parent = tcx.parent(did);
                    if let DefKind::Impl { of_trait } = tcx.def_kind(parent) {
                        let st = tcx.type_of(parent).instantiate_identity().skip_norm_wip();
                        o.push(("self_ty", J::S(tystr(st))));
                        if of_trait {
                            let trf = tcx.impl_trait_ref(parent).instantiate_identity().skip_norm_wip();
                            o.push(("trait", J::S(defpath(tcx, trf.def_id))));
                            o.push(("trait_ref", J::S(fixcrate(ty::print::with_crate_prefix!(ty::print::with_no_visible_paths!(ty::print::with_no_trimmed_paths!(format!("{}", trf.print_only_trait_path()))))))));
                        }
                    } else if let DefKind::Trait = tcx.def_kind(parent) {
                        o.push(("trait_default", J::S(defpath(tcx, parent))));
                    }
                }
                o.push(("name", J::S(tcx.item_name(did).to_string())));
            }
            DefKind::Closure => {
                o.push(("parent", J::S(defpath(tcx, tcx.typeck_root_def_id(did)))));
            }
            _ => {}
        }
        // HIR body (closures are dumped inline in their parent and skipped here)
        if !matches!(dk, DefKind::Closure) {
            let tr = tcx.typeck(ldid);
            let body = tcx.hir_body_owned_by(ldid);
            let cx = Ctx { tcx, tr, owner: ldid, _m: std::marker::PhantomData };
            o.push(("params", J::A(body.params.iter().map(|p| cx.pat(p.pat)).collect())));
            o.push(("body", cx.expr(body.value)));
        }
        // MIR
        if matches!(dk, DefKind::Fn | DefKind::AssocFn | DefKind::Closure) {
            o.push(("mir", dump_mir(tcx, ldid)));
        }
        fns.push(J::O(o));
    }

    // ADTs and impls
    let mut adts = Vec::new();
    let mut impls = Vec::new();
    for id in tcx.hir_free_items() {
        let did = id.owner_id.to_def_id();
        match tcx.def_kind(did) {
            DefKind::Enum | DefKind::Struct => {
                let adt = tcx.adt_def(did);
                let mut vs = Vec::new();
                for v in adt.variants() {
                    let fields: Vec<J> = v
                        .fields
                        .iter()
                        .map(|f| {
                            J::O(vec![
                                ("name", J::S(f.name.to_string())),
                                ("ty", J::S(tystr(tcx.type_of(f.did).instantiate_identity().skip_norm_wip()))),
                            ])
                        })
                        .collect();
                    vs.push(J::O(vec![("name", J::S(v.name.to_string())), ("fields", J::A(fields))]));
                }
                adts.push(J::O(vec![
                    ("key", J::S(defpath(tcx, did))),
                    ("kind", J::S(format!("{:?}", tcx.def_kind(did)))),
                    ("variants", J::A(vs)),
                    ("sp", J::S(span_str(tcx, tcx.def_span(did)))),
                ]));
            }
            DefKind::Impl { of_trait } => {
                let st = tcx.type_of(did).instantiate_identity().skip_norm_wip();
                let mut o = vec![("self_ty", J::S(tystr(st)))];
                if of_trait {
                    let trf = tcx.impl_trait_ref(did).instantiate_identity().skip_norm_wip();
                    o.push(("trait", J::S(defpath(tcx, trf.def_id))));
                    o.push(("trait_ref", J::S(fixcrate(ty::print::with_crate_prefix!(ty::print::with_no_visible_paths!(ty::print::with_no_trimmed_paths!(format!("{}", trf.print_only_trait_path()))))))));
                }
                let items: Vec<J> = tcx
                    .associated_items(did)
                    .in_definition_order()
                    .map(|it| J::S(defpath(tcx, it.def_id)))
                    .collect();
                o.push(("items", J::A(items)));
                o.push(("sp", J::S(span_str(tcx, tcx.def_span(did)))));
                if let Some(x) = expn_tag(tcx.def_span(did)) {
                    o.push(("x", J::S(x)));
                }
                impls.push(J::O(o));
            }
            _ => {}
        }
    }
    J::O(vec![
        ("crate", J::S(crate_name.to_string())),
        ("fns", J::A(fns)),
        ("adts", J::A(adts)),
        ("impls", J::A(impls)),
    ])
}
